"""C02 — write then read round-trips records unchanged (FASTA/FASTQ + JSON title-line header)."""
import json, base64, math, struct, os, subprocess

PROPS = ["C02/Props.v"]
META = dict(
    text="Rocq theorems over an executable model of the title-line machinery: the (repaired) brace/quote scanner of _parse_json_header_ "
         "delimits exactly the serialised annotation object for every JSON value and every trailing text (proved by induction on the "
         "value, escaped quotes and braces inside strings included), the header parser returns the annotations it was given, 60-column "
         "folding loses nothing and produces no empty line, the quality shift round-trips every score 0..93 for every offset. On every run "
         "random records (specials in ids/keys/strings, UTF-8, ints to 2^53, floats, nested maps/lists, lengths around the 60-column fold, "
         "qualities 0..93, offsets 33/64) go through the REAL FormatFasta/FastqBatch -> Fasta/FastqChunkParser -> header parser -> format again; "
         "a Python oracle checks record equality and the byte-identical second write, and the model is evaluated by vm_compute on the same inputs.",
    note="Trusted: Coq kernel + vm_compute; go-json's decoder (parameter dec, assumed to invert the marshaller on canonical objects; exercised on every generated value) and its "
         "number formatting (number tokens are inputs of the model); harness/generators. Invalid UTF-8 in strings (go-json writes \\ufffd) is outside "
         "the model and the claim. The byte automata of FastaChunkParser/FastqChunkParser are transcribed and proved on whole written batches; the chunk splitter "
         "(ReadSeqFileChunk, EndOfLast*Entry) belongs to C01 and is only exercised here through the obiconvert end-to-end stage. "
         "C02_reparse_keeps_annotations is partial (no model of the decoder on arbitrary accepted text). Defect fixed in the worktree: escaped quotes in the title-line scanner.")
TRUSTED = ["go-json decoder: a parameter dec of the theorems; the round-trip / fixed-point theorems only assume dec_inverts: dec (ser (JObj ann)) = Some (JObj ann) "
           "for the annotations of the records at hand (true of go-json for the canonical member order the writer produces; exercised on every generated record by "
           "the harness: decoded annotations = written annotations, second write byte-identical)",
           "number tokens (strconv float/int formatting) are inputs of the model, taken from the real encoder; that float64 values re-marshal to the same token is checked by the harness only",
           "strings.TrimSpace is modelled for ASCII white space only; invalid UTF-8 in strings is outside the model"]

SPECIALS = ['"', '\\', '{', '}', ';', '=', '>', '@', '+', ' ', '\t', '\n', '\r', '\x00', '\x01', '\x08', '\x0b', '\x0c', '\x1f', '\x7f',
            '<', '&', ':', ',', '[', ']', '/', "'", 'é', '中', ' ', ' ', '\U0001f600', ' ', '�', 'u', 'n']
PLAIN = "abcxyzABC019_-."
IUPAC = "acgtryswkmbdhvn"


def b64(b):
    return base64.b64encode(b).decode()


def unb64(s):
    return base64.b64decode(s)


# ---------------------------------------------------------------- generators
def gen_text(rng, maxlen=10, blanks=True, minlen=0):
    n = rng.randrange(minlen, maxlen + 1)
    out = []
    for _ in range(n):
        k = rng.random()
        if k < 0.5:
            c = rng.choice(SPECIALS)
        else:
            c = rng.choice(PLAIN)
        if not blanks and c in " \t\n\r\x0b\x0c   ":
            c = rng.choice('"\\{}')
        out.append(c)
    return "".join(out).encode("utf8")


def gen_int(rng):
    k = rng.random()
    if k < 0.3:
        return rng.choice([0, 1, -1, 2 ** 53, -2 ** 53, 2 ** 53 - 1, 2 ** 31, 2 ** 31 - 1, -2 ** 31, 2 ** 32, 10, 100, 999999, 1000000, 10 ** 15])
    if k < 0.6:
        return rng.randrange(-1000, 1000)
    return rng.randrange(-2 ** 53, 2 ** 53 + 1)


def gen_float(rng):
    k = rng.random()
    if k < 0.25:
        return rng.choice([0.0, 1.0, -1.0, 0.5, 1.5, 0.1, 1e-6, 9.999e-7, 1e-7, 1e20, 1e21, 1.5e21, 1e300, 5e-324, 1.7976931348623157e308,
                           3.0, 100.0, 123456789.0, 2.0 ** 53, 0.3, 2.5e-5, -7.25, 1e6, 1e15, 1e16])
    if k < 0.5:
        return round(rng.uniform(-1000, 1000), rng.randrange(0, 6))
    if k < 0.7:
        return float(rng.randrange(-10 ** 6, 10 ** 6))
    while True:
        x = struct.unpack("<d", struct.pack("<Q", rng.getrandbits(64)))[0]
        if math.isfinite(x) and not (x == 0 and math.copysign(1, x) < 0):
            return x


def gen_value(rng, depth=0):
    k = rng.random()
    if k < 0.2:
        return ("int", gen_int(rng))
    if k < 0.32:
        return ("float", gen_float(rng))
    if k < 0.4:
        return ("bool", rng.random() < 0.5)
    if k < 0.62:
        return ("str", gen_text(rng))
    if k < 0.7:
        return ("mapint", {gen_text(rng, 5): gen_int(rng) for _ in range(rng.randrange(0, 4))})
    if k < 0.77:
        return ("mapstr", {gen_text(rng, 5): gen_text(rng, 6) for _ in range(rng.randrange(0, 4))})
    if k < 0.84:
        return ("ints", [gen_int(rng) for _ in range(rng.randrange(0, 5))])
    if depth >= 3:
        return ("str", gen_text(rng))
    if k < 0.93:
        return ("map", {gen_text(rng, 5): gen_value(rng, depth + 1) for _ in range(rng.randrange(0, 4))})
    return ("list", [gen_value(rng, depth + 1) for _ in range(rng.randrange(0, 4))])


def gen_seq(rng):
    k = rng.random()
    if k < 0.45:
        n = rng.choice([1, 2, 59, 60, 61, 119, 120, 121, 179, 180, 181])
    elif k < 0.9:
        n = rng.randrange(1, 40)
    else:
        n = rng.randrange(1, 400)
    alpha = IUPAC if rng.random() < 0.8 else IUPAC + IUPAC.upper() + "-.[]"
    return "".join(rng.choice(alpha) for _ in range(n)).encode()


def gen_rec(rng, fmt):
    seq = gen_seq(rng)
    ann = {}
    for _ in range(rng.choice([0, 1, 1, 2, 3, 5])):
        key = gen_text(rng, 6)
        if key == b"definition":
            continue
        ann[key] = gen_value(rng)
    qual = None
    if fmt == "fastq":
        k = rng.random()
        if k < 0.3:
            qual = [rng.choice([0, 1, 31, 40, 92, 93]) for _ in seq]
        else:
            qual = [rng.randrange(0, 94) for _ in seq]
    return dict(id=gen_text(rng, 8, blanks=False, minlen=1), definition=gen_text(rng, 8) if rng.random() < 0.5 else b"", seq=seq, qual=qual, ann=ann)


def R(id, seq, ann=None, definition=b"", qual=None):
    return dict(id=id, definition=definition, seq=seq, qual=qual, ann=ann or {})


def S(s):
    return ("str", s.encode("utf8"))


# hand-written boundary cases and minimised defect witnesses (always first)
CORPUS = [
    dict(mode="rt", fmt="fasta", shift=33, parser="json", recs=[R(b"w1", b"acgt", {b"a": S('q"}')})], tag="fixed:escaped-quote-fatal"),
    dict(mode="rt", fmt="fasta", shift=33, parser="json", recs=[R(b"w2", b"acgt", {b"a": S('"{')})], tag="fixed:escaped-quote-silent-loss"),
    dict(mode="rt", fmt="fasta", shift=33, parser="guessed", recs=[R(b"w3", b"acgt", {b'k"': ("int", 1), b"z": S("}")})], tag="fixed:escaped-quote-in-key"),
    dict(mode="rt", fmt="fastq", shift=64, parser="guessed", recs=[R(b"w4", b"acgt", {b"a": S('\\"\\\\"{}')}, qual=[0, 1, 92, 93])], tag="fixed:escaped-quote"),
    dict(mode="rt", fmt="fasta", shift=33, parser="json", recs=[R(b"w5", b"acgt", {b"a": S("\\"), b"b": S("x\\")})], tag="backslash-last"),
    dict(mode="rt", fmt="fasta", shift=33, parser="json", recs=[R(b"w6", b"a" * 60), R(b"w7", b"c" * 61), R(b"w8", b"g" * 120), R(b"w9", b"t")], tag="folding"),
    dict(mode="rt", fmt="fastq", shift=33, parser="json", recs=[R(b"q1", b"acgt", qual=[0, 93, 40, 1]), R(b"@q2", b"a", {b"n": ("int", 2 ** 53)}, qual=[0])], tag="fastq"),
    dict(mode="rt", fmt="fastq", shift=64, parser="json", recs=[R(b"q3", b"acgt", qual=[0, 0, 0, 0]), R(b"q4", b"ac", qual=[0, 93])], tag="fastq64-at-sign"),
    dict(mode="rt", fmt="fasta", shift=33, parser="guessed", recs=[R(b">x", b"acgt", {b"f": ("float", 3.0), b"g": ("float", 1e21), b"h": ("float", 1e-7)}, definition=b"a {b} \"c\"")], tag="floats+definition"),
    dict(mode="rt", fmt="fasta", shift=33, parser="json", recs=[R(b"e", b"acgt")], tag="no-annotation"),
    dict(mode="rt", fmt="fasta", shift=33, parser="json", recs=[R(b"u", b"acgt", {" 中".encode(): S(" \U0001f600\x7f\x00\n\t\r")})], tag="unicode"),
    dict(mode="rt", fmt="fasta", shift=33, parser="json",
         recs=[R(b"n", b"acgt", {b"m": ("map", {b"x": ("list", [("int", 1), S('"'), ("map", {b"}": ("bool", True), b"n": ("null",)})])}), b"l": ("ints", [])})], tag="nested"),
    dict(mode="rt", fmt="fastq", shift=33, parser="json", recs=[R(b"c1", b"acgtac", qual=[93, 94, 95, 200, 255, 0])], tag="clamp-above-93 (outside the claim: comes back as 93)"),
    dict(mode="scan", header=b'{"a":"q\\"}"} rest', tag="fixed:scan-fatal"),
    dict(mode="scan", header=b'{"a":"\\"{"} rest', tag="fixed:scan-silent"),
    dict(mode="scan", header=b'{"a":"\\\\"} {"b":1}', tag="scan-escaped-backslash"),
    dict(mode="scan", header=b'text {"a":1} more', tag="scan-prefix"),
    dict(mode="scan", header=b'no json here', tag="scan-none"),
    dict(mode="scan", header=b'} {"a":1}', tag="scan-negative-level"),
    dict(mode="scan", header=b'"{"a":1}', tag="scan-quote-before"),
    dict(mode="scan", header=b'\\{"a":"\\\\"}', tag="scan-backslash-before"),
    dict(mode="scan", header=b'{"a":{"b":{}}}x', tag="scan-nested"),
    dict(mode="scan", header=b'', tag="scan-empty"),
]


def gen_scan(rng):
    k = rng.random()
    if k < 0.5:
        n = rng.randrange(0, 14)
        return bytes(rng.choice(b'{}{}""\\\\a :1,') for _ in range(n))
    # a well-formed object (strings full of specials) followed by a remainder
    obj = {gen_text(rng, 5): gen_value(rng) for _ in range(rng.randrange(0, 4))}
    pre = b"" if rng.random() < 0.8 else rng.choice([b"x ", b" ", b"ab"])
    rest = rng.choice([b"", b"", b" rest", b" {\"x\":1}", b"}", b"\"", b"  a b  ", b"\\"])
    return ("obj", pre, obj, rest)


def gen_cases(ctx, n_rt, n_scan, n_enc):
    rng = ctx.rng
    cases = [dict(c) for c in CORPUS]
    for _ in range(n_rt):
        fmt = rng.choice(["fasta", "fastq"])
        cases.append(dict(mode="rt", fmt=fmt, shift=rng.choice([33, 33, 64, 64, 40]) if fmt == "fastq" else 33, parser=rng.choice(["json", "guessed"]),
                          recs=[gen_rec(rng, fmt) for _ in range(rng.choice([1, 1, 2, 3]))]))
    for _ in range(n_scan):
        g = gen_scan(rng)
        if isinstance(g, tuple):
            cases.append(dict(mode="scan", obj=g[2], pre=g[1], rest=g[3]))      # header filled in after the enc pass
        else:
            cases.append(dict(mode="scan", header=g))
    for _ in range(n_enc):
        cases.append(dict(mode="enc", val=gen_value(rng)))
    return cases


SCAN_ALPHABET = b'{}"\\a'


def exhaustive_scan_cases(maxlen):
    """every title-line remainder over { } " \\ a up to the given length (scanner vs model, exhaustive small scope)"""
    import itertools
    out = []
    for n in range(maxlen + 1):
        for t in itertools.product(SCAN_ALPHABET, repeat=n):
            out.append(dict(mode="scan", header=bytes(t)))
    return out


# ---------------------------------------------------------------- rendering for the harness
def val_vh(v):
    t = v[0]
    if t == "int":
        return dict(t="int", v=str(v[1]))
    if t == "float":
        return dict(t="float", v=repr(v[1]))
    if t == "bool":
        return dict(t="bool", b=v[1])
    if t == "str":
        return dict(t="str", s=b64(v[1]))
    if t == "null":
        return dict(t="null")
    if t == "mapint":
        return dict(t="mapint", m={b64(k): dict(t="int", v=str(x)) for k, x in v[1].items()})
    if t == "mapstr":
        return dict(t="mapstr", m={b64(k): dict(t="str", s=b64(x)) for k, x in v[1].items()})
    if t == "ints":
        return dict(t="ints", l=[dict(t="int", v=str(x)) for x in v[1]])
    if t == "map":
        return dict(t="map", m={b64(k): val_vh(x) for k, x in v[1].items()})
    if t == "list":
        return dict(t="list", l=[val_vh(x) for x in v[1]])
    raise ValueError(t)


def to_vh(c):
    if c["mode"] == "scan":
        return dict(mode="scan", header=b64(c["header"]))
    if c["mode"] == "enc":
        return dict(mode="enc", val=val_vh(c["val"]))
    return dict(mode="rt", fmt=c["fmt"], shift=c["shift"], parser=c["parser"],
                recs=[dict(id=b64(r["id"]), **{"def": b64(r["definition"])}, seq=b64(r["seq"]), qual=r["qual"],
                           ann={b64(k): val_vh(v) for k, v in r["ann"].items()}) for r in c["recs"]])


# ---------------------------------------------------------------- direct oracle
def plain(v):
    """the value the property expects back (numbers by value)"""
    t = v[0]
    if t in ("int", "float", "bool"):
        return v[1]
    if t == "str":
        return v[1].decode("utf8")
    if t == "null":
        return None
    if t == "mapint":
        return {k.decode("utf8"): x for k, x in v[1].items()}
    if t == "mapstr":
        return {k.decode("utf8"): x.decode("utf8") for k, x in v[1].items()}
    if t == "ints":
        return list(v[1])
    if t == "map":
        return {k.decode("utf8"): plain(x) for k, x in v[1].items()}
    if t == "list":
        return [plain(x) for x in v[1]]
    raise ValueError(t)


def same(a, b):
    if isinstance(a, bool) or isinstance(b, bool):
        return isinstance(a, bool) and isinstance(b, bool) and a == b
    if isinstance(a, (int, float)) and isinstance(b, (int, float)):
        return float(a) == float(b)      # every number is a float64 on the Go side (the canonical text may print it as an integer)
    if isinstance(a, str) and isinstance(b, str):
        return a == b
    if a is None or b is None:
        return a is None and b is None
    if isinstance(a, list) and isinstance(b, list):
        return len(a) == len(b) and all(same(x, y) for x, y in zip(a, b))
    if isinstance(a, dict) and isinstance(b, dict):
        return a.keys() == b.keys() and all(same(a[k], b[k]) for k in a)
    return False


def expected_rec(r, fmt):
    ann = {k.decode("utf8"): plain(v) for k, v in r["ann"].items()}
    if r["definition"]:
        ann["definition"] = r["definition"].decode("utf8")
    q = None
    if fmt == "fastq":
        q = [min(x, 93) for x in r["qual"]] if r["qual"] is not None else [40] * len(r["seq"])
    return dict(id=r["id"], seq=r["seq"].lower(), qual=q, ann=ann)


def oracle_rt(c, o):
    """returns None when the property holds on this observation, else a short reason"""
    if o["kind"] != "ok":
        return "the reader/header parser died (%s) on text the writer produced" % o["kind"]
    if len(o.get("recs") or []) != len(c["recs"]):
        return "%d records written, %d read back" % (len(c["recs"]), len(o.get("recs") or []))
    for i, (r, x) in enumerate(zip(c["recs"], o["recs"])):
        e = expected_rec(r, c["fmt"])
        if unb64(x["id"]) != e["id"]:
            return "record %d: identifier changed" % i
        if unb64(x["seq"]) != e["seq"]:
            return "record %d: nucleotides changed" % i
        if x.get("qual") != e["qual"]:
            return "record %d: qualities changed" % i
        try:
            got = json.loads(x["ann"])
        except Exception:
            return "record %d: annotations not serialisable (%s)" % (i, x["ann"][:60])
        if not same(got, e["ann"]):
            return "record %d: annotations changed" % i
    if o["w1"] != o["w2"]:
        return "second write differs from the first (not a fixed point)"
    return None


def oracle_scan(c, o):
    if "obj" in c and not c["pre"]:
        # a serialised object followed by a remainder: the object must be found and decoded, the remainder kept
        if o["kind"] != "ok":
            return "header parser died on a serialised object"
        if o["start"] != 0 or o["stop"] != len(c["objbytes"]) - 1:
            return "scanner delimits [%d,%d] instead of [0,%d]" % (o["start"], o["stop"], len(c["objbytes"]) - 1)
        if not same(json.loads(o["ann"]), {k.decode("utf8"): plain(v) for k, v in c["obj"].items()}):
            return "annotations differ from the serialised object"
        if unb64(o.get("rest", "")) != c["rest"].strip(b" "):
            return "remainder (definition) changed"
    if o["kind"] == "fatal-reparse":
        return "re-parsing the formatted header died"
    if o["kind"] == "ok" and o.get("ann2") is not None and o.get("ann") not in (None, "{}"):
        if not same(json.loads(o["ann2"]), json.loads(o["ann"])) or unb64(o.get("rest2", "")) != b"":
            return "re-parsing the formatted header changed the annotations"
    return None


def oracle_enc(c, o):
    return None if o["kind"] == "ok" else "encoder failed"


# ---------------------------------------------------------------- correspondence (Gallina rendering)
IMPORTS = ("From Coq Require Import NArith ZArith List. Import ListNotations. Open Scope N_scope.\n"
           "From OBI.C02 Require Import Model.")


def nl(b):
    return "[" + ";".join(str(x) for x in b) + "]"


def collect_floats(v, acc):
    t = v[0]
    if t == "float":
        acc.add(v[1])
    elif t == "map":
        for x in v[1].values():
            collect_floats(x, acc)
    elif t == "list":
        for x in v[1]:
            collect_floats(x, acc)


def jterm(v, tok):
    t = v[0]
    if t == "int":
        return "JNum " + nl(str(v[1]).encode())
    if t == "float":
        return "JNum " + nl(tok[repr(v[1])])
    if t == "bool":
        return "JBool " + ("true" if v[1] else "false")
    if t == "str":
        return "JStr " + nl(v[1])
    if t == "null":
        return "JNull"
    if t == "mapint":
        return jobj({k: ("int", x) for k, x in v[1].items()}, tok)
    if t == "mapstr":
        return jobj({k: ("str", x) for k, x in v[1].items()}, tok)
    if t == "map":
        return jobj(v[1], tok)
    if t == "ints":
        return "JArr [" + "; ".join(jterm(("int", x), tok) for x in v[1]) + "]"
    if t == "list":
        return "JArr [" + "; ".join(jterm(x, tok) for x in v[1]) + "]"
    raise ValueError(t)


def enc_key(k):
    """go-json orders the members of a map by their ENCODED key (quotes and escapes included)"""
    out = bytearray(b'"')
    i = 0
    while i < len(k):
        c = k[i]
        if k[i:i + 3] in (b"\xe2\x80\xa8", b"\xe2\x80\xa9"):
            out += b"\\u2028" if k[i + 2] == 0xa8 else b"\\u2029"
            i += 3
            continue
        if c in (34, 92):
            out += bytes([92, c])
        elif c == 10:
            out += b"\\n"
        elif c == 13:
            out += b"\\r"
        elif c == 9:
            out += b"\\t"
        elif c < 32:
            out += b"\\u00%02x" % c
        else:
            out.append(c)
        i += 1
    return bytes(out + b'"')


def members(m, tok):
    return "[" + "; ".join("(%s, %s)" % (nl(k), jterm(m[k], tok)) for k in sorted(m, key=enc_key)) + "]"


def jobj(m, tok):
    return "JObj " + members(m, tok)


def wrec_term(r, fmt, tok):
    ann = dict(r["ann"])
    if r["definition"]:
        ann[b"definition"] = ("str", r["definition"])
    q = "None" if r["qual"] is None else "(Some %s)" % nl(r["qual"])
    return "mkw %s %s %s %s" % (nl(r["id"]), members(ann, tok), nl(r["seq"].lower()), q)


def prec_term(x):
    q = "None" if x.get("qual") is None else "(Some %s)" % nl(x["qual"])
    return "mkp %s %s %s %s" % (nl(unb64(x["id"])), nl(unb64(x["rawdef"])), nl(unb64(x["seq"])), q)


def terms_of(c, o, tok):
    """Gallina correspondence cases of one harness case (possibly several)"""
    out = []
    if o.get("kind") == "crash":
        return out
    if c["mode"] == "enc" and o["kind"] == "ok":
        out.append("CSer (%s) %s" % (jterm(c["val"], tok), nl(unb64(o["enc"]))))
    elif c["mode"] == "scan":
        found = o["kind"] == "ok" and o["start"] >= 0 and o["stop"] >= 0
        out.append("CScan %s (%d)%%Z (%d)%%Z %s %s" % (nl(c["header"]), o["start"], o["stop"], "true" if found else "false", nl(unb64(o.get("rest", "")) if found else b"")))
        if "objbytes" in c:
            out.append("CSer (%s) %s" % (jobj(c["obj"], tok), nl(c["objbytes"])))
    elif c["mode"] == "rt" and o.get("w1"):
        fq = "true" if c["fmt"] == "fastq" else "false"
        w1 = unb64(o["w1"])
        dom = all(r["qual"] is not None and max(r["qual"]) <= 93 for r in c["recs"]) if c["fmt"] == "fastq" else True
        out.append("CWrite %s %d [%s] %s %s" % (fq, c["shift"], "; ".join(wrec_term(r, c["fmt"], tok) for r in c["recs"]), "true" if dom else "false", nl(w1)))
        if o["kind"] == "ok":
            # the chunk parser's view (qualities only exist for fastq)
            out.append("CRead %s %d %s [%s]" % (fq, c["shift"], nl(w1), "; ".join(prec_term(x) for x in o["recs"])))
            for x in o["recs"]:
                if x["start"] != -2:
                    out.append("CScan %s (%d)%%Z (%d)%%Z false []" % (nl(unb64(x["rawdef"])), x["start"], x["stop"]))
    return out


def float_tokens(ctx, cases):
    acc = set()
    for c in cases:
        if c["mode"] == "enc":
            collect_floats(c["val"], acc)
        elif c["mode"] == "scan" and "obj" in c:
            collect_floats(("map", c["obj"]), acc)
        elif c["mode"] == "rt":
            for r in c["recs"]:
                collect_floats(("map", r["ann"]), acc)
    fl = sorted(acc)
    enc = ctx.vh_robust("c02", [dict(mode="enc", val=val_vh(("float", x))) for x in fl], timeout=300, one_timeout=10)
    return {repr(x): (unb64(e["enc"]) if e.get("kind") == "ok" else b"?") for x, e in zip(fl, enc)}


def correspond(ctx, cases, obs, broken, label):
    tok = float_tokens(ctx, cases)
    terms, owner = [], []
    for i, (c, o) in enumerate(zip(cases, obs)):
        for t in terms_of(c, o, tok):
            terms.append(t)
            owner.append(i)
    bad, err = ctx.correspond(label, IMPORTS, terms, shard=120)
    if bad is None:
        broken.append(dict(kind="correspondence", detail=err))
        return []
    return [(owner[j], terms[j].split(" ")[0]) for j in bad]


def nontrivial(c):
    if c["mode"] == "rt":
        return any(r["ann"] or len(r["seq"]) > 60 for r in c["recs"])
    if c["mode"] == "scan":
        return any(ch in c["header"] for ch in b'{"\\')
    return True


def case_key(c):
    return json.dumps(to_vh(c), sort_keys=True)


def shrink_candidates(c):
    """smaller variants of a failing case (one structural step each)"""
    if c["mode"] == "scan":
        h = c["header"]
        for k in range(len(h)):
            yield dict(mode="scan", header=h[:k] + h[k + 1:])
        return
    if c["mode"] != "rt":
        return
    recs = c["recs"]

    def with_rec(i, r):
        return dict(c, recs=recs[:i] + [r] + recs[i + 1:])
    if len(recs) > 1:
        for i in range(len(recs)):
            yield dict(c, recs=recs[:i] + recs[i + 1:])
    for i, r in enumerate(recs):
        if len(r["seq"]) > 1:
            yield with_rec(i, dict(r, seq=r["seq"][:1], qual=r["qual"][:1] if r["qual"] else r["qual"]))
        if r["definition"]:
            yield with_rec(i, dict(r, definition=b""))
        if len(r["id"]) > 1:
            yield with_rec(i, dict(r, id=b"x"))
        for k, v in r["ann"].items():
            rest = {a: b for a, b in r["ann"].items() if a != k}
            yield with_rec(i, dict(r, ann=rest))
            if len(k) > 1:
                for kk in (k[:len(k) // 2], k[len(k) // 2:]):
                    if kk not in rest:
                        yield with_rec(i, dict(r, ann={**rest, kk: v}))
            if v[0] == "str" and len(v[1]) > 1:
                for j in range(len(v[1])):
                    yield with_rec(i, dict(r, ann={**rest, k: ("str", v[1][:j] + v[1][j + 1:])}))
            if v[0] == "map":
                for x in v[1].values():
                    yield with_rec(i, dict(r, ann={**rest, k: x}))
            if v[0] == "list":
                for x in v[1]:
                    yield with_rec(i, dict(r, ann={**rest, k: x}))
            if v[0] in ("mapstr",):
                for a, x in v[1].items():
                    yield with_rec(i, dict(r, ann={**rest, k: ("str", a + x)}))
            if v[0] in ("mapint",):
                for a in v[1]:
                    yield with_rec(i, dict(r, ann={**rest, k: ("str", a)}))


def shrink(ctx, c, fails):
    """greedy delta debugging on the case structure, re-running the real code after each step"""
    if "obj" in c:
        return c
    for _ in range(60):
        cands = list(shrink_candidates(c))[:400]
        if not cands:
            break
        obs = ctx.vh_robust("c02", [to_vh(x) for x in cands], timeout=120, one_timeout=10)
        nxt = next((x for x, o in zip(cands, obs) if o.get("kind") != "crash" and fails(x, o)), None)
        if nxt is None:
            break
        c = nxt
    return c


def run_cases(ctx, cases, broken, label, correspond_too=True):
    # pass 1: serialise the objects of structured scan cases with the real encoder (their header is obj ++ rest)
    idx = [i for i, c in enumerate(cases) if c["mode"] == "scan" and "obj" in c and "header" not in c]
    if idx:
        enc = ctx.vh_robust("c02", [dict(mode="enc", val=val_vh(("map", cases[i]["obj"]))) for i in idx], timeout=300, one_timeout=10)
        for i, e in zip(idx, enc):
            ob = unb64(e["enc"]) if e.get("kind") == "ok" else b"{}"
            cases[i]["objbytes"] = ob
            cases[i]["header"] = cases[i]["pre"] + ob + cases[i]["rest"]
    obs = ctx.vh_robust("c02", [to_vh(c) for c in cases], timeout=600, one_timeout=10)
    nviol = 0
    for i, (c, o) in enumerate(zip(cases, obs)):
        why = dict(rt=oracle_rt, scan=oracle_scan, enc=oracle_enc)[c["mode"]](c, o) if o.get("kind") != "crash" else "harness crashed"
        if why:
            nviol += 1
            if nviol <= 3:
                orc = dict(rt=oracle_rt, scan=oracle_scan, enc=oracle_enc)[c["mode"]]
                small = shrink(ctx, c, lambda x, y: orc(x, y) is not None) if o.get("kind") != "crash" else c
                so = ctx.vh_robust("c02", [to_vh(small)], timeout=60, one_timeout=10)[0]
                ctx.violation("%s_oracle_%d" % (label, i), dict(property="C02", kind="direct-oracle", why=orc(small, so) or why, case=to_vh(small), tag=c.get("tag"),
                                                              readable=readable(small), implementation=so, before_shrinking=to_vh(c) if small is not c else None))
    mism = correspond(ctx, cases, obs, broken, label) if correspond_too else []
    return obs, mism


def readable(c):
    if c["mode"] == "scan":
        return dict(header=c["header"].decode("utf8", "replace"))
    if c["mode"] == "enc":
        return dict(val=repr(c["val"]))
    return dict(fmt=c["fmt"], shift=c["shift"], parser=c["parser"],
                recs=[dict(id=r["id"].decode("utf8", "replace"), seq=r["seq"].decode(), ann=repr(r["ann"])) for r in c["recs"]])


def val_from_vh(d):
    t = d["t"]
    if t == "int":
        return ("int", int(d["v"]))
    if t == "float":
        return ("float", float(d["v"]))
    if t == "bool":
        return ("bool", bool(d.get("b", False)))
    if t == "str":
        return ("str", unb64(d.get("s", "")))
    if t == "null":
        return ("null",)
    if t == "mapint":
        return ("mapint", {unb64(k): int(x["v"]) for k, x in d.get("m", {}).items()})
    if t == "mapstr":
        return ("mapstr", {unb64(k): unb64(x.get("s", "")) for k, x in d.get("m", {}).items()})
    if t == "ints":
        return ("ints", [int(x["v"]) for x in d.get("l", [])])
    if t == "map":
        return ("map", {unb64(k): val_from_vh(x) for k, x in d.get("m", {}).items()})
    if t == "list":
        return ("list", [val_from_vh(x) for x in d.get("l", [])])
    raise ValueError(t)


def from_vh(c):
    if c["mode"] == "scan":
        return dict(mode="scan", header=unb64(c["header"]))
    if c["mode"] == "enc":
        return dict(mode="enc", val=val_from_vh(c["val"]))
    return dict(mode="rt", fmt=c["fmt"], shift=c["shift"], parser=c["parser"],
                recs=[dict(id=unb64(r["id"]), definition=unb64(r.get("def", "")), seq=unb64(r["seq"]), qual=r.get("qual"),
                           ann={unb64(k): val_from_vh(v) for k, v in r.get("ann", {}).items()}) for r in c["recs"]])


def cli_stage(ctx, cases, obs, broken):
    """End to end on the built command: the text written by FormatFasta/FastqBatch for all rt cases (offset 33), fed to
    `obiconvert` (default = guessed header parser, and --input-json-header), must come out byte-identical."""
    import vlib
    bindir, err = ctx.build_cmds(["obiconvert"])
    if bindir is None:
        broken.append(dict(kind="cmd-build", detail=err))
        return
    exe = os.path.join(bindir, "obiconvert")
    n = 0
    for fmt in ("fasta", "fastq"):
        text = b"".join(unb64(o["w1"]) for c, o in zip(cases, obs) if c["mode"] == "rt" and c["fmt"] == fmt and c["shift"] == 33 and o.get("w1"))
        if not text:
            continue
        path = os.path.join(vlib.BUILD, "c02_cli_%s_in.%s" % (ctx.tier, fmt))
        with open(path, "wb") as f:
            f.write(text)
        for flags in ([], ["--input-json-header"]):
            try:
                p = subprocess.run([exe] + flags + [path], capture_output=True, timeout=300)
                rc, out = p.returncode, p.stdout
            except subprocess.TimeoutExpired:
                rc, out = 124, b""
            n += 1
            if rc != 0 or out != text:
                first = next((k for k, (a, b) in enumerate(zip(out.split(b"\n"), text.split(b"\n"))) if a != b), None)
                ctx.violation("cli_%s_%s" % (fmt, "json" if flags else "guessed"),
                              dict(property="C02", kind="cli", why="obiconvert %s of text written by the toolkit: exit %d, output %s" % (
                                  " ".join(flags), rc, "identical" if out == text else "differs (first differing line %s)" % first),
                                   input_b64=b64(text), cmd=[exe] + flags + [path]))
    ctx.cov["cli_roundtrips"] = n


def run(ctx, broken):
    n_rt, n_scan, n_enc = (250, 500, 150) if ctx.quick else (6000, 20000, 4000)
    cases = gen_cases(ctx, n_rt, n_scan, n_enc)
    scope = 4 if ctx.quick else 6
    ex = exhaustive_scan_cases(scope)
    cases += ex
    ctx.cov["exhaustive"] = "scanner vs model on every string over { } \" \\ a of length <= %d (%d strings)" % (scope, len(ex))
    obs, mism = run_cases(ctx, cases, broken, "main")
    ctx.cov["evaluations"] = len(cases)
    ctx.cov["distinct_nontrivial"] = len({case_key(c) for c in cases if nontrivial(c)})
    ctx.cov["rule"] = ("rt: records written and re-read (non-trivial = some annotation or a sequence longer than one 60-column line); "
                       "scan: title-line remainders through _parse_json_header_ (non-trivial = contains a brace, quote or backslash); "
                       "enc: single values through the marshaller; distinct = distinct harness input")
    dist = {}
    for c, o in zip(cases, obs):
        k = "%s/%s/%s" % (c["mode"], c.get("fmt", "-"), o.get("kind"))
        dist[k] = dist.get(k, 0) + 1
    ctx.cov["distribution"] = dist
    recs = [r for c in cases if c["mode"] == "rt" for r in c["recs"]]

    def blob_of(v):
        t = v[0]
        if t == "str":
            return v[1]
        if t in ("mapint",):
            return b"".join(v[1].keys())
        if t == "mapstr":
            return b"".join(k + x for k, x in v[1].items())
        if t == "map":
            return b"".join(k + blob_of(x) for k, x in v[1].items())
        if t == "list":
            return b"".join(blob_of(x) for x in v[1])
        return b""

    def blob(r):
        return blob_of(("map", r["ann"])) + r["id"] + r["definition"]

    def has(r, chars):
        b = blob(r)
        return any(ch in b for ch in chars)
    ctx.cov["record_distribution"] = dict(
        records=len(recs), seq_len_multiple_of_60=sum(1 for r in recs if len(r["seq"]) % 60 == 0), seq_len_over_60=sum(1 for r in recs if len(r["seq"]) > 60),
        seq_len_1=sum(1 for r in recs if len(r["seq"]) == 1), with_quote_or_backslash=sum(1 for r in recs if has(r, b'"\\')),
        with_brace=sum(1 for r in recs if has(r, b"{}")), with_non_ascii=sum(1 for r in recs if any(x > 127 for x in blob(r))),
        with_definition=sum(1 for r in recs if r["definition"]), without_annotation=sum(1 for r in recs if not r["ann"] and not r["definition"]),
        quality_0_or_93=sum(1 for r in recs if r["qual"] and (0 in r["qual"] or 93 in r["qual"])),
        shifts={str(k): sum(1 for c in cases if c["mode"] == "rt" and c["fmt"] == "fastq" and c["shift"] == k) for k in (33, 40, 64)},
        parsers={k: sum(1 for c in cases if c["mode"] == "rt" and c["parser"] == k) for k in ("json", "guessed")})
    ctx.samples = [dict(case=readable(c), kind=o.get("kind")) for c, o in list(zip(cases, obs))[:2] + list(zip(cases, obs))[30:33]]
    ctx.cov["model_vs_impl_mismatches"] = len(mism)
    cli_stage(ctx, cases, obs, broken)
    if mism and not ctx.violations:
        # model != code but the direct oracle is satisfied on those inputs: search harder through the oracle
        more = gen_cases(ctx, 3000, 6000, 0)
        run_cases(ctx, more, [], "search", correspond_too=False)
        if not ctx.violations:
            i, kind = mism[0]
            broken.append(dict(kind="correspondence", name="corr:C02/%s" % kind, first_diverging_case=to_vh(cases[i]), readable=readable(cases[i]),
                               implementation=obs[i], n_diverging=len(mism)))
    elif mism:
        ctx.cov["note"] = "model and implementation diverge on %d cases (violations reported by the direct oracle)" % len(mism)


def replay(ctx, rp):
    if rp.get("kind") == "cli":
        path = os.path.join(os.path.dirname(ctx.replay_path("x")), "cli_replay_input")
        open(path, "wb").write(unb64(rp["input_b64"]))
        p = subprocess.run(rp["cmd"][:-1] + [path], capture_output=True, timeout=300)
        print("replay: obiconvert exit", p.returncode, "output identical to input:", p.stdout == unb64(rp["input_b64"]))
        return
    c = from_vh(rp["case"])
    n0 = len(ctx.violations)
    obs, mism = run_cases(ctx, [c], [], "replay")
    print("replay:", json.dumps(readable(c))[:600], "->", json.dumps(obs[0])[:600])
    print("recorded reason:", rp.get("why"))
    print("now:", "property VIOLATED on this input" if len(ctx.violations) > n0 else "property holds on this input",
          "; model", "differs from" if mism else "agrees with", "the implementation")
