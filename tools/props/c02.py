"""C02 — write then read round-trips records unchanged (FASTA/FASTQ + JSON title-line header)."""
import json, base64, math, struct, os, subprocess

PROPS = ["C02/Props.v"]
META = dict(
    text="Rocq theorems over an executable model of the title-line machinery. Round 2: the JSON decoder is inside the model (an executable parser jparse: white space, "
         "every escape incl. surrogate pairs, number tokens checked against go-json's grammar) and is proved to invert the marshaller on every well-formed value with valid-UTF-8 strings, so the header, "
         "FASTA/FASTQ round-trip and write-fixed-point theorems carry no hypothesis on the decoder (json and guessed parser, records with or without annotations); "
         "decoding into a Go map (members by key, last repeated key wins, numbers as float64) is modelled and proved canonical, and 're-parsing a formatted header never changes "
         "or loses annotations' is proved at full strength for ANY title line the parser accepts (C02_reparse_keeps_annotations / _record: text before/after the object, "
         "definition appended). The number path token -> float64 -> token is transcribed for every number token; integers |x| <= 2^53 are proved fixed points, 2^53+1 is not. "
         "The marshaller's UTF-8 validation is modelled: invalid UTF-8 provably breaks the round trip (C02_invalid_utf8_not_preserved), valid UTF-8 is an explicit premise. "
         "As before: the repaired brace/quote scanner delimits exactly the serialised object, folding, quality offsets, byte automata of the chunk parsers on whole batches. "
         "On every run random records and free-style JSON title lines (white space, shuffled/repeated keys, alternative escapes, integers up to 25 digits, numbers at and "
         "beyond 2^53, Unicode blanks after the object) go through the REAL writer / chunk parser / header parsers / go-json decode+encode; a Python oracle checks record equality, "
         "exact integers up to 2^53, the byte-identical second write, every input/output quality-offset pair and `obiconvert` (default, --input-json-header, --solexa); the model "
         "(jparse, map decoder, number path included) is evaluated by vm_compute on the same inputs.",
    note="Trusted: Coq kernel + vm_compute; harness/generators. go-json is no longer a hypothesis of the theorems but the tie between it and jparse/jdec is by correspondence (every "
         "generated value and title line: go-json decode + encode = model), one-directional on free text: what the model accepts go-json accepts with the same result; the number grammar is go-json's (JSON's plus 01, 1., -.5), "
         "surrogate escapes are modelled (a lone one reads as U+FFFD); go-json may still be more lenient elsewhere (then the model refuses and nothing is compared). Number path: transcribed for every JSON number token (exact decimal -> nearest float64 -> shortest decimal -> go-json layout) and compared with "
         "the real ParseFloat/AppendFloat64 on every generated number (any spelling: 2.50, 1E5, 25-digit integers, subnormals); proved only for integer tokens: |x| <= 2^53 are fixed points "
         "(that an integral float64 below 2^53 prints as its decimal digits is transcribed from strconv's contract, not derived from its algorithm). That a token produced by the encoder "
         "for a float is a fixed point of read-then-write is NOT proved (shortest-digits round trip): it is the decidable premise numfixed of the float64 theorems, evaluated in Coq on every generated value. Invalid UTF-8 in strings is outside the claim (it speaks of Unicode strings) but, since round 2, inside the model: decided on the real code - the marshaller writes each bad byte as "
         "the 6 characters \\ufffd, the reader returns U+FFFD, the next write emits it raw, so the value changes and the first re-write is NOT byte-identical (stable afterwards): "
         "C02_invalid_utf8_not_preserved, and utf8v (all strings valid UTF-8) is an explicit premise of every theorem that goes through the decoder; measured on every run (coverage.invalid_utf8). "
         "Not modelled: the OBI-style header parser beyond the empty definition (guessed parser on a title not starting with a brace), a non-string 'definition' member followed by text, "
         "raw NUL in strings (go-json refuses it). Numbers beyond the float64 range: the real reader dies (ParseFloat), the model's jdec keeps the token; the correspondence accepts a dead reader "
         "exactly when a number token of the title line is beyond the range (tok_finite), so the float64 theorems speak of title lines whose numbers are finite float64s. The chunk splitter belongs to C01 (exercised through obiconvert). Quality offsets on the command line: only --solexa "
         "(input 64) exists; output 64 is reachable programmatically only and is covered through the library calls. Defect fixed in round 1: escaped quotes in the title-line scanner.")
TRUSTED = ["go-json decoder/encoder vs the model's jparse / jdec renum64 / ser: tied by correspondence on every generated value, record and free-style title line (CSer, CDec, CHdr), not by proof; "
           "on free text one direction only (model accepts => go-json accepts, same annotations)",
           "number path: renum64 transcribes ParseFloat (nearest float64, ties to even, subnormals) and go-json's AppendFloat64 (shortest digits that read back, 'e' layout below 1e-6 and from 1e21) "
           "for every JSON number token; compared with the real pair on every run; the branch 'an integral float64 below 2^53 prints as its decimal digits' of the integer transcription is "
           "taken from strconv's contract; tokens beyond the float64 range (the reader dies) are left unchanged by the model",
           "strings.TrimSpace is modelled for ASCII blanks and the Unicode White_Space runes in UTF-8; UTF-8 validation of the marshaller is transcribed from Go's acceptance ranges "
           "(compared with go-json on random invalid byte strings on every run)",
           "ParseFastSeqOBIHeader is modelled only on the empty definition (does nothing)"]

SPECIALS = ['"', '\\', '{', '}', ';', '=', '>', '@', '+', ' ', '\t', '\n', '\r', '\x00', '\x01', '\x08', '\x0b', '\x0c', '\x1f', '\x7f',
            '<', '&', ':', ',', '[', ']', '/', "'", 'é', '中', ' ', ' ', '\U0001f600', ' ', '�', 'u', 'n']
PLAIN = "abcxyzABC019_-."
IUPAC = "acgtryswkmbdhvn"


def b64(b):
    return base64.b64encode(b).decode()


def unb64(s):
    return base64.b64decode(s)


# ---------------------------------------------------------------- generators
def gen_text(rng, maxlen=10, blanks=True, minlen=0):
    n = rng.randrange(minlen, maxlen + 1)
    out = []
    for _ in range(n):
        k = rng.random()
        if k < 0.5:
            c = rng.choice(SPECIALS)
        else:
            c = rng.choice(PLAIN)
        if not blanks and c in " \t\n\r\x0b\x0c   ":
            c = rng.choice('"\\{}')
        out.append(c)
    return "".join(out).encode("utf8")


INT_EDGE = [0, 1, -1, 2 ** 53, -2 ** 53, 2 ** 53 - 1, -2 ** 53 + 1, 2 ** 53 - 2, 2 ** 52, 2 ** 52 + 1, 2 ** 31, 2 ** 31 - 1, -2 ** 31, 2 ** 32, 10, 100, 999999,
            1000000, 10 ** 15, 10 ** 15 + 1, 9007199254740990, 9000000000000000, -9007199254740991]
# integers the claim does not cover (|x| > 2^53: the reader's float64 cannot hold them all): only sent through the marshaller /
# decoder pair (mode enc) where the model's number path is compared with the real one
INT_OUTSIDE = [2 ** 53 + 1, -2 ** 53 - 1, 2 ** 53 + 2, 2 ** 53 + 3, 2 ** 54 + 2, 2 ** 62 + 1, 2 ** 63 - 1, -2 ** 63, 10 ** 18 + 1, 999999999999999999, 123456789012345678]
FLOAT_EDGE = [1e20, -2.5e19, 2.0 ** 63, -2.0 ** 63, 2.0 ** 53, 2.0 ** 53 + 2, -2.0 ** 53, 2.0 ** 64, 1e21, 9.99999999999999e20, 1e22, 1.2345678901234567e19, 4.611686018427388e18,
              123456789012345680000.0, 1e19, 3e18, 9.007199254740993e15, 1.8446744073709552e19, 5e20, 1e17, 1.5e300]


def gen_int(rng):
    k = rng.random()
    if k < 0.3:
        return rng.choice(INT_EDGE)
    if k < 0.6:
        return rng.randrange(-1000, 1000)
    return rng.randrange(-2 ** 53, 2 ** 53 + 1)


def gen_float(rng):
    k = rng.random()
    if k < 0.15:
        return rng.choice(FLOAT_EDGE)
    if k < 0.3:
        return rng.choice([0.0, 1.0, -1.0, 0.5, 1.5, 0.1, 1e-6, 9.999e-7, 1e-7, 1e20, 1e21, 1.5e21, 1e300, 5e-324, 1.7976931348623157e308,
                           3.0, 100.0, 123456789.0, 2.0 ** 53, 0.3, 2.5e-5, -7.25, 1e6, 1e15, 1e16])
    if k < 0.5:
        return round(rng.uniform(-1000, 1000), rng.randrange(0, 6))
    if k < 0.6:
        return float(rng.randrange(-10 ** 6, 10 ** 6))
    if k < 0.7:
        return float(rng.choice([1, -1]) * rng.randrange(2 ** 53, 2 ** 70))      # integral beyond 2^53 (every float64 that large is integral)
    while True:
        x = struct.unpack("<d", struct.pack("<Q", rng.getrandbits(64)))[0]
        if math.isfinite(x) and not (x == 0 and math.copysign(1, x) < 0):
            return x


def gen_value(rng, depth=0):
    k = rng.random()
    if k < 0.2:
        return ("int", gen_int(rng))
    if k < 0.32:
        return ("float", gen_float(rng))
    if k < 0.4:
        return ("bool", rng.random() < 0.5)
    if k < 0.62:
        return ("str", gen_text(rng))
    if k < 0.7:
        return ("mapint", {gen_text(rng, 5): gen_int(rng) for _ in range(rng.randrange(0, 4))})
    if k < 0.77:
        return ("mapstr", {gen_text(rng, 5): gen_text(rng, 6) for _ in range(rng.randrange(0, 4))})
    if k < 0.84:
        return ("ints", [gen_int(rng) for _ in range(rng.randrange(0, 5))])
    if depth >= 3:
        return ("str", gen_text(rng))
    if k < 0.93:
        return ("map", {gen_text(rng, 5): gen_value(rng, depth + 1) for _ in range(rng.randrange(0, 4))})
    return ("list", [gen_value(rng, depth + 1) for _ in range(rng.randrange(0, 4))])


def gen_seq(rng):
    k = rng.random()
    if k < 0.45:
        n = rng.choice([1, 2, 59, 60, 61, 119, 120, 121, 179, 180, 181])
    elif k < 0.9:
        n = rng.randrange(1, 40)
    else:
        n = rng.randrange(1, 400)
    alpha = IUPAC if rng.random() < 0.8 else IUPAC + IUPAC.upper() + "-.[]"
    return "".join(rng.choice(alpha) for _ in range(n)).encode()


def gen_rec(rng, fmt):
    seq = gen_seq(rng)
    ann = {}
    for _ in range(rng.choice([0, 1, 1, 2, 3, 5])):
        key = gen_text(rng, 6)
        if key == b"definition":
            continue
        ann[key] = gen_value(rng)
    qual = None
    if fmt == "fastq":
        k = rng.random()
        if k < 0.3:
            qual = [rng.choice([0, 1, 31, 40, 92, 93]) for _ in seq]
        else:
            qual = [rng.randrange(0, 94) for _ in seq]
    return dict(id=gen_text(rng, 8, blanks=False, minlen=1), definition=gen_text(rng, 8) if rng.random() < 0.5 else b"", seq=seq, qual=qual, ann=ann)


def R(id, seq, ann=None, definition=b"", qual=None):
    return dict(id=id, definition=definition, seq=seq, qual=qual, ann=ann or {})


def S(s):
    return ("str", s.encode("utf8"))


# hand-written boundary cases and minimised defect witnesses (always first)
CORPUS = [
    dict(mode="rt", fmt="fasta", shift=33, parser="json", recs=[R(b"w1", b"acgt", {b"a": S('q"}')})], tag="fixed:escaped-quote-fatal"),
    dict(mode="rt", fmt="fasta", shift=33, parser="json", recs=[R(b"w2", b"acgt", {b"a": S('"{')})], tag="fixed:escaped-quote-silent-loss"),
    dict(mode="rt", fmt="fasta", shift=33, parser="guessed", recs=[R(b"w3", b"acgt", {b'k"': ("int", 1), b"z": S("}")})], tag="fixed:escaped-quote-in-key"),
    dict(mode="rt", fmt="fastq", shift=64, parser="guessed", recs=[R(b"w4", b"acgt", {b"a": S('\\"\\\\"{}')}, qual=[0, 1, 92, 93])], tag="fixed:escaped-quote"),
    dict(mode="rt", fmt="fasta", shift=33, parser="json", recs=[R(b"w5", b"acgt", {b"a": S("\\"), b"b": S("x\\")})], tag="backslash-last"),
    dict(mode="rt", fmt="fasta", shift=33, parser="json", recs=[R(b"w6", b"a" * 60), R(b"w7", b"c" * 61), R(b"w8", b"g" * 120), R(b"w9", b"t")], tag="folding"),
    dict(mode="rt", fmt="fastq", shift=33, parser="json", recs=[R(b"q1", b"acgt", qual=[0, 93, 40, 1]), R(b"@q2", b"a", {b"n": ("int", 2 ** 53)}, qual=[0])], tag="fastq"),
    dict(mode="rt", fmt="fastq", shift=64, parser="json", recs=[R(b"q3", b"acgt", qual=[0, 0, 0, 0]), R(b"q4", b"ac", qual=[0, 93])], tag="fastq64-at-sign"),
    dict(mode="rt", fmt="fasta", shift=33, parser="guessed", recs=[R(b">x", b"acgt", {b"f": ("float", 3.0), b"g": ("float", 1e21), b"h": ("float", 1e-7)}, definition=b"a {b} \"c\"")], tag="floats+definition"),
    dict(mode="rt", fmt="fasta", shift=33, parser="json", recs=[R(b"e", b"acgt")], tag="no-annotation"),
    dict(mode="rt", fmt="fasta", shift=33, parser="json", recs=[R(b"u", b"acgt", {" 中".encode(): S(" \U0001f600\x7f\x00\n\t\r")})], tag="unicode"),
    dict(mode="rt", fmt="fasta", shift=33, parser="json",
         recs=[R(b"n", b"acgt", {b"m": ("map", {b"x": ("list", [("int", 1), S('"'), ("map", {b"}": ("bool", True), b"n": ("null",)})])}), b"l": ("ints", [])})], tag="nested"),
    dict(mode="rt", fmt="fastq", shift=33, parser="json", recs=[R(b"c1", b"acgtac", qual=[93, 94, 95, 200, 255, 0])], tag="clamp-above-93 (outside the claim: comes back as 93)"),
    dict(mode="rt", fmt="fasta", shift=33, parser="json",
         recs=[R(b"big", b"acgt", {b"count": ("int", 12), b"big_int": ("int", 2 ** 53), b"neg": ("int", -2 ** 53), b"score": ("float", 3.0), b"likelihood": ("float", 1e20),
                                   b"neg_weight": ("float", -2.5e19), b"p63": ("float", 2.0 ** 63), b"l": ("list", [("float", 1e20), ("int", 2 ** 53 - 1)])})], tag="numbers-at-and-beyond-2^53 (C02-A)"),
    dict(mode="rt", fmt="fastq", shift=64, parser="guessed", recs=[R(b"g0", b"acgt", qual=[1, 2, 3, 4]), R(b"g1", b"ac", {b"a": ("int", 1)}, qual=[5, 6])], tag="guessed-without-annotation"),
    dict(mode="scan", header=b'{"a":"q\\"}"} rest', tag="fixed:scan-fatal"),
    dict(mode="scan", header=b'{ "b" : [1, 2 ,{"x":null}] ,\t"a":"\\u00e9\\/\\b" , "b":true } tail', strict=True, tag="hdr-whitespace-order-duplicate"),
    dict(mode="scan", header=b'{"n":9007199254740993,"m":0,"k":123456789012345678901234,"z":1e-07}', strict=True, tag="hdr-numbers"),
    dict(mode="scan", header=b'{"definition":"d1","a":1}   more text ', strict=True, tag="hdr-definition-appended"),
    dict(mode="scan", header=b'{"a":1}\xc2\xa0x y\xe3\x80\x80\xe2\x80\xa8', strict=True, tag="hdr-unicode-trimspace"),
    dict(mode="scan", header=b'x {"a":1} y', tag="hdr-text-before"),
    dict(mode="scan", header=b'{"a":"\\ud83d\\ude00|\\ud800|\\udc00\\ud83d|\\ud800\\u0041"}', strict=True,
         expect=b'{"a":"\xf0\x9f\x98\x80|\xef\xbf\xbd|\xef\xbf\xbd\xef\xbf\xbd|\xef\xbf\xbdA"}', tag="hdr-surrogates"),
    dict(mode="scan", header=b'{"x":2.50,"y":1E5,"z":0.0000001,"w":123456789.123456789e-3,"v":0.0,"u":4.9406564584124654e-324}', strict=True,
         expect=b'{"u":5e-324,"v":0,"w":123456.78912345679,"x":2.5,"y":100000,"z":1e-07}', tag="hdr-number-spellings"),
    dict(mode="scan", header=b'{"a":"\xff\xe9"}', tag="invalid-utf8 (outside the claim)"),
    dict(mode="scan", header=b'{"a":"\\"{"} rest', tag="fixed:scan-silent"),
    dict(mode="scan", header=b'{"a":"\\\\"} {"b":1}', tag="scan-escaped-backslash"),
    dict(mode="scan", header=b'text {"a":1} more', tag="scan-prefix"),
    dict(mode="scan", header=b'no json here', tag="scan-none"),
    dict(mode="scan", header=b'} {"a":1}', tag="scan-negative-level"),
    dict(mode="scan", header=b'"{"a":1}', tag="scan-quote-before"),
    dict(mode="scan", header=b'\\{"a":"\\\\"}', tag="scan-backslash-before"),
    dict(mode="scan", header=b'{"a":{"b":{}}}x', tag="scan-nested"),
    dict(mode="scan", header=b'', tag="scan-empty"),
]


def gen_scan(rng):
    k = rng.random()
    if k < 0.5:
        n = rng.randrange(0, 14)
        return bytes(rng.choice(b'{}{}""\\\\a :1,') for _ in range(n))
    # a well-formed object (strings full of specials) followed by a remainder
    obj = {gen_text(rng, 5): gen_value(rng) for _ in range(rng.randrange(0, 4))}
    pre = b"" if rng.random() < 0.8 else rng.choice([b"x ", b" ", b"ab"])
    rest = rng.choice([b"", b"", b" rest", b" {\"x\":1}", b"}", b"\"", b"  a b  ", b"\\"])
    return ("obj", pre, obj, rest)


GO_FLOAT_TOKENS = [b"0.5", b"1.5", b"-7.25", b"0.1", b"3.14", b"1e+21", b"1.5e+21", b"1e-07", b"0.000025", b"9.999e-07", b"1e+300", b"-0.001", b"2.5"]
JWS = [b"", b"", b"", b" ", b"  ", b"\t"]


def gen_jtext_value(rng, depth=0):
    """a value as (kind, payload) for free-style JSON text: ('num', token bytes) | ('str', bytes) | ('lit', bytes) | ('arr', [..]) | ('obj', [(k, v)..] with repeats)"""
    k = rng.random()
    if k < 0.3:
        r = rng.random()
        if r < 0.3:
            return ("num", str(rng.choice(INT_EDGE + INT_OUTSIDE)).encode())       # (no -0: equal to 0 by value, the only number whose int/float64 nature shows)
        if r < 0.6:
            return ("num", str(rng.randrange(-10 ** rng.randrange(1, 26), 10 ** rng.randrange(1, 26))).encode())
        if r < 0.7:
            return ("num", rng.choice(GO_FLOAT_TOKENS))
        if r < 0.9:
            # any spelling of a decimal number: the reader makes a float64 of it, the writer prints the shortest digits
            t = ("-" if rng.random() < 0.3 else "") + ("0" if rng.random() < 0.1 else "") + str(rng.randrange(0, 10 ** rng.randrange(1, 20)))
            if rng.random() < 0.7:
                t += "." + "".join(rng.choice("0123456789") for _ in range(rng.randrange(1, 20)))
            if rng.random() < 0.5:
                t += rng.choice("eE") + rng.choice(["", "+", "-"]) + str(rng.randrange(0, rng.choice([3, 30, 300])))
            return ("num", t.encode())
        return ("num", rng.choice([b"2.50", b"1E5", b"1e5", b"0.10", b"100e-2", b"1.0", b"0e0", b"1e-7", b"0.000001", b"0.0000009999", b"1e21", b"999999999999999999999.9",
                                   b"4.35", b"0.3", b"5e-324", b"2e-324", b"1.7976931348623157e308", b"4.9406564584124654e-324", b"2.2250738585072014e-308", b"9007199254740993.0",
                                   b"9007199254740992.5", b"0.1e1", b"123456789.123456789",
                                   b"1.", b"-.5", b"01", b"00", b"1.e5", b"0.", b"007.250", b"-01", b"0e5"]))          # the last ones: not JSON, but go-json reads them
    if k < 0.6:
        return ("str", gen_text(rng, 6, blanks=rng.random() < 0.5))
    if k < 0.7:
        return ("lit", rng.choice([b"true", b"false", b"null"]))
    if depth >= 2:
        return ("num", b"7")
    if k < 0.85:
        return ("arr", [gen_jtext_value(rng, depth + 1) for _ in range(rng.randrange(0, 4))])
    return ("obj", gen_jtext_members(rng, depth + 1))


def gen_jtext_members(rng, depth=0):
    ms = [(gen_text(rng, 4, blanks=False), gen_jtext_value(rng, depth)) for _ in range(rng.randrange(0, 4))]
    if ms and rng.random() < 0.3:
        ms.insert(rng.randrange(0, len(ms) + 1), (rng.choice(ms)[0], gen_jtext_value(rng, depth)))      # a repeated key
    return ms


def jtext_string(rng, b):
    """one of the many JSON spellings of a byte string (valid UTF-8, no line terminator raw)"""
    out = bytearray(b'"')
    for ch in b.decode("utf8"):
        o = ord(ch)
        r = rng.random()
        if ch in '"\\':
            out += b"\\" + ch.encode()
        elif ch == "/" and r < 0.5:
            out += b"\\/"
        elif o < 32 or (o < 0xd800 and r < 0.15) or o in (0x2028, 0x2029) and r < 0.5:
            short = {8: b"\\b", 12: b"\\f", 10: b"\\n", 13: b"\\r", 9: b"\\t"}
            if o in short and r < 0.6:
                out += short[o]
            elif o in (10, 13) or r < 0.8:
                out += b"\\u%04x" % o if rng.random() < 0.5 else b"\\u%04X" % o
            elif o == 0:
                out += b"\\u0000"                 # go-json refuses a raw NUL byte (it ends its buffer)
            else:
                out += ch.encode("utf8")          # raw control byte (go-json takes it)
        elif o >= 0x10000 and r < 0.5:
            u = o - 0x10000
            out += b"\\u%04x\\u%04x" % (0xd800 + (u >> 10), 0xdc00 + (u & 0x3ff))      # UTF-16 surrogate pair, as json.dumps writes it
        else:
            out += ch.encode("utf8")
    return bytes(out + b'"')


def jtext_render(rng, v, ws):
    w = (lambda: rng.choice(JWS)) if ws else (lambda: b"")
    t = v[0]
    if t in ("num", "lit"):
        return v[1]
    if t == "str":
        return jtext_string(rng, v[1])
    if t == "arr":
        return b"[" + w() + (w() + b"," + w()).join(jtext_render(rng, x, ws) for x in v[1]) + w() + b"]"
    return b"{" + w() + (w() + b"," + w()).join(jtext_string(rng, k) + w() + b":" + w() + jtext_render(rng, x, ws) for k, x in v[1]) + w() + b"}"


def go_float(f):
    """go-json AppendFloat64: shortest digits, 'e' format below 1e-6 and from 1e21 on"""
    from decimal import Decimal
    if f == 0:
        return b"-0" if math.copysign(1, f) < 0 else b"0"
    sign, digits, exp = Decimal(repr(f)).as_tuple()
    digits = list(digits)
    while len(digits) > 1 and digits[-1] == 0:
        digits.pop()
        exp += 1
    ds = "".join(map(str, digits))
    dp = len(ds) + exp
    a = abs(f)
    if a < 1e-6 or a >= 1e21:
        e = dp - 1
        out = ds[0] + ("." + ds[1:] if len(ds) > 1 else "") + "e" + ("-" if e < 0 else "+") + "%02d" % abs(e)
    elif dp <= 0:
        out = "0." + "0" * (-dp) + ds
    elif dp >= len(ds):
        out = ds + "0" * (dp - len(ds))
    else:
        out = ds[:dp] + "." + ds[dp:]
    return (("-" if sign else "") + out).encode()


def jtext_canonical(v):
    """what the writer emits after the value went through a Go map with float64 numbers (independent of the Coq model)"""
    t = v[0]
    if t == "lit":
        return v[1]
    if t == "num":
        f = float(v[1].decode())
        if math.isinf(f):
            raise OverflowError
        return go_float(f)
    if t == "str":
        return enc_key(v[1])
    if t == "arr":
        return b"[" + b",".join(jtext_canonical(x) for x in v[1]) + b"]"
    m = {}
    for k, x in v[1]:
        m[k] = x
    return b"{" + b",".join(enc_key(k) + b":" + jtext_canonical(m[k]) for k in sorted(m, key=enc_key)) + b"}"


def gen_hdr(rng):
    """a title-line remainder nobody formatted: JSON in free style (+ text after it); the expected formatted header"""
    ms = gen_jtext_members(rng)
    txt = jtext_render(rng, ("obj", ms), rng.random() < 0.7)
    tail = rng.choice([b"", b"", b" tail", b"  two words  ", b"\xc2\xa0nbsp\xe2\x80\x83", b"x"])
    m = {}
    for k, x in ms:
        m[k] = x
    d = tail.decode("utf8").strip().encode("utf8")
    if d:
        old = m.get(b"definition")
        if old is None:
            m[b"definition"] = ("str", d)
        elif old[0] == "str":
            m[b"definition"] = ("str", old[1] + b" " + d)
        else:
            return dict(mode="scan", header=txt + tail)          # a non-string definition member: not modelled
    try:
        exp = jtext_canonical(("obj", list(m.items()))) if m else b""
    except OverflowError:
        return dict(mode="scan", header=txt + tail)              # a number beyond the float64 range: the reader dies (ParseFloat), not modelled
    return dict(mode="scan", header=txt + tail, strict=True, expect=exp)


def gen_cases(ctx, n_rt, n_scan, n_enc):
    rng = ctx.rng
    cases = [dict(c) for c in CORPUS]
    for _ in range(n_rt):
        fmt = rng.choice(["fasta", "fastq"])
        cases.append(dict(mode="rt", fmt=fmt, shift=rng.choice([33, 33, 64, 64, 40]) if fmt == "fastq" else 33, parser=rng.choice(["json", "guessed"]),
                          shift2=rng.choice([33, 64]) if fmt == "fastq" else 0,       # every input/output offset combination
                          recs=[gen_rec(rng, fmt) for _ in range(rng.choice([1, 1, 2, 3]))]))
    for _ in range(n_scan):
        g = gen_scan(rng)
        if isinstance(g, tuple):
            cases.append(dict(mode="scan", obj=g[2], pre=g[1], rest=g[3]))      # header filled in after the enc pass
        else:
            cases.append(dict(mode="scan", header=g))
    for _ in range(n_scan // 2):
        cases.append(gen_hdr(rng))
    for _ in range(n_enc):
        cases.append(dict(mode="enc", val=gen_value(rng)))
    for x in INT_OUTSIDE:
        cases.append(dict(mode="enc", val=("int", x), outside=True))
    inv = [b"\xff", b"\xe9t\xe9", b"a\xc0\xafb", b"\xed\xa0\x80", b"\xe2\x80", b"\xf4\x90\x80\x80", b"\xe0\x9f\xbf", b"\xf0\x8f\xbf\xbf", b"\xc2", b"\xe2\x80\xa8\xe2\x80",
           b"\xf0\x9f\x98", b"\x80\xbf", b"\xed\x9f\xbf\xee\x80\x80", b"\xf4\x8f\xbf\xbf\xf5", b"12345678\xff", b"\xc3\xa9\xc3"]
    for _ in range(max(10, n_enc // 5)):
        inv.append(bytes(rng.choice([0x41, 0x22, 0x5c, 0x7f, 0x80, 0xa8, 0xbf, 0xc0, 0xc2, 0xdf, 0xe0, 0xe2, 0xed, 0xef, 0xf0, 0xf4, 0xf5, 0xff, 0x9f, 0xa0, 0x90, 0x8f])
                         for _ in range(rng.randrange(1, 12))))
    for b in inv:
        v = ("str", b) if rng.random() < 0.7 else ("map", {b: ("str", b[::-1]), b"k": ("int", 1)})
        cases.append(dict(mode="enc", val=v, outside=not val_utf8(v), invalid_utf8=not val_utf8(v)))
    return cases


SCAN_ALPHABET = b'{}"\\a'


def exhaustive_scan_cases(maxlen):
    """every title-line remainder over { } " \\ a up to the given length (scanner vs model, exhaustive small scope)"""
    import itertools
    out = []
    for n in range(maxlen + 1):
        for t in itertools.product(SCAN_ALPHABET, repeat=n):
            out.append(dict(mode="scan", header=bytes(t)))
    return out


# ---------------------------------------------------------------- rendering for the harness
def val_vh(v):
    t = v[0]
    if t == "int":
        return dict(t="int", v=str(v[1]))
    if t == "float":
        return dict(t="float", v=repr(v[1]))
    if t == "bool":
        return dict(t="bool", b=v[1])
    if t == "str":
        return dict(t="str", s=b64(v[1]))
    if t == "null":
        return dict(t="null")
    if t == "mapint":
        return dict(t="mapint", m={b64(k): dict(t="int", v=str(x)) for k, x in v[1].items()})
    if t == "mapstr":
        return dict(t="mapstr", m={b64(k): dict(t="str", s=b64(x)) for k, x in v[1].items()})
    if t == "ints":
        return dict(t="ints", l=[dict(t="int", v=str(x)) for x in v[1]])
    if t == "map":
        return dict(t="map", m={b64(k): val_vh(x) for k, x in v[1].items()})
    if t == "list":
        return dict(t="list", l=[val_vh(x) for x in v[1]])
    raise ValueError(t)


def to_vh(c):
    if c["mode"] == "scan":
        d = dict(mode="scan", header=b64(c["header"]))
        if c.get("strict"):
            d["strict"] = True
            if "expect" in c:
                d["expect"] = b64(c["expect"])
        return d
    if c["mode"] == "enc":
        return dict(mode="enc", val=val_vh(c["val"]))
    return dict(mode="rt", fmt=c["fmt"], shift=c["shift"], shift2=c.get("shift2", 0), parser=c["parser"],
                recs=[dict(id=b64(r["id"]), **{"def": b64(r["definition"])}, seq=b64(r["seq"]), qual=r["qual"],
                           ann={b64(k): val_vh(v) for k, v in r["ann"].items()}) for r in c["recs"]])


# ---------------------------------------------------------------- direct oracle
def plain(v):
    """the value the property expects back (numbers by value)"""
    t = v[0]
    if t in ("int", "float", "bool"):
        return v[1]
    if t == "str":
        return v[1].decode("utf8")
    if t == "null":
        return None
    if t == "mapint":
        return {k.decode("utf8"): x for k, x in v[1].items()}
    if t == "mapstr":
        return {k.decode("utf8"): x.decode("utf8") for k, x in v[1].items()}
    if t == "ints":
        return list(v[1])
    if t == "map":
        return {k.decode("utf8"): plain(x) for k, x in v[1].items()}
    if t == "list":
        return [plain(x) for x in v[1]]
    raise ValueError(t)


def same(a, b):
    if isinstance(a, bool) or isinstance(b, bool):
        return isinstance(a, bool) and isinstance(b, bool) and a == b
    if isinstance(a, int) and isinstance(b, int) and (abs(a) <= 2 ** 53 or abs(b) <= 2 ** 53):
        return a == b                    # ints |x| <= 2^53: exactly
    if isinstance(a, (int, float)) and isinstance(b, (int, float)):
        return float(a) == float(b)      # every number is a float64 on the Go side (the canonical text may print it as an integer)
    if isinstance(a, str) and isinstance(b, str):
        return a == b
    if a is None or b is None:
        return a is None and b is None
    if isinstance(a, list) and isinstance(b, list):
        return len(a) == len(b) and all(same(x, y) for x, y in zip(a, b))
    if isinstance(a, dict) and isinstance(b, dict):
        return a.keys() == b.keys() and all(same(a[k], b[k]) for k in a)
    return False


def expected_rec(r, fmt):
    ann = {k.decode("utf8"): plain(v) for k, v in r["ann"].items()}
    if r["definition"]:
        ann["definition"] = r["definition"].decode("utf8")
    q = None
    if fmt == "fastq":
        q = [min(x, 93) for x in r["qual"]] if r["qual"] is not None else [40] * len(r["seq"])
    return dict(id=r["id"], seq=r["seq"].lower(), qual=q, ann=ann)


def oracle_rt(c, o):
    """returns None when the property holds on this observation, else a short reason"""
    if o["kind"] != "ok":
        return "the reader/header parser died (%s) on text the writer produced" % o["kind"]
    if len(o.get("recs") or []) != len(c["recs"]):
        return "%d records written, %d read back" % (len(c["recs"]), len(o.get("recs") or []))
    for i, (r, x) in enumerate(zip(c["recs"], o["recs"])):
        e = expected_rec(r, c["fmt"])
        if unb64(x["id"]) != e["id"]:
            return "record %d: identifier changed" % i
        if unb64(x["seq"]) != e["seq"]:
            return "record %d: nucleotides changed" % i
        if x.get("qual") != e["qual"]:
            return "record %d: qualities changed" % i
        try:
            got = json.loads(x["ann"])
        except Exception:
            return "record %d: annotations not serialisable (%s)" % (i, x["ann"][:60])
        if not same(got, e["ann"]):
            return "record %d: annotations changed" % i
    s2 = c.get("shift2", 0)
    if s2 in (0, c["shift"]) or c["fmt"] != "fastq":
        if o["w1"] != o["w2"]:
            return "second write differs from the first (not a fixed point)"
    if c["fmt"] == "fastq" and s2:
        # second write with another quality offset, read with that offset: same scores
        want = [expected_rec(r, "fastq")["qual"] for r in c["recs"]]
        if o.get("qual2") != want:
            return "qualities changed through output offset %d / input offset %d" % (s2, s2)
        a, b = unb64(o["w1"]).split(b"\n"), unb64(o["w2"]).split(b"\n")
        if len(a) != len(b) or any(x != y for k, (x, y) in enumerate(zip(a, b)) if k % 4 != 3):
            return "second write (offset %d) differs from the first outside the quality lines" % s2
    return None


def oracle_scan(c, o):
    if "obj" in c and not c["pre"]:
        # a serialised object followed by a remainder: the object must be found and decoded, the remainder kept
        if o["kind"] != "ok":
            return "header parser died on a serialised object"
        if o["start"] != 0 or o["stop"] != len(c["objbytes"]) - 1:
            return "scanner delimits [%d,%d] instead of [0,%d]" % (o["start"], o["stop"], len(c["objbytes"]) - 1)
        if not same(json.loads(o["ann"]), {k.decode("utf8"): plain(v) for k, v in c["obj"].items()}):
            return "annotations differ from the serialised object"
        if unb64(o.get("rest", "")) != c["rest"].strip(b" "):
            return "remainder (definition) changed"
    if o["kind"] == "fatal-reparse":
        return "re-parsing the formatted header died"
    valid_utf8 = True
    try:
        c["header"].decode("utf8")
    except UnicodeDecodeError:
        valid_utf8 = False
    if o.get("hkind") == "ok" and valid_utf8:
        # full strength: whatever title line the header parser accepted, its formatted header re-parses to the same annotations
        if o.get("henc2") != o.get("henc"):
            return "re-parsing the formatted header of an accepted title line changed it: %r -> %r" % (unb64(o.get("henc", "")), unb64(o.get("henc2", "")))
    if c.get("strict"):
        if o.get("hkind") != "ok":
            return "the header parser died on a well-formed JSON title line"
        def value_of(b):
            try:
                return json.loads(b.decode("utf8")) if b else {}
            except Exception:
                return "unparsable: %r" % b
        if "expect" in c and not same(value_of(unb64(o.get("henc", ""))), value_of(c["expect"])):
            return "annotations read from a free-style JSON title line differ from its content: %r instead of %r" % (unb64(o.get("henc", "")), c["expect"])
        if "expect" in c and c["header"].startswith(b"{") and not same(value_of(unb64(o.get("genc", ""))), value_of(c["expect"])):
            return "guessed parser: annotations differ from the JSON parser's on a title line starting with a brace"
    if o["kind"] == "ok" and o.get("ann2") is not None and o.get("ann") not in (None, "{}"):
        if not same(json.loads(o["ann2"]), json.loads(o["ann"])) or unb64(o.get("rest2", "")) != b"":
            return "re-parsing the formatted header changed the annotations"
    return None


def oracle_enc(c, o):
    if o["kind"] != "ok":
        return "encoder failed"
    if not c.get("outside") and o.get("enc2") != o.get("enc"):
        # decoder/encoder pair on one value inside the claim: what go-json reads back is written identically
        return "value %r is not a fixed point of read-then-write: %r -> %r" % (c["val"], unb64(o["enc"]), unb64(o.get("enc2", "")))
    return None


# ---------------------------------------------------------------- correspondence (Gallina rendering)
IMPORTS = ("From Coq Require Import NArith ZArith List. Import ListNotations. Open Scope N_scope.\n"
           "From OBI.C02 Require Import Model.")


def nl(b):
    return "[" + ";".join(str(x) for x in b) + "]"


def collect_floats(v, acc):
    t = v[0]
    if t == "float":
        acc.add(v[1])
    elif t == "map":
        for x in v[1].values():
            collect_floats(x, acc)
    elif t == "list":
        for x in v[1]:
            collect_floats(x, acc)


def jterm(v, tok):
    t = v[0]
    if t == "int":
        return "JNum " + nl(str(v[1]).encode())
    if t == "float":
        return "JNum " + nl(tok[repr(v[1])])
    if t == "bool":
        return "JBool " + ("true" if v[1] else "false")
    if t == "str":
        return "JStr " + nl(v[1])
    if t == "null":
        return "JNull"
    if t == "mapint":
        return jobj({k: ("int", x) for k, x in v[1].items()}, tok)
    if t == "mapstr":
        return jobj({k: ("str", x) for k, x in v[1].items()}, tok)
    if t == "map":
        return jobj(v[1], tok)
    if t == "ints":
        return "JArr [" + "; ".join(jterm(("int", x), tok) for x in v[1]) + "]"
    if t == "list":
        return "JArr [" + "; ".join(jterm(x, tok) for x in v[1]) + "]"
    raise ValueError(t)


def rune_len(k, i):
    """length of the valid UTF-8 sequence starting at k[i] (Go's utf8 acceptance ranges), 0 if none"""
    c = k[i]
    def cont(j):
        return j < len(k) and 0x80 <= k[j] <= 0xbf
    if 0xc2 <= c <= 0xdf:
        return 2 if cont(i + 1) else 0
    if 0xe0 <= c <= 0xef:
        lo, hi = (0xa0 if c == 0xe0 else 0x80), (0x9f if c == 0xed else 0xbf)
        return 3 if i + 2 < len(k) and lo <= k[i + 1] <= hi and cont(i + 2) else 0
    if 0xf0 <= c <= 0xf4:
        lo, hi = (0x90 if c == 0xf0 else 0x80), (0x8f if c == 0xf4 else 0xbf)
        return 4 if i + 3 < len(k) and lo <= k[i + 1] <= hi and cont(i + 2) and cont(i + 3) else 0
    return 0


def enc_key(k):
    """go-json orders the members of a map by their ENCODED key (quotes and escapes included); a byte that is not part of a
    valid UTF-8 sequence is written as the six characters \\ufffd"""
    out = bytearray(b'"')
    i = 0
    while i < len(k):
        c = k[i]
        if k[i:i + 3] in (b"\xe2\x80\xa8", b"\xe2\x80\xa9"):
            out += b"\\u2028" if k[i + 2] == 0xa8 else b"\\u2029"
            i += 3
            continue
        if c in (34, 92):
            out += bytes([92, c])
        elif c == 10:
            out += b"\\n"
        elif c == 13:
            out += b"\\r"
        elif c == 9:
            out += b"\\t"
        elif c < 32:
            out += b"\\u00%02x" % c
        elif c >= 0x80:
            n = rune_len(k, i)
            if n == 0:
                out += b"\\ufffd"
            else:
                out += k[i:i + n]
                i += n
                continue
        else:
            out.append(c)
        i += 1
    return bytes(out + b'"')


def is_utf8(b):
    try:
        b.decode("utf8")
        return True
    except UnicodeDecodeError:
        return False


def val_utf8(v):
    t = v[0]
    if t == "str":
        return is_utf8(v[1])
    if t in ("mapint",):
        return all(is_utf8(k) for k in v[1])
    if t == "mapstr":
        return all(is_utf8(k) and is_utf8(x) for k, x in v[1].items())
    if t == "map":
        return all(is_utf8(k) and val_utf8(x) for k, x in v[1].items())
    if t == "list":
        return all(val_utf8(x) for x in v[1])
    return True


def members(m, tok):
    return "[" + "; ".join("(%s, %s)" % (nl(k), jterm(m[k], tok)) for k in sorted(m, key=enc_key)) + "]"


def jobj(m, tok):
    return "JObj " + members(m, tok)


def wrec_term(r, fmt, tok):
    ann = dict(r["ann"])
    if r["definition"]:
        ann[b"definition"] = ("str", r["definition"])
    q = "None" if r["qual"] is None else "(Some %s)" % nl(r["qual"])
    return "mkw %s %s %s %s" % (nl(r["id"]), members(ann, tok), nl(r["seq"].lower()), q)


def prec_term(x):
    q = "None" if x.get("qual") is None else "(Some %s)" % nl(x["qual"])
    return "mkp %s %s %s %s" % (nl(unb64(x["id"])), nl(unb64(x["rawdef"])), nl(unb64(x["seq"])), q)


def terms_of(c, o, tok):
    """Gallina correspondence cases of one harness case (possibly several)"""
    out = []
    if o.get("kind") == "crash":
        return out
    if c["mode"] == "enc" and o["kind"] == "ok":
        out.append("CSer (%s) %s %s" % (jterm(c["val"], tok), "true" if val_utf8(c["val"]) else "false", nl(unb64(o["enc"]))))
        if o.get("enc2") and not unb64(o["enc2"]).startswith(b"!"):
            out.append("CDec %s %s" % (nl(unb64(o["enc"])), nl(unb64(o["enc2"]))))
    elif c["mode"] == "scan":
        found = o["kind"] == "ok" and o["start"] >= 0 and o["stop"] >= 0
        out.append("CScan %s (%d)%%Z (%d)%%Z %s %s" % (nl(c["header"]), o["start"], o["stop"], "true" if found else "false", nl(unb64(o.get("rest", "")) if found else b"")))
        if "objbytes" in c:
            out.append("CSer (%s) true %s" % (jobj(c["obj"], tok), nl(c["objbytes"])))
        strict = "true" if c.get("strict") or ("objbytes" in c and not c["pre"]) else "false"
        modelled = True               # (round 2: invalid UTF-8 is inside the model: the marshaller writes \\ufffd)
        for g, kk, ee in (("false", "hkind", "henc"), ("true", "gkind", "genc")):
            if g == "true" and not (c["header"].startswith(b"{") or c["header"] == b""):
                continue              # guessed parser on a title not starting with a brace: OBI-style parser, not modelled
            if modelled and o.get(kk) in ("ok", "fatal"):
                out.append("CHdr %s %s %s %s %s" % (g, strict if g == "false" or c["header"].startswith(b"{") else "false", nl(c["header"]),
                                                   "true" if o[kk] == "fatal" else "false", nl(unb64(o.get(ee, "")))))
    elif c["mode"] == "rt" and o.get("w1"):
        fq = "true" if c["fmt"] == "fastq" else "false"
        w1 = unb64(o["w1"])
        dom = all(r["qual"] is not None and max(r["qual"]) <= 93 for r in c["recs"]) if c["fmt"] == "fastq" else True
        out.append("CWrite %s %d [%s] %s %s" % (fq, c["shift"], "; ".join(wrec_term(r, c["fmt"], tok) for r in c["recs"]), "true" if dom else "false", nl(w1)))
        if o["kind"] == "ok" and c["fmt"] == "fastq" and c.get("shift2") and c["shift2"] != c["shift"] and dom:
            # the same records written with the other quality offset
            out.append("CWrite true %d [%s] true %s" % (c["shift2"], "; ".join(wrec_term(r, c["fmt"], tok) for r in c["recs"]), nl(unb64(o["w2"]))))
        if o["kind"] == "ok":
            # the chunk parser's view (qualities only exist for fastq)
            out.append("CRead %s %d %s [%s]" % (fq, c["shift"], nl(w1), "; ".join(prec_term(x) for x in o["recs"])))
            for x in o["recs"]:
                if x["start"] != -2:
                    out.append("CScan %s (%d)%%Z (%d)%%Z false []" % (nl(unb64(x["rawdef"])), x["start"], x["stop"]))
                if x.get("enc") is not None:
                    # the header parser of the model (map decoder, float64 number path) on what the chunk parser returned
                    out.append("CHdr %s true %s false %s" % ("true" if c["parser"] == "guessed" else "false", nl(unb64(x["rawdef"])), nl(unb64(x["enc"]))))
    return out


def float_tokens(ctx, cases):
    acc = set()
    for c in cases:
        if c["mode"] == "enc":
            collect_floats(c["val"], acc)
        elif c["mode"] == "scan" and "obj" in c:
            collect_floats(("map", c["obj"]), acc)
        elif c["mode"] == "rt":
            for r in c["recs"]:
                collect_floats(("map", r["ann"]), acc)
    fl = sorted(acc)
    enc = ctx.vh_robust("c02", [dict(mode="enc", val=val_vh(("float", x))) for x in fl], timeout=300, one_timeout=10)
    return {repr(x): (unb64(e["enc"]) if e.get("kind") == "ok" else b"?") for x, e in zip(fl, enc)}


def correspond(ctx, cases, obs, broken, label):
    tok = float_tokens(ctx, cases)
    terms, owner = [], []
    for i, (c, o) in enumerate(zip(cases, obs)):
        for t in terms_of(c, o, tok):
            terms.append(t)
            owner.append(i)
    # batches and chunk-parser cases are heavy (long byte lists): small shards; everything else: few big shards
    heavy = [j for j, t in enumerate(terms) if t.startswith(("CWrite", "CRead", "CDec"))]
    light = [j for j, t in enumerate(terms) if not t.startswith(("CWrite", "CRead", "CDec"))]
    out = []
    for sub, idx, shard in ((label + "h", heavy, 70), (label + "l", light, 700)):
        if not idx:
            continue
        bad, err = ctx.correspond(sub, IMPORTS, [terms[j] for j in idx], shard=shard)
        if bad is None:
            broken.append(dict(kind="correspondence", detail=err))
            return []
        out += [idx[j] for j in bad]
    return [(owner[j], terms[j].split(" ")[0]) for j in sorted(out)]


def nontrivial(c):
    if c["mode"] == "rt":
        return any(r["ann"] or len(r["seq"]) > 60 for r in c["recs"])
    if c["mode"] == "scan":
        return any(ch in c["header"] for ch in b'{"\\')
    return True


def case_key(c):
    return json.dumps(to_vh(c), sort_keys=True)


def shrink_candidates(c):
    """smaller variants of a failing case (one structural step each)"""
    if c["mode"] == "scan":
        h = c["header"]
        for k in range(len(h)):
            yield dict(mode="scan", header=h[:k] + h[k + 1:])
        return
    if c["mode"] != "rt":
        return
    recs = c["recs"]

    def with_rec(i, r):
        return dict(c, recs=recs[:i] + [r] + recs[i + 1:])
    if len(recs) > 1:
        for i in range(len(recs)):
            yield dict(c, recs=recs[:i] + recs[i + 1:])
    for i, r in enumerate(recs):
        if len(r["seq"]) > 1:
            yield with_rec(i, dict(r, seq=r["seq"][:1], qual=r["qual"][:1] if r["qual"] else r["qual"]))
        if r["definition"]:
            yield with_rec(i, dict(r, definition=b""))
        if len(r["id"]) > 1:
            yield with_rec(i, dict(r, id=b"x"))
        for k, v in r["ann"].items():
            rest = {a: b for a, b in r["ann"].items() if a != k}
            yield with_rec(i, dict(r, ann=rest))
            if len(k) > 1:
                for kk in (k[:len(k) // 2], k[len(k) // 2:]):
                    if kk not in rest:
                        yield with_rec(i, dict(r, ann={**rest, kk: v}))
            if v[0] == "str" and len(v[1]) > 1:
                for j in range(len(v[1])):
                    yield with_rec(i, dict(r, ann={**rest, k: ("str", v[1][:j] + v[1][j + 1:])}))
            if v[0] == "map":
                for x in v[1].values():
                    yield with_rec(i, dict(r, ann={**rest, k: x}))
            if v[0] == "list":
                for x in v[1]:
                    yield with_rec(i, dict(r, ann={**rest, k: x}))
            if v[0] in ("mapstr",):
                for a, x in v[1].items():
                    yield with_rec(i, dict(r, ann={**rest, k: ("str", a + x)}))
            if v[0] in ("mapint",):
                for a in v[1]:
                    yield with_rec(i, dict(r, ann={**rest, k: ("str", a)}))


def shrink(ctx, c, fails):
    """greedy delta debugging on the case structure, re-running the real code after each step"""
    if "obj" in c:
        return c
    for _ in range(60):
        cands = list(shrink_candidates(c))[:400]
        if not cands:
            break
        obs = ctx.vh_robust("c02", [to_vh(x) for x in cands], timeout=120, one_timeout=10)
        nxt = next((x for x, o in zip(cands, obs) if o.get("kind") != "crash" and fails(x, o)), None)
        if nxt is None:
            break
        c = nxt
    return c


def run_cases(ctx, cases, broken, label, correspond_too=True):
    # pass 1: serialise the objects of structured scan cases with the real encoder (their header is obj ++ rest)
    idx = [i for i, c in enumerate(cases) if c["mode"] == "scan" and "obj" in c and "header" not in c]
    if idx:
        enc = ctx.vh_robust("c02", [dict(mode="enc", val=val_vh(("map", cases[i]["obj"]))) for i in idx], timeout=300, one_timeout=10)
        for i, e in zip(idx, enc):
            ob = unb64(e["enc"]) if e.get("kind") == "ok" else b"{}"
            cases[i]["objbytes"] = ob
            cases[i]["header"] = cases[i]["pre"] + ob + cases[i]["rest"]
    import time
    t0 = time.time()
    obs = ctx.vh_robust("c02", [to_vh(c) for c in cases], timeout=600, one_timeout=10)
    ctx.cov.setdefault("timing_s", {})[label + "_harness"] = round(time.time() - t0, 1)
    nviol = 0
    for i, (c, o) in enumerate(zip(cases, obs)):
        why = dict(rt=oracle_rt, scan=oracle_scan, enc=oracle_enc)[c["mode"]](c, o) if o.get("kind") != "crash" else "harness crashed"
        if why:
            nviol += 1
            if nviol <= 3:
                orc = dict(rt=oracle_rt, scan=oracle_scan, enc=oracle_enc)[c["mode"]]
                small = shrink(ctx, c, lambda x, y: orc(x, y) is not None) if o.get("kind") != "crash" else c
                so = ctx.vh_robust("c02", [to_vh(small)], timeout=60, one_timeout=10)[0]
                ctx.violation("%s_oracle_%d" % (label, i), dict(property="C02", kind="direct-oracle", why=orc(small, so) or why, case=to_vh(small), tag=c.get("tag"),
                                                              readable=readable(small), implementation=so, before_shrinking=to_vh(c) if small is not c else None))
    t0 = time.time()
    mism = correspond(ctx, cases, obs, broken, label) if correspond_too else []
    ctx.cov.setdefault("timing_s", {})[label + "_coq"] = round(time.time() - t0, 1)
    return obs, mism


def readable(c):
    if c["mode"] == "scan":
        return dict(header=c["header"].decode("utf8", "replace"))
    if c["mode"] == "enc":
        return dict(val=repr(c["val"]))
    return dict(fmt=c["fmt"], shift=c["shift"], parser=c["parser"],
                recs=[dict(id=r["id"].decode("utf8", "replace"), seq=r["seq"].decode(), ann=repr(r["ann"])) for r in c["recs"]])


def val_from_vh(d):
    t = d["t"]
    if t == "int":
        return ("int", int(d["v"]))
    if t == "float":
        return ("float", float(d["v"]))
    if t == "bool":
        return ("bool", bool(d.get("b", False)))
    if t == "str":
        return ("str", unb64(d.get("s", "")))
    if t == "null":
        return ("null",)
    if t == "mapint":
        return ("mapint", {unb64(k): int(x["v"]) for k, x in d.get("m", {}).items()})
    if t == "mapstr":
        return ("mapstr", {unb64(k): unb64(x.get("s", "")) for k, x in d.get("m", {}).items()})
    if t == "ints":
        return ("ints", [int(x["v"]) for x in d.get("l", [])])
    if t == "map":
        return ("map", {unb64(k): val_from_vh(x) for k, x in d.get("m", {}).items()})
    if t == "list":
        return ("list", [val_from_vh(x) for x in d.get("l", [])])
    raise ValueError(t)


def from_vh(c):
    if c["mode"] == "scan":
        d = dict(mode="scan", header=unb64(c["header"]))
        if c.get("strict"):
            d["strict"] = True
            if "expect" in c:
                d["expect"] = unb64(c["expect"])
        return d
    if c["mode"] == "enc":
        return dict(mode="enc", val=val_from_vh(c["val"]))
    return dict(mode="rt", fmt=c["fmt"], shift=c["shift"], shift2=c.get("shift2", 0), parser=c["parser"],
                recs=[dict(id=unb64(r["id"]), definition=unb64(r.get("def", "")), seq=unb64(r["seq"]), qual=r.get("qual"),
                           ann={unb64(k): val_from_vh(v) for k, v in r.get("ann", {}).items()}) for r in c["recs"]])


def cli_stage(ctx, cases, obs, broken):
    """End to end on the built command: the text written by FormatFasta/FastqBatch for all rt cases (offset 33), fed to
    `obiconvert` (default = guessed header parser, and --input-json-header), must come out byte-identical."""
    import vlib
    bindir, err = ctx.build_cmds(["obiconvert"])
    if bindir is None:
        broken.append(dict(kind="cmd-build", detail=err))
        return
    exe = os.path.join(bindir, "obiconvert")
    n = 0
    for fmt in ("fasta", "fastq"):
        text = b"".join(unb64(o["w1"]) for c, o in zip(cases, obs) if c["mode"] == "rt" and c["fmt"] == fmt and c["shift"] == 33 and o.get("w1"))
        if not text:
            continue
        path = os.path.join(vlib.BUILD, "c02_cli_%s_in.%s" % (ctx.tier, fmt))
        with open(path, "wb") as f:
            f.write(text)
        for flags in ([], ["--input-json-header"]):
            try:
                p = subprocess.run([exe] + flags + [path], capture_output=True, timeout=300)
                rc, out = p.returncode, p.stdout
            except subprocess.TimeoutExpired:
                rc, out = 124, b""
            n += 1
            if rc != 0 or out != text:
                first = next((k for k, (a, b) in enumerate(zip(out.split(b"\n"), text.split(b"\n"))) if a != b), None)
                ctx.violation("cli_%s_%s" % (fmt, "json" if flags else "guessed"),
                              dict(property="C02", kind="cli", why="obiconvert %s of text written by the toolkit: exit %d, output %s" % (
                                  " ".join(flags), rc, "identical" if out == text else "differs (first differing line %s)" % first),
                                   input_b64=b64(text), cmd=[exe] + flags + [path]))
    # FASTQ written with offset 64 read with --solexa: must come out as the offset-33 text of the same records
    sel = [(unb64(o["w1"]), unb64(o["w2"])) for c, o in zip(cases, obs) if c["mode"] == "rt" and c["fmt"] == "fastq" and c["shift"] == 64 and c.get("shift2") == 33
           and o.get("kind") == "ok" and all(r["qual"] is not None and max(r["qual"]) <= 93 for r in c["recs"])]
    if sel:
        text64, text33 = b"".join(a for a, _ in sel), b"".join(b for _, b in sel)
        path = os.path.join(vlib.BUILD, "c02_cli_%s_in64.fastq" % ctx.tier)
        with open(path, "wb") as f:
            f.write(text64)
        for flags in (["--solexa"], ["--solexa", "--input-json-header"]):
            try:
                p = subprocess.run([exe] + flags + [path], capture_output=True, timeout=300)
                rc, out = p.returncode, p.stdout
            except subprocess.TimeoutExpired:
                rc, out = 124, b""
            n += 1
            if rc != 0 or out != text33:
                first = next((k for k, (a, b) in enumerate(zip(out.split(b"\n"), text33.split(b"\n"))) if a != b), None)
                ctx.violation("cli_fastq_solexa_%s" % ("json" if len(flags) > 1 else "guessed"),
                              dict(property="C02", kind="cli", why="obiconvert %s of FASTQ written with quality offset 64: exit %d, output %s the offset-33 text of the same records" % (
                                  " ".join(flags), rc, "is" if out == text33 else "differs (first differing line %s) from" % first),
                                   input_b64=b64(text64), expected_b64=b64(text33), cmd=[exe] + flags + [path]))
        ctx.cov["cli_solexa_records"] = sum(a.count(b"\n") // 4 for a, _ in sel)
    ctx.cov["cli_roundtrips"] = n


def run(ctx, broken):
    n_rt, n_scan, n_enc = (220, 400, 150) if ctx.quick else (5000, 12000, 3000)
    cases = gen_cases(ctx, n_rt, n_scan, n_enc)
    scope = 4 if ctx.quick else 6
    ex = exhaustive_scan_cases(scope)
    cases += ex
    ctx.cov["exhaustive"] = "scanner vs model on every string over { } \" \\ a of length <= %d (%d strings)" % (scope, len(ex))
    obs, mism = run_cases(ctx, cases, broken, "main")
    ctx.cov["evaluations"] = len(cases)
    ctx.cov["distinct_nontrivial"] = len({case_key(c) for c in cases if nontrivial(c)})
    ctx.cov["rule"] = ("rt: records written and re-read (non-trivial = some annotation or a sequence longer than one 60-column line); "
                       "scan: title-line remainders through _parse_json_header_ and both header parsers, free-style JSON included (non-trivial = contains a brace, quote or backslash); "
                       "enc: single values through the marshaller and back through go-json; distinct = distinct harness input")
    ctx.cov["free_style_title_lines"] = sum(1 for c in cases if c.get("strict") and "expect" in c)
    dist = {}
    for c, o in zip(cases, obs):
        k = "%s/%s/%s" % (c["mode"], c.get("fmt", "-"), o.get("kind"))
        dist[k] = dist.get(k, 0) + 1
    ctx.cov["distribution"] = dist
    recs = [r for c in cases if c["mode"] == "rt" for r in c["recs"]]

    def blob_of(v):
        t = v[0]
        if t == "str":
            return v[1]
        if t in ("mapint",):
            return b"".join(v[1].keys())
        if t == "mapstr":
            return b"".join(k + x for k, x in v[1].items())
        if t == "map":
            return b"".join(k + blob_of(x) for k, x in v[1].items())
        if t == "list":
            return b"".join(blob_of(x) for x in v[1])
        return b""

    def blob(r):
        return blob_of(("map", r["ann"])) + r["id"] + r["definition"]

    def has(r, chars):
        b = blob(r)
        return any(ch in b for ch in chars)
    ctx.cov["record_distribution"] = dict(
        records=len(recs), seq_len_multiple_of_60=sum(1 for r in recs if len(r["seq"]) % 60 == 0), seq_len_over_60=sum(1 for r in recs if len(r["seq"]) > 60),
        seq_len_1=sum(1 for r in recs if len(r["seq"]) == 1), with_quote_or_backslash=sum(1 for r in recs if has(r, b'"\\')),
        with_brace=sum(1 for r in recs if has(r, b"{}")), with_non_ascii=sum(1 for r in recs if any(x > 127 for x in blob(r))),
        with_definition=sum(1 for r in recs if r["definition"]), without_annotation=sum(1 for r in recs if not r["ann"] and not r["definition"]),
        quality_0_or_93=sum(1 for r in recs if r["qual"] and (0 in r["qual"] or 93 in r["qual"])),
        shifts={str(k): sum(1 for c in cases if c["mode"] == "rt" and c["fmt"] == "fastq" and c["shift"] == k) for k in (33, 40, 64)},
        shift_pairs={"%d->%d" % (a, b): sum(1 for c in cases if c["mode"] == "rt" and c["fmt"] == "fastq" and c["shift"] == a and c.get("shift2") == b)
                     for a in (33, 40, 64) for b in (33, 64)},
        parsers={k: sum(1 for c in cases if c["mode"] == "rt" and c["parser"] == k) for k in ("json", "guessed")})
    inv = [(c, o) for c, o in zip(cases, obs) if c.get("invalid_utf8") and o.get("kind") == "ok"]      # NB: shadows nothing
    ctx.cov["invalid_utf8"] = dict(cases=len(inv), first_write_escapes_as_ufffd=sum(1 for c, o in inv if b"\\ufffd" in unb64(o["enc"])),
                                   rewrite_differs=sum(1 for c, o in inv if o.get("enc2") != o.get("enc")), note="outside the claim; recorded, never an alarm")
    ctx.cov["outside_claim_ints"] = dict(cases=sum(1 for c in cases if c.get("outside") and not c.get("invalid_utf8")),
                                         value_changed=sum(1 for c, o in zip(cases, obs) if c.get("outside") and not c.get("invalid_utf8") and o.get("enc2") != o.get("enc")))
    ctx.samples = [dict(case=readable(c), kind=o.get("kind")) for c, o in list(zip(cases, obs))[:2] + list(zip(cases, obs))[30:33]]
    ctx.cov["model_vs_impl_mismatches"] = len(mism)
    if mism:
        ctx.cov["mismatch_samples"] = [dict(kind=k, case=readable(cases[i]), obs={a: b for a, b in obs[i].items() if a not in ("w1", "w2", "recs")}) for i, k in mism[:6]]
    import time
    t0 = time.time()
    cli_stage(ctx, cases, obs, broken)
    ctx.cov.setdefault("timing_s", {})["cli"] = round(time.time() - t0, 1)
    if mism and not ctx.violations:
        # model != code but the direct oracle is satisfied on those inputs: search harder through the oracle
        more = gen_cases(ctx, 3000, 6000, 0)
        run_cases(ctx, more, [], "search", correspond_too=False)
        if not ctx.violations:
            i, kind = mism[0]
            broken.append(dict(kind="correspondence", name="corr:C02/%s" % kind, first_diverging_case=to_vh(cases[i]), readable=readable(cases[i]),
                               implementation=obs[i], n_diverging=len(mism)))
    elif mism:
        ctx.cov["note"] = "model and implementation diverge on %d cases (violations reported by the direct oracle)" % len(mism)


def replay(ctx, rp):
    if rp.get("kind") == "cli":
        path = os.path.join(os.path.dirname(ctx.replay_path("x")), "cli_replay_input")
        open(path, "wb").write(unb64(rp["input_b64"]))
        p = subprocess.run(rp["cmd"][:-1] + [path], capture_output=True, timeout=300)
        print("replay: obiconvert exit", p.returncode, "output as expected:", p.stdout == unb64(rp.get("expected_b64", rp["input_b64"])))
        return
    c = from_vh(rp["case"])
    n0 = len(ctx.violations)
    obs, mism = run_cases(ctx, [c], [], "replay")
    print("replay:", json.dumps(readable(c))[:600], "->", json.dumps(obs[0])[:600])
    print("recorded reason:", rp.get("why"))
    print("now:", "property VIOLATED on this input" if len(ctx.violations) > n0 else "property holds on this input",
          "; model", "differs from" if mism else "agrees with", "the implementation")
