"""C02 — write then read round-trips records unchanged (FASTA/FASTQ + JSON title-line header)."""
import json, base64, math, struct, os, subprocess

PROPS = ["C02/Props.v", "C02/Props3.v"]
META = dict(
    text="Rocq theorems over an executable model of the title-line machinery. Round 2: the JSON decoder is inside the model (an executable parser jparse: white space, "
         "every escape incl. surrogate pairs, number tokens checked against go-json's grammar) and is proved to invert the marshaller on every well-formed value with valid-UTF-8 strings, so the header, "
         "FASTA/FASTQ round-trip and write-fixed-point theorems carry no hypothesis on the decoder (json and guessed parser, records with or without annotations); "
         "decoding into a Go map (members by key, last repeated key wins, numbers as float64) is modelled and proved canonical, and 're-parsing a formatted header never changes "
         "or loses annotations' is proved at full strength for ANY title line the parser accepts (C02_reparse_keeps_annotations / _record: text before/after the object, "
         "definition appended). The number path token -> float64 -> token is transcribed for every number token; integers |x| <= 2^53 are proved fixed points, 2^53+1 is not. "
         "The marshaller's UTF-8 validation is modelled: invalid UTF-8 provably breaks the round trip (C02_invalid_utf8_not_preserved), valid UTF-8 is an explicit premise. "
         "As before: the repaired brace/quote scanner delimits exactly the serialised object, folding, quality offsets, byte automata of the chunk parsers on whole batches. "
         "On every run random records and free-style JSON title lines (white space, shuffled/repeated keys, alternative escapes, integers up to 25 digits, numbers at and "
         "beyond 2^53, Unicode blanks after the object) go through the REAL writer / chunk parser / header parsers / go-json decode+encode; a Python oracle checks record equality, "
         "exact integers up to 2^53, the byte-identical second write, every input/output quality-offset pair and `obiconvert` (default, --input-json-header, --solexa); the model "
         "(jparse, map decoder, number path included) is evaluated by vm_compute on the same inputs.",
    note="Trusted: Coq kernel + vm_compute; harness/generators. go-json is no longer a hypothesis of the theorems but the tie between it and jparse/jdec is by correspondence (every "
         "generated value and title line: go-json decode + encode = model), one-directional on free text: what the model accepts go-json accepts with the same result; the number grammar is go-json's (JSON's plus 01, 1., -.5), "
         "surrogate escapes are modelled (a lone one reads as U+FFFD); go-json may still be more lenient elsewhere (then the model refuses and nothing is compared). Number path: transcribed for every JSON number token (exact decimal -> nearest float64 -> shortest decimal -> go-json layout) and compared with "
         "the real ParseFloat/AppendFloat64 on every generated number (any spelling: 2.50, 1E5, 25-digit integers, subnormals); proved only for integer tokens: |x| <= 2^53 are fixed points "
         "(that an integral float64 below 2^53 prints as its decimal digits is transcribed from strconv's contract, not derived from its algorithm). That a token produced by the encoder "
         "for a float is a fixed point of read-then-write is NOT proved (shortest-digits round trip): it is the decidable premise numfixed of the float64 theorems, evaluated in Coq on every generated value. Invalid UTF-8 in strings is outside the claim (it speaks of Unicode strings) but, since round 2, inside the model: decided on the real code - the marshaller writes each bad byte as "
         "the 6 characters \\ufffd, the reader returns U+FFFD, the next write emits it raw, so the value changes and the first re-write is NOT byte-identical (stable afterwards): "
         "C02_invalid_utf8_not_preserved, and utf8v (all strings valid UTF-8) is an explicit premise of every theorem that goes through the decoder; measured on every run (coverage.invalid_utf8). "
         "Not modelled: the OBI-style header parser beyond the empty definition (guessed parser on a title not starting with a brace), a non-string 'definition' member followed by text, "
         "raw NUL in strings (go-json refuses it). Numbers beyond the float64 range: the real reader dies (ParseFloat), the model's jdec keeps the token; the correspondence accepts a dead reader "
         "exactly when a number token of the title line is beyond the range (tok_finite), so the float64 theorems speak of title lines whose numbers are finite float64s. The chunk splitter belongs to C01 (exercised through obiconvert). Quality offsets on the command line: only --solexa "
         "(input 64) exists; output 64 is reachable programmatically only and is covered through the library calls. Defect fixed in round 1: escaped quotes in the title-line scanner. "
         "Round 3, outside the property: (a) the int/float64 NATURE of a number: the float64 -> int block of _parse_json_header_ is a dead store, every number read is a float64; by value nothing "
         "changes (all typed numeric getters agree, the text is identical) but fmt.Sprint / GetStringAttribute print 1000000 as 1e+06 after the read (counted in coverage.round3_distribution.int_nature; a "
         "repair that stores ints stays silent here); (b) quality offsets outside 14..172 (0: scores 10 and 13 become LF / CR) - no command-line option reaches them; proved to fail, model and code compared; "
         "the domain is exact: C02_fastq_roundtrip_wide proves the round trip through the chunk parser for 14..172 (Props.v states 33..162, where a quality character is no blank either), "
         "C02_fastq_shift_domain_exact_upto_256 that it holds for no other offset; (c) the FASTQ reader does not check the FIRST nucleotide symbol of a "
         "record (the FASTA reader does): model transcribes it; (d) an input file named twice on the command line is read once (the file list is a set). "
         "Not exercised: ReadFastaFromStdin / ReadFastqFromStdin (no caller in the toolkit: standard input goes through ReadSequencesFromStdin, which the stdin jobs run); FormatFasta on a nil record or "
         "a record without nucleotides called directly (the batch formatters never do); the 'sequence is empty' / 'quality is empty' guards of the chunk parsers (unreachable: the automata reach them "
         "with at least one symbol); EndOfLastFastqEntry's restart branches (C01's splitter; run here only through the 2.6 MB command-line inputs); in biosequence.go Recycle, MD5, Composition, Grow, "
         "SameAs, Features/SetFeatures, Source, LogBioSeqStatus and in attributes.go DeleteAttribute / RenameAttribute (no part in writing or reading a record: C05/C07/C16); in goutils.go "
         "InterfaceToFloat64Map/Slice (no getter of the record uses them), ReadLines, AtomicCounter, the reflect helpers other than IsAMap/IsASlice/IsAnArray; in options.go the help / version / "
         "pprof / debug branches and the programmatic setters.")
TRUSTED = ["go-json decoder/encoder vs the model's jparse / jdec renum64 / ser: tied by correspondence on every generated value, record and free-style title line (CSer, CDec, CHdr), not by proof; "
           "on free text one direction only (model accepts => go-json accepts, same annotations)",
           "number path: renum64 transcribes ParseFloat (nearest float64, ties to even, subnormals) and go-json's AppendFloat64 (shortest digits that read back, 'e' layout below 1e-6 and from 1e21) "
           "for every JSON number token; compared with the real pair on every run; the branch 'an integral float64 below 2^53 prints as its decimal digits' of the integer transcription is "
           "taken from strconv's contract; tokens beyond the float64 range (the reader dies) are left unchanged by the model",
           "strings.TrimSpace is modelled for ASCII blanks and the Unicode White_Space runes in UTF-8; UTF-8 validation of the marshaller is transcribed from Go's acceptance ranges "
           "(compared with go-json on random invalid byte strings on every run)",
           "ParseFastSeqOBIHeader is modelled only on the empty definition (does nothing)",
           "round 3: typed getters: Model3.v transcribes InterfaceToInt/Float64/Bool/IntMap/StringMap/IntSlice and OBITagRefIndex on values decoded from JSON (float64 numbers, "
           "map[string]interface, []interface); fmt.Sprint of non-string values is not modelled (NotModelled answers are not compared); Go's int(float64) outside the int64 range is "
           "implementation-defined: not compared. File-level writers: the model knows truncate / append and the batch order, not the goroutines (C04). gzip is the harness's compress/gzip "
           "and Python's gzip reading what pgzip wrote"]
META["text"] += (" Round 3 (coverage-driven): the typed getters of pkg/obiseq/attributes.go and the converters of pkg/obiutils/goutils.go behind them (GetInt/Float/Numeric/Bool/String"
           "Attribute, GetIntMap, GetStringMap, GetIntSlice, OBITagRefIndex, OBITagGeomRefIndex, Count, Taxid, GetLandmarkID, GetCoordinate, Keys, AttributeKeys, Definition, String, Len) are "
           "called on every record BEFORE the write and AFTER the read (each on a Copy of the record): the oracle demands the written value from both (numbers by value: an int "
           "written comes back from GetIntAttribute as that int, a map[string]int from GetIntMap, a []int from GetIntSlice, a map[int]string from OBITagRefIndex), and the model "
           "(Model3.v: getters over the decoded JSON value with float64 numbers) is compared on the re-read record; theorems: the integer getter returns every written integer "
           "|x| <= 2^53 (sharp), also inside maps and lists, Count(), and at record level through write + read (FASTA/FASTQ, json/guessed). Records are built along six construction "
           "paths (constructor, constructor with qualities, byte-wise Write/WriteByte/WriteString/WriteQualities, the same after Clear/ClearQualities, everything through SetAttribute and "
           "the toolkit's setters incl. id/sequence/qualities in their three forms, Copy); the one-by-one formatters FormatFasta/FormatFastq and WriteFastSeqJsonHeader must agree with the "
           "batch formatters; FASTQ records without qualities (default 40), batches holding a record without nucleotides (skipEmpty: left out, proved never to refuse; otherwise refused, "
           "never a silent loss), 150-record batches, 5 kb sequences and title lines beyond bufio's buffer. Text NOBODY formatted (CR LF, CR, tabs, blank lines, other line widths, blanks "
           "inside FASTA sequence lines, upper case, no final line end, identifier-only title lines, free-style JSON or plain text as title remainder) goes through reader -> writer -> "
           "reader -> writer: records as intended, second write byte-identical, model = code; texts with one defect (no marker, no identifier, bad symbol, '>' inside a sequence, quality "
           "line of another length, no '+' line, junk between records) must be refused and the model must refuse them too (theorem: a quality line of another length is refused). "
           "Quality-offset HISTORIES inside one process (33, 64, 33, 64; ends of the working domain 14 / 172; offsets outside it, where model and code must fail alike; theorems: the round trip holds for the offsets 14..172 and for no other). File level: WriteFastaToFile / WriteFastqToFile (truncate vs append over an old file, gzip, any batch size and worker count) "
           "-> bytes of the file = text judged in process (theorem C02_file_content) -> ReadFastaFromFile / ReadFastqFromFile with the header parser as option -> same records. "
           "Command level (obiconvert, 15 jobs per format, always against the text judged in process): --fasta/--fastq + --fasta-output/--fastq-output to a file and to stdout, "
           "--output-json-header, stdin, --compress then reading the .gz, --paired-with (both output files), three input files, --no-order (records as a multiset), --force-one-cpu, "
           "--max-cpu 1/8 with --batch-size 1/7, inputs of 2.6 MB (beyond the 1 MiB read buffer: several chunks and worker batches), an output file that must be truncated, an empty input.")


SPECIALS = ['"', '\\', '{', '}', ';', '=', '>', '@', '+', ' ', '\t', '\n', '\r', '\x00', '\x01', '\x08', '\x0b', '\x0c', '\x1f', '\x7f',
            '<', '&', ':', ',', '[', ']', '/', "'", 'é', '中', ' ', ' ', '\U0001f600', ' ', '�', 'u', 'n']
PLAIN = "abcxyzABC019_-."
IUPAC = "acgtryswkmbdhvn"


def b64(b):
    return base64.b64encode(b).decode()


def unb64(s):
    return base64.b64decode(s)


# ---------------------------------------------------------------- generators
def gen_text(rng, maxlen=10, blanks=True, minlen=0):
    n = rng.randrange(minlen, maxlen + 1)
    out = []
    for _ in range(n):
        k = rng.random()
        if k < 0.5:
            c = rng.choice(SPECIALS)
        else:
            c = rng.choice(PLAIN)
        if not blanks and c in " \t\n\r\x0b\x0c   ":
            c = rng.choice('"\\{}')
        out.append(c)
    if rng.random() < 0.08:
        out.append("\\" * rng.randrange(1, 4))       # a value ENDING with backslashes: the closing quote follows an even run of them
    return "".join(out).encode("utf8")


INT_EDGE = [0, 1, -1, 2 ** 53, -2 ** 53, 2 ** 53 - 1, -2 ** 53 + 1, 2 ** 53 - 2, 2 ** 52, 2 ** 52 + 1, 2 ** 31, 2 ** 31 - 1, -2 ** 31, 2 ** 32, 10, 100, 999999,
            1000000, 10 ** 15, 10 ** 15 + 1, 9007199254740990, 9000000000000000, -9007199254740991]
# integers the claim does not cover (|x| > 2^53: the reader's float64 cannot hold them all): only sent through the marshaller /
# decoder pair (mode enc) where the model's number path is compared with the real one
INT_OUTSIDE = [2 ** 53 + 1, -2 ** 53 - 1, 2 ** 53 + 2, 2 ** 53 + 3, 2 ** 54 + 2, 2 ** 62 + 1, 2 ** 63 - 1, -2 ** 63, 10 ** 18 + 1, 999999999999999999, 123456789012345678]
FLOAT_EDGE = [1e20, -2.5e19, 2.0 ** 63, -2.0 ** 63, 2.0 ** 53, 2.0 ** 53 + 2, -2.0 ** 53, 2.0 ** 64, 1e21, 9.99999999999999e20, 1e22, 1.2345678901234567e19, 4.611686018427388e18,
              123456789012345680000.0, 1e19, 3e18, 9.007199254740993e15, 1.8446744073709552e19, 5e20, 1e17, 1.5e300]


def gen_int(rng):
    k = rng.random()
    if k < 0.3:
        return rng.choice(INT_EDGE)
    if k < 0.6:
        return rng.randrange(-1000, 1000)
    return rng.randrange(-2 ** 53, 2 ** 53 + 1)


def gen_float(rng):
    k = rng.random()
    if k < 0.15:
        return rng.choice(FLOAT_EDGE)
    if k < 0.3:
        return rng.choice([0.0, 1.0, -1.0, 0.5, 1.5, 0.1, 1e-6, 9.999e-7, 1e-7, 1e20, 1e21, 1.5e21, 1e300, 5e-324, 1.7976931348623157e308,
                           3.0, 100.0, 123456789.0, 2.0 ** 53, 0.3, 2.5e-5, -7.25, 1e6, 1e15, 1e16])
    if k < 0.5:
        return round(rng.uniform(-1000, 1000), rng.randrange(0, 6))
    if k < 0.6:
        return float(rng.randrange(-10 ** 6, 10 ** 6))
    if k < 0.7:
        return float(rng.choice([1, -1]) * rng.randrange(2 ** 53, 2 ** 70))      # integral beyond 2^53 (every float64 that large is integral)
    while True:
        x = struct.unpack("<d", struct.pack("<Q", rng.getrandbits(64)))[0]
        if math.isfinite(x) and not (x == 0 and math.copysign(1, x) < 0):
            return x


def gen_value(rng, depth=0):
    k = rng.random()
    if k < 0.2:
        return ("int", gen_int(rng))
    if k < 0.32:
        return ("float", gen_float(rng))
    if k < 0.4:
        return ("bool", rng.random() < 0.5)
    if k < 0.62:
        return ("str", gen_text(rng))
    if k < 0.7:
        return ("mapint", {gen_text(rng, 5): gen_int(rng) for _ in range(rng.randrange(0, 4))})
    if k < 0.77:
        return ("mapstr", {gen_text(rng, 5): gen_text(rng, 6) for _ in range(rng.randrange(0, 4))})
    if k < 0.84:
        return ("ints", [gen_int(rng) for _ in range(rng.randrange(0, 5))])
    if depth >= 3:
        return ("str", gen_text(rng))
    if k < 0.93:
        return ("map", {gen_text(rng, 5): gen_value(rng, depth + 1) for _ in range(rng.randrange(0, 4))})
    return ("list", [gen_value(rng, depth + 1) for _ in range(rng.randrange(0, 4))])


def gen_seq(rng):
    k = rng.random()
    if k < 0.45:
        n = rng.choice([1, 2, 59, 60, 61, 119, 120, 121, 179, 180, 181])
    elif k < 0.9:
        n = rng.randrange(1, 40)
    else:
        n = rng.randrange(1, 400)
    alpha = IUPAC if rng.random() < 0.8 else IUPAC + IUPAC.upper() + "-.[]"
    return "".join(rng.choice(alpha) for _ in range(n)).encode()


BUILDS = ["", "", "", "write", "withqual", "copy", "rewrite", "attrs"]
SETATTR_BUILDS = ("copy", "write", "attrs")           # annotations set through SetAttribute (which diverts id / sequence / qualities)


def gen_rec(rng, fmt):
    seq = gen_seq(rng)
    ann = {}
    for _ in range(rng.choice([0, 1, 1, 2, 3, 5])):
        key = gen_text(rng, 6)
        if key == b"definition":
            continue
        ann[key] = gen_value(rng)
    build = rng.choice(BUILDS)
    # annotations the toolkit itself writes and reads back through typed getters
    if rng.random() < 0.3:
        ann[b"count"] = ("int", rng.choice([1, 2, 12, 1000000, 2 ** 53, rng.randrange(1, 10 ** 7)])) if rng.random() < 0.85 else rng.choice(
            [("float", 2.0), ("float", 2.5), ("str", b"3"), ("bool", True), ("int", 0), ("int", -5)])
    if rng.random() < 0.15:
        ann[b"taxid"] = ("int", rng.choice([1, 9606, 2 ** 31, rng.randrange(1, 10 ** 7)]))
    if rng.random() < 0.1:
        ann[b"landmark_id"] = ("int", rng.randrange(0, 6))
    if rng.random() < 0.1:
        ann[b"landmark_coord"] = ("ints", [rng.randrange(0, 300) for _ in range(rng.randrange(0, 5))])
    if rng.random() < 0.12:
        ann[rng.choice([b"obitag_ref_index", b"obitag_geomref_index", b"idx"])] = (
            "mapintstr", {rng.choice([0, 1, 2, 10, 97, 100, -3, rng.randrange(-10 ** 6, 10 ** 6)]): gen_text(rng, 6) for _ in range(rng.randrange(0, 4))})
    if rng.random() < 0.08 and build not in SETATTR_BUILDS:
        ann[rng.choice([b"id", b"sequence", b"qualities"])] = ("str", gen_text(rng, 5))      # annotation keys shadowed by the record's own fields
    if build in ("write", "rewrite"):
        seq = seq.lower()                    # the byte-wise writers do not normalise the case
    qual = None
    if fmt == "fastq":
        k = rng.random()
        if k < 0.06:
            qual = None                      # no qualities: the writer takes the default score 40
        elif k < 0.09:
            qual = []                        # an empty quality vector is no quality vector
        elif k < 0.3:
            qual = [rng.choice([0, 1, 31, 40, 92, 93]) for _ in seq]
        else:
            qual = [rng.randrange(0, 94) for _ in seq]
    return dict(id=gen_text(rng, 8, blanks=False, minlen=1), definition=gen_text(rng, 8) if rng.random() < 0.5 else b"", seq=seq, qual=qual, ann=ann, build=build)


def R(id, seq, ann=None, definition=b"", qual=None, build=""):
    return dict(id=id, definition=definition, seq=seq, qual=qual, ann=ann or {}, build=build)


def S(s):
    return ("str", s.encode("utf8"))


# hand-written boundary cases and minimised defect witnesses (always first)
CORPUS = [
    dict(mode="rt", fmt="fasta", shift=33, parser="json", recs=[R(b"w1", b"acgt", {b"a": S('q"}')})], tag="fixed:escaped-quote-fatal"),
    dict(mode="rt", fmt="fasta", shift=33, parser="json", recs=[R(b"w2", b"acgt", {b"a": S('"{')})], tag="fixed:escaped-quote-silent-loss"),
    dict(mode="rt", fmt="fasta", shift=33, parser="guessed", recs=[R(b"w3", b"acgt", {b'k"': ("int", 1), b"z": S("}")})], tag="fixed:escaped-quote-in-key"),
    dict(mode="rt", fmt="fastq", shift=64, parser="guessed", recs=[R(b"w4", b"acgt", {b"a": S('\\"\\\\"{}')}, qual=[0, 1, 92, 93])], tag="fixed:escaped-quote"),
    dict(mode="rt", fmt="fasta", shift=33, parser="json", recs=[R(b"w5", b"acgt", {b"a": S("\\"), b"b": S("x\\")})], tag="backslash-last"),
    dict(mode="rt", fmt="fasta", shift=33, parser="json", recs=[R(b"w6", b"a" * 60), R(b"w7", b"c" * 61), R(b"w8", b"g" * 120), R(b"w9", b"t")], tag="folding"),
    dict(mode="rt", fmt="fastq", shift=33, parser="json", recs=[R(b"q1", b"acgt", qual=[0, 93, 40, 1]), R(b"@q2", b"a", {b"n": ("int", 2 ** 53)}, qual=[0])], tag="fastq"),
    dict(mode="rt", fmt="fastq", shift=64, parser="json", recs=[R(b"q3", b"acgt", qual=[0, 0, 0, 0]), R(b"q4", b"ac", qual=[0, 93])], tag="fastq64-at-sign"),
    dict(mode="rt", fmt="fasta", shift=33, parser="guessed", recs=[R(b">x", b"acgt", {b"f": ("float", 3.0), b"g": ("float", 1e21), b"h": ("float", 1e-7)}, definition=b"a {b} \"c\"")], tag="floats+definition"),
    dict(mode="rt", fmt="fasta", shift=33, parser="json", recs=[R(b"e", b"acgt")], tag="no-annotation"),
    dict(mode="rt", fmt="fasta", shift=33, parser="json", recs=[R(b"u", b"acgt", {" 中".encode(): S(" \U0001f600\x7f\x00\n\t\r")})], tag="unicode"),
    dict(mode="rt", fmt="fasta", shift=33, parser="json",
         recs=[R(b"n", b"acgt", {b"m": ("map", {b"x": ("list", [("int", 1), S('"'), ("map", {b"}": ("bool", True), b"n": ("null",)})])}), b"l": ("ints", [])})], tag="nested"),
    dict(mode="rt", fmt="fastq", shift=33, parser="json", recs=[R(b"c1", b"acgtac", qual=[93, 94, 95, 200, 255, 0])], tag="clamp-above-93 (outside the claim: comes back as 93)"),
    dict(mode="rt", fmt="fasta", shift=33, parser="json",
         recs=[R(b"big", b"acgt", {b"count": ("int", 12), b"big_int": ("int", 2 ** 53), b"neg": ("int", -2 ** 53), b"score": ("float", 3.0), b"likelihood": ("float", 1e20),
                                   b"neg_weight": ("float", -2.5e19), b"p63": ("float", 2.0 ** 63), b"l": ("list", [("float", 1e20), ("int", 2 ** 53 - 1)])})], tag="numbers-at-and-beyond-2^53 (C02-A)"),
    dict(mode="rt", fmt="fastq", shift=64, parser="guessed", recs=[R(b"g0", b"acgt", qual=[1, 2, 3, 4]), R(b"g1", b"ac", {b"a": ("int", 1)}, qual=[5, 6])], tag="guessed-without-annotation"),
    # ---- round 3
    dict(mode="rt", fmt="fastq", shift=33, parser="guessed", recs=[R(b"bs1", b"acgt", {b"dir": S("C:\\runs\\"), b"k\\": S("\\\\"), b"z": S("}\\")}, definition=b"d\\", qual=[0, 1, 2, 3])],
         tag="values, key and definition ending with backslashes, FASTQ guessed (lead)"),
    dict(mode="rt", fmt="fastq", shift=64, parser="json", recs=[R(b"bs2", b"ac", {b"a": S("x\\\\"), b"b": S('\\"\\')}, qual=[93, 0])], tag="backslash runs, FASTQ json (lead)"),
    dict(mode="rt", fmt="fasta", shift=33, parser="guessed", recs=[R(b"bs3", b"ac", {b"a": S("\\\\\\"), b"b": S("{\\")})], tag="backslash runs, FASTA guessed (lead)"),
    dict(mode="rt", fmt="fastq", shift=33, parser="json", recs=[R(b"nq1", b"acgtn"), R(b"nq2", b"ac", qual=[]), R(b"nq3", b"a", qual=[7])], tag="FASTQ without qualities (default 40)"),
    dict(mode="rt", fmt="fasta", shift=33, parser="json",
         recs=[R(b"own", b"acgt", {b"count": ("int", 1000000), b"taxid": ("int", 9606), b"landmark_id": ("int", 3), b"landmark_coord": ("ints", [0, 5, 12]),
                                   b"obitag_ref_index": ("mapintstr", {0: b"a", 10: b"b", 2: b"c", 97: b""}), b"merged_sample": ("mapint", {b"s1": 3, b"s2": 2 ** 53}),
                                   b"id": S("shadow"), b"sequence": S("tttt")})], tag="the toolkit's own annotations through its typed getters"),
    dict(mode="rt", fmt="fastq", shift=33, parser="json", recs=[R(b"b%d" % i, b"acgt"[: 1 + i % 4], {b"count": ("int", i + 1)}, qual=[i % 94] * (1 + i % 4), build=BUILDS[i % 8]) for i in range(150)],
         tag="150 records in one batch (the parser's slice grows beyond its first 100)"),
    dict(mode="rt", fmt="fasta", shift=33, parser="guessed", recs=[R(b"long", b"acgtnryk" * 640, {b"s": S("x\\\" {" * 700)})], tag="5120 nucleotides, title line beyond bufio's 4096 bytes"),
    dict(mode="rt", fmt="fasta", shift=33, parser="json", skip_empty=True, recs=[R(b"e1", b"acgt", {b"a": ("int", 1)}), R(b"e2", b""), R(b"e3", b"c" * 61)], tag="skipEmpty: a record without nucleotides among others"),
    dict(mode="rt", fmt="fastq", shift=33, parser="json", skip_empty=True, recs=[R(b"e4", b"", qual=[]), R(b"e5", b"ac", qual=[1, 2])], tag="skipEmpty fastq"),
    dict(mode="rt", fmt="fasta", shift=33, parser="json", recs=[R(b"e6", b"acgt"), R(b"e7", b"")], expect_fatal=True, tag="a record without nucleotides, skipEmpty off: the writer refuses"),
    dict(mode="hist", shifts=[33, 64, 33, 64], recs=[R(b"h1", b"acgt" * 24, qual=list(range(94)) + [0, 93])], tag="offsets 33, 64, 33, 64 inside one process (lead)"),
    dict(mode="hist", shifts=[64, 14, 172, 162, 33, 100], recs=[R(b"h2", b"acgt" * 24, qual=list(range(94)) + [10, 13]), R(b"h3", b"ac", {b"a": ("int", 1)})], tag="offsets at the ends of the working domain"),
    dict(mode="hist", shifts=[0, 33, 13, 10, 173, 255, 33], recs=[R(b"h4", b"acgt", qual=[10, 13, 0, 93])], tag="offsets outside 14..172 (outside the claim; model and code must agree), then 33 again"),
    dict(mode="file", fmt="fasta", parser="json", batch_size=2, workers=3, prefill=b">old junk\nacgt\n" * 40,
         recs=[R(b"f%d" % i, b"acgtac" * (1 + 3 * i), {b"n": ("int", i), b"s": S('q"}\\')}) for i in range(7)], tag="file: truncates a longer old file"),
    dict(mode="file", fmt="fasta", parser="guessed", batch_size=3, workers=2, append=True, prefill=b">old keep\nacgt\n",
         recs=[R(b"g%d" % i, b"ac" * (i + 1), {b"n": ("int", i)}) for i in range(5)], tag="file: append"),
    dict(mode="file", fmt="fastq", parser="json", batch_size=1, workers=4, recs=[R(b"q%d" % i, b"acgt", {b"n": ("float", i + 0.5)}, qual=[i, 93 - i, 0, 40]) for i in range(9)], tag="file: fastq, batches of one"),
    dict(mode="file", fmt="fastq", parser="guessed", batch_size=4, workers=2, compress=True, prefill=b"not gzip at all " * 30,
         recs=[R(b"z%d" % i, b"acgtn", qual=[1, 2, 3, 4, 5]) for i in range(6)], tag="file: compressed"),
    dict(mode="file", fmt="fasta", parser="json", batch_size=2, workers=2, compress=True, recs=[R(b"y%d" % i, b"acgtn" * 30, {b"a": S("\\")}) for i in range(5)], tag="file: compressed fasta"),
    dict(mode="scan", header=b'{"a":"q\\"}"} rest', tag="fixed:scan-fatal"),
    dict(mode="scan", header=b'{ "b" : [1, 2 ,{"x":null}] ,\t"a":"\\u00e9\\/\\b" , "b":true } tail', strict=True, tag="hdr-whitespace-order-duplicate"),
    dict(mode="scan", header=b'{"n":9007199254740993,"m":0,"k":123456789012345678901234,"z":1e-07}', strict=True, tag="hdr-numbers"),
    dict(mode="scan", header=b'{"definition":"d1","a":1}   more text ', strict=True, tag="hdr-definition-appended"),
    dict(mode="scan", header=b'{"a":1}\xc2\xa0x y\xe3\x80\x80\xe2\x80\xa8', strict=True, tag="hdr-unicode-trimspace"),
    dict(mode="scan", header=b'x {"a":1} y', tag="hdr-text-before"),
    dict(mode="scan", header=b'{"a":"\\ud83d\\ude00|\\ud800|\\udc00\\ud83d|\\ud800\\u0041"}', strict=True,
         expect=b'{"a":"\xf0\x9f\x98\x80|\xef\xbf\xbd|\xef\xbf\xbd\xef\xbf\xbd|\xef\xbf\xbdA"}', tag="hdr-surrogates"),
    dict(mode="scan", header=b'{"x":2.50,"y":1E5,"z":0.0000001,"w":123456789.123456789e-3,"v":0.0,"u":4.9406564584124654e-324}', strict=True,
         expect=b'{"u":5e-324,"v":0,"w":123456.78912345679,"x":2.5,"y":100000,"z":1e-07}', tag="hdr-number-spellings"),
    dict(mode="scan", header=b'{"a":"\xff\xe9"}', tag="invalid-utf8 (outside the claim)"),
    dict(mode="scan", header=b'{"a":"\\"{"} rest', tag="fixed:scan-silent"),
    dict(mode="scan", header=b'{"a":"\\\\"} {"b":1}', tag="scan-escaped-backslash"),
    dict(mode="scan", header=b'text {"a":1} more', tag="scan-prefix"),
    dict(mode="scan", header=b'no json here', tag="scan-none"),
    dict(mode="scan", header=b'} {"a":1}', tag="scan-negative-level"),
    dict(mode="scan", header=b'"{"a":1}', tag="scan-quote-before"),
    dict(mode="scan", header=b'\\{"a":"\\\\"}', tag="scan-backslash-before"),
    dict(mode="scan", header=b'{"a":{"b":{}}}x', tag="scan-nested"),
    dict(mode="scan", header=b'', tag="scan-empty"),
]


def gen_scan(rng):
    k = rng.random()
    if k < 0.5:
        n = rng.randrange(0, 14)
        return bytes(rng.choice(b'{}{}""\\\\a :1,') for _ in range(n))
    # a well-formed object (strings full of specials) followed by a remainder
    obj = {gen_text(rng, 5): gen_value(rng) for _ in range(rng.randrange(0, 4))}
    pre = b"" if rng.random() < 0.8 else rng.choice([b"x ", b" ", b"ab"])
    rest = rng.choice([b"", b"", b" rest", b" {\"x\":1}", b"}", b"\"", b"  a b  ", b"\\"])
    return ("obj", pre, obj, rest)


GO_FLOAT_TOKENS = [b"0.5", b"1.5", b"-7.25", b"0.1", b"3.14", b"1e+21", b"1.5e+21", b"1e-07", b"0.000025", b"9.999e-07", b"1e+300", b"-0.001", b"2.5"]
JWS = [b"", b"", b"", b" ", b"  ", b"\t"]


def gen_jtext_value(rng, depth=0):
    """a value as (kind, payload) for free-style JSON text: ('num', token bytes) | ('str', bytes) | ('lit', bytes) | ('arr', [..]) | ('obj', [(k, v)..] with repeats)"""
    k = rng.random()
    if k < 0.3:
        r = rng.random()
        if r < 0.3:
            return ("num", str(rng.choice(INT_EDGE + INT_OUTSIDE)).encode())       # (no -0: equal to 0 by value, the only number whose int/float64 nature shows)
        if r < 0.6:
            return ("num", str(rng.randrange(-10 ** rng.randrange(1, 26), 10 ** rng.randrange(1, 26))).encode())
        if r < 0.7:
            return ("num", rng.choice(GO_FLOAT_TOKENS))
        if r < 0.9:
            # any spelling of a decimal number: the reader makes a float64 of it, the writer prints the shortest digits
            t = ("-" if rng.random() < 0.3 else "") + ("0" if rng.random() < 0.1 else "") + str(rng.randrange(0, 10 ** rng.randrange(1, 20)))
            if rng.random() < 0.7:
                t += "." + "".join(rng.choice("0123456789") for _ in range(rng.randrange(1, 20)))
            if rng.random() < 0.5:
                t += rng.choice("eE") + rng.choice(["", "+", "-"]) + str(rng.randrange(0, rng.choice([3, 30, 300])))
            return ("num", t.encode())
        return ("num", rng.choice([b"2.50", b"1E5", b"1e5", b"0.10", b"100e-2", b"1.0", b"0e0", b"1e-7", b"0.000001", b"0.0000009999", b"1e21", b"999999999999999999999.9",
                                   b"4.35", b"0.3", b"5e-324", b"2e-324", b"1.7976931348623157e308", b"4.9406564584124654e-324", b"2.2250738585072014e-308", b"9007199254740993.0",
                                   b"9007199254740992.5", b"0.1e1", b"123456789.123456789",
                                   b"1.", b"-.5", b"01", b"00", b"1.e5", b"0.", b"007.250", b"-01", b"0e5"]))          # the last ones: not JSON, but go-json reads them
    if k < 0.6:
        return ("str", gen_text(rng, 6, blanks=rng.random() < 0.5))
    if k < 0.7:
        return ("lit", rng.choice([b"true", b"false", b"null"]))
    if depth >= 2:
        return ("num", b"7")
    if k < 0.85:
        return ("arr", [gen_jtext_value(rng, depth + 1) for _ in range(rng.randrange(0, 4))])
    return ("obj", gen_jtext_members(rng, depth + 1))


def gen_jtext_members(rng, depth=0):
    ms = [(gen_text(rng, 4, blanks=False), gen_jtext_value(rng, depth)) for _ in range(rng.randrange(0, 4))]
    if ms and rng.random() < 0.3:
        ms.insert(rng.randrange(0, len(ms) + 1), (rng.choice(ms)[0], gen_jtext_value(rng, depth)))      # a repeated key
    return ms


def jtext_string(rng, b):
    """one of the many JSON spellings of a byte string (valid UTF-8, no line terminator raw)"""
    out = bytearray(b'"')
    for ch in b.decode("utf8"):
        o = ord(ch)
        r = rng.random()
        if ch in '"\\':
            out += b"\\" + ch.encode()
        elif ch == "/" and r < 0.5:
            out += b"\\/"
        elif o < 32 or (o < 0xd800 and r < 0.15) or o in (0x2028, 0x2029) and r < 0.5:
            short = {8: b"\\b", 12: b"\\f", 10: b"\\n", 13: b"\\r", 9: b"\\t"}
            if o in short and r < 0.6:
                out += short[o]
            elif o in (10, 13) or r < 0.8:
                out += b"\\u%04x" % o if rng.random() < 0.5 else b"\\u%04X" % o
            elif o == 0:
                out += b"\\u0000"                 # go-json refuses a raw NUL byte (it ends its buffer)
            else:
                out += ch.encode("utf8")          # raw control byte (go-json takes it)
        elif o >= 0x10000 and r < 0.5:
            u = o - 0x10000
            out += b"\\u%04x\\u%04x" % (0xd800 + (u >> 10), 0xdc00 + (u & 0x3ff))      # UTF-16 surrogate pair, as json.dumps writes it
        else:
            out += ch.encode("utf8")
    return bytes(out + b'"')


def jtext_render(rng, v, ws):
    w = (lambda: rng.choice(JWS)) if ws else (lambda: b"")
    t = v[0]
    if t in ("num", "lit"):
        return v[1]
    if t == "str":
        return jtext_string(rng, v[1])
    if t == "arr":
        return b"[" + w() + (w() + b"," + w()).join(jtext_render(rng, x, ws) for x in v[1]) + w() + b"]"
    return b"{" + w() + (w() + b"," + w()).join(jtext_string(rng, k) + w() + b":" + w() + jtext_render(rng, x, ws) for k, x in v[1]) + w() + b"}"


def go_float(f):
    """go-json AppendFloat64: shortest digits, 'e' format below 1e-6 and from 1e21 on"""
    from decimal import Decimal
    if f == 0:
        return b"-0" if math.copysign(1, f) < 0 else b"0"
    sign, digits, exp = Decimal(repr(f)).as_tuple()
    digits = list(digits)
    while len(digits) > 1 and digits[-1] == 0:
        digits.pop()
        exp += 1
    ds = "".join(map(str, digits))
    dp = len(ds) + exp
    a = abs(f)
    if a < 1e-6 or a >= 1e21:
        e = dp - 1
        out = ds[0] + ("." + ds[1:] if len(ds) > 1 else "") + "e" + ("-" if e < 0 else "+") + "%02d" % abs(e)
    elif dp <= 0:
        out = "0." + "0" * (-dp) + ds
    elif dp >= len(ds):
        out = ds + "0" * (dp - len(ds))
    else:
        out = ds[:dp] + "." + ds[dp:]
    return (("-" if sign else "") + out).encode()


def jtext_canonical(v):
    """what the writer emits after the value went through a Go map with float64 numbers (independent of the Coq model)"""
    t = v[0]
    if t == "lit":
        return v[1]
    if t == "num":
        f = float(v[1].decode())
        if math.isinf(f):
            raise OverflowError
        return go_float(f)
    if t == "str":
        return enc_key(v[1])
    if t == "arr":
        return b"[" + b",".join(jtext_canonical(x) for x in v[1]) + b"]"
    m = {}
    for k, x in v[1]:
        m[k] = x
    return b"{" + b",".join(enc_key(k) + b":" + jtext_canonical(m[k]) for k in sorted(m, key=enc_key)) + b"}"


def gen_hdr(rng):
    """a title-line remainder nobody formatted: JSON in free style (+ text after it); the expected formatted header"""
    ms = gen_jtext_members(rng)
    txt = jtext_render(rng, ("obj", ms), rng.random() < 0.7)
    tail = rng.choice([b"", b"", b" tail", b"  two words  ", b"\xc2\xa0nbsp\xe2\x80\x83", b"x"])
    m = {}
    for k, x in ms:
        m[k] = x
    d = tail.decode("utf8").strip().encode("utf8")
    if d:
        old = m.get(b"definition")
        if old is None:
            m[b"definition"] = ("str", d)
        elif old[0] == "str":
            m[b"definition"] = ("str", old[1] + b" " + d)
        else:
            return dict(mode="scan", header=txt + tail)          # a non-string definition member: not modelled
    try:
        exp = jtext_canonical(("obj", list(m.items()))) if m else b""
    except OverflowError:
        return dict(mode="scan", header=txt + tail)              # a number beyond the float64 range: the reader dies (ParseFloat), not modelled
    return dict(mode="scan", header=txt + tail, strict=True, expect=exp)


def gen_cases(ctx, n_rt, n_scan, n_enc, n_read=0, n_hist=0, n_file=0):
    rng = ctx.rng
    cases = [dict(c) for c in CORPUS]
    for _ in range(n_rt):
        fmt = rng.choice(["fasta", "fastq"])
        c = dict(mode="rt", fmt=fmt, shift=rng.choice([33, 33, 64, 64, 40, 100, 162]) if fmt == "fastq" else 33, parser=rng.choice(["json", "guessed"]),
                 shift2=rng.choice([33, 64]) if fmt == "fastq" else 0,       # every input/output offset combination
                 recs=[gen_rec(rng, fmt) for _ in range(rng.choice([1, 1, 2, 3, 6]))])
        if rng.random() < 0.06:
            # a record without nucleotides in the batch: left out with skipEmpty, refused without
            c["recs"].insert(rng.randrange(len(c["recs"]) + 1), R(gen_text(rng, 5, blanks=False, minlen=1), b"", qual=[] if fmt == "fastq" else None))
            c["shift2"] = 0
            if rng.random() < 0.6:
                c["skip_empty"] = True
            else:
                c["expect_fatal"] = True
        cases.append(c)
    for k in range(n_read):
        fmt = rng.choice(["fasta", "fastq"])
        cases.append(gen_foreign(rng, fmt, rng.choice(BAD_FASTA if fmt == "fasta" else BAD_FASTQ) if k % 3 == 2 else None))
    for _ in range(n_hist):
        recs = [gen_rec(rng, "fastq") for _ in range(rng.choice([1, 2]))]
        if not recs[0]["qual"]:
            recs[0]["qual"] = [rng.randrange(0, 94) for _ in recs[0]["seq"]]
        cases.append(dict(mode="hist", shifts=[rng.choice([33, 64, 33, 64, 14, 172, 100, 0, 10, 13, 200]) for _ in range(rng.randrange(2, 6))], recs=recs))
    for _ in range(n_file):
        fmt = rng.choice(["fasta", "fastq"])
        app = rng.random() < 0.3
        cases.append(dict(mode="file", fmt=fmt, parser=rng.choice(["json", "guessed"]), batch_size=rng.choice([1, 2, 3, 5, 100]), workers=rng.choice([1, 2, 4]),
                          append=app, compress=(not app) and rng.random() < 0.3,
                          prefill=rng.choice([b"", b">keep\nacgt\n" if fmt == "fasta" else b"@keep\nacgt\n+\nIIII\n", b"x" * 3000]) if not app else
                          (b">keep\nacgt\n" if fmt == "fasta" else b"@keep\nacgt\n+\nIIII\n") * rng.randrange(0, 3),
                          recs=[gen_rec(rng, fmt) for _ in range(rng.randrange(1, 12))]))
    for _ in range(n_scan):
        g = gen_scan(rng)
        if isinstance(g, tuple):
            cases.append(dict(mode="scan", obj=g[2], pre=g[1], rest=g[3]))      # header filled in after the enc pass
        else:
            cases.append(dict(mode="scan", header=g))
    for _ in range(n_scan // 2):
        cases.append(gen_hdr(rng))
    for _ in range(n_enc):
        cases.append(dict(mode="enc", val=gen_value(rng)))
    for x in INT_OUTSIDE:
        cases.append(dict(mode="enc", val=("int", x), outside=True))
    inv = [b"\xff", b"\xe9t\xe9", b"a\xc0\xafb", b"\xed\xa0\x80", b"\xe2\x80", b"\xf4\x90\x80\x80", b"\xe0\x9f\xbf", b"\xf0\x8f\xbf\xbf", b"\xc2", b"\xe2\x80\xa8\xe2\x80",
           b"\xf0\x9f\x98", b"\x80\xbf", b"\xed\x9f\xbf\xee\x80\x80", b"\xf4\x8f\xbf\xbf\xf5", b"12345678\xff", b"\xc3\xa9\xc3"]
    for _ in range(max(10, n_enc // 5)):
        inv.append(bytes(rng.choice([0x41, 0x22, 0x5c, 0x7f, 0x80, 0xa8, 0xbf, 0xc0, 0xc2, 0xdf, 0xe0, 0xe2, 0xed, 0xef, 0xf0, 0xf4, 0xf5, 0xff, 0x9f, 0xa0, 0x90, 0x8f])
                         for _ in range(rng.randrange(1, 12))))
    for b in inv:
        v = ("str", b) if rng.random() < 0.7 else ("map", {b: ("str", b[::-1]), b"k": ("int", 1)})
        cases.append(dict(mode="enc", val=v, outside=not val_utf8(v), invalid_utf8=not val_utf8(v)))
    return cases


SCAN_ALPHABET = b'{}"\\a'


def exhaustive_scan_cases(maxlen):
    """every title-line remainder over { } " \\ a up to the given length (scanner vs model, exhaustive small scope)"""
    import itertools
    out = []
    for n in range(maxlen + 1):
        for t in itertools.product(SCAN_ALPHABET, repeat=n):
            out.append(dict(mode="scan", header=bytes(t)))
    return out


# ---------------------------------------------------------------- rendering for the harness
def val_vh(v):
    t = v[0]
    if t == "int":
        return dict(t="int", v=str(v[1]))
    if t == "float":
        return dict(t="float", v=repr(v[1]))
    if t == "bool":
        return dict(t="bool", b=v[1])
    if t == "str":
        return dict(t="str", s=b64(v[1]))
    if t == "null":
        return dict(t="null")
    if t == "mapint":
        return dict(t="mapint", m={b64(k): dict(t="int", v=str(x)) for k, x in v[1].items()})
    if t == "mapstr":
        return dict(t="mapstr", m={b64(k): dict(t="str", s=b64(x)) for k, x in v[1].items()})
    if t == "ints":
        return dict(t="ints", l=[dict(t="int", v=str(x)) for x in v[1]])
    if t == "mapintstr":
        return dict(t="mapintstr", m={b64(str(k).encode()): dict(t="str", s=b64(x)) for k, x in v[1].items()})
    if t == "map":
        return dict(t="map", m={b64(k): val_vh(x) for k, x in v[1].items()})
    if t == "list":
        return dict(t="list", l=[val_vh(x) for x in v[1]])
    raise ValueError(t)


def to_vh(c):
    if c["mode"] == "scan":
        d = dict(mode="scan", header=b64(c["header"]))
        if c.get("strict"):
            d["strict"] = True
            if "expect" in c:
                d["expect"] = b64(c["expect"])
        return d
    if c["mode"] == "enc":
        return dict(mode="enc", val=val_vh(c["val"]))
    if c["mode"] == "read":
        return dict(mode="read", fmt=c["fmt"], shift=c["shift"], parser=c["parser"], text=b64(c["text"]), x_expect=c.get("expect"), x_why=c.get("why"))
    recs = [dict(id=b64(r["id"]), **{"def": b64(r["definition"])}, seq=b64(r["seq"]), qual=r["qual"], build=r.get("build", ""),
                 ann={b64(k): val_vh(v) for k, v in r["ann"].items()}) for r in c["recs"]]
    if c["mode"] == "hist":
        return dict(mode="hist", shifts=c["shifts"], recs=recs)
    if c["mode"] == "file":
        return dict(mode="file", fmt=c["fmt"], parser=c["parser"], batch_size=c.get("batch_size", 2), workers=c.get("workers", 2), append=bool(c.get("append")),
                    compress=bool(c.get("compress")), prefill=b64(c.get("prefill", b"")), recs=recs)
    return dict(mode="rt", fmt=c["fmt"], shift=c["shift"], shift2=c.get("shift2", 0), parser=c["parser"], typed=True, skip_empty=bool(c.get("skip_empty")),
                x_expect_fatal=bool(c.get("expect_fatal")), recs=recs)


# ---------------------------------------------------------------- direct oracle
def plain(v):
    """the value the property expects back (numbers by value)"""
    t = v[0]
    if t in ("int", "float", "bool"):
        return v[1]
    if t == "str":
        return v[1].decode("utf8")
    if t == "null":
        return None
    if t == "mapint":
        return {k.decode("utf8"): x for k, x in v[1].items()}
    if t == "mapstr":
        return {k.decode("utf8"): x.decode("utf8") for k, x in v[1].items()}
    if t == "ints":
        return list(v[1])
    if t == "mapintstr":
        return {str(k): x.decode("utf8") for k, x in v[1].items()}
    if t == "map":
        return {k.decode("utf8"): plain(x) for k, x in v[1].items()}
    if t == "list":
        return [plain(x) for x in v[1]]
    raise ValueError(t)


def same(a, b):
    if isinstance(a, bool) or isinstance(b, bool):
        return isinstance(a, bool) and isinstance(b, bool) and a == b
    if isinstance(a, int) and isinstance(b, int) and (abs(a) <= 2 ** 53 or abs(b) <= 2 ** 53):
        return a == b                    # ints |x| <= 2^53: exactly
    if isinstance(a, (int, float)) and isinstance(b, (int, float)):
        return float(a) == float(b)      # every number is a float64 on the Go side (the canonical text may print it as an integer)
    if isinstance(a, str) and isinstance(b, str):
        return a == b
    if a is None or b is None:
        return a is None and b is None
    if isinstance(a, list) and isinstance(b, list):
        return len(a) == len(b) and all(same(x, y) for x, y in zip(a, b))
    if isinstance(a, dict) and isinstance(b, dict):
        return a.keys() == b.keys() and all(same(a[k], b[k]) for k in a)
    return False


def expected_rec(r, fmt):
    ann = {k.decode("utf8"): plain(v) for k, v in r["ann"].items()}
    if r["definition"]:
        ann["definition"] = r["definition"].decode("utf8")
    q = None
    if fmt == "fastq":
        q = [min(x, 93) for x in r["qual"]] if r["qual"] else [40] * len(r["seq"])
    return dict(id=r["id"], seq=r["seq"].lower(), qual=q, ann=ann)


def oracle_rt(c, o):
    """returns None when the property holds on this observation, else a short reason"""
    if c.get("expect_fatal"):
        # a record without nucleotides and skipEmpty off: the writer must refuse (never a silent loss); outside the claim otherwise
        return None if o["kind"] == "fatal" and not o.get("w1") else "a batch holding a record without nucleotides was written (skipEmpty off): kind %s" % o["kind"]
    if o["kind"] != "ok":
        return "the reader/header parser died (%s) on text the writer produced" % o["kind"]
    allrecs = c["recs"]
    if c.get("skip_empty"):
        c = dict(c, recs=[r for r in c["recs"] if r["seq"]])
    if len(o.get("recs") or []) != len(c["recs"]):
        return "%d records written, %d read back" % (len(c["recs"]), len(o.get("recs") or []))
    why = oracle_typed(c, allrecs, o)
    if why:
        return why
    for i, (r, x) in enumerate(zip(c["recs"], o["recs"])):
        e = expected_rec(r, c["fmt"])
        if unb64(x["id"]) != e["id"]:
            return "record %d: identifier changed" % i
        if unb64(x["seq"]) != e["seq"]:
            return "record %d: nucleotides changed" % i
        if x.get("qual") != e["qual"]:
            return "record %d: qualities changed" % i
        try:
            got = json.loads(x["ann"])
        except Exception:
            return "record %d: annotations not serialisable (%s)" % (i, x["ann"][:60])
        if not same(got, e["ann"]):
            return "record %d: annotations changed" % i
    s2 = c.get("shift2", 0)
    if s2 in (0, c["shift"]) or c["fmt"] != "fastq":
        if o["w1"] != o["w2"]:
            return "second write differs from the first (not a fixed point)"
    if c["fmt"] == "fastq" and s2:
        # second write with another quality offset, read with that offset: same scores
        want = [expected_rec(r, "fastq")["qual"] for r in c["recs"]]
        if o.get("qual2") != want:
            return "qualities changed through output offset %d / input offset %d" % (s2, s2)
        a, b = unb64(o["w1"]).split(b"\n"), unb64(o["w2"]).split(b"\n")
        if len(a) != len(b) or any(x != y for k, (x, y) in enumerate(zip(a, b)) if k % 4 != 3):
            return "second write (offset %d) differs from the first outside the quality lines" % s2
    return None


F64_2_62 = 2.0 ** 62


def fbits(x):
    return str(struct.unpack("<Q", struct.pack("<d", float(x)))[0])


SHADOWED = (b"id", b"sequence", b"qualities")
MAP_TYPES = ("mapint", "mapstr", "map", "mapintstr")


def expected_view(t, v):
    """the fields of the typed view the property fixes for a value of generated type t (None = the getter must say 'no')"""
    e = {}
    if t == "int":
        e.update(i=str(v), f=fbits(v), n=fbits(v), b=(v != 0))
    elif t == "float":
        e.update(f=fbits(v), n=fbits(v), b=(v != 0))
        if abs(v) < F64_2_62:
            e["i"] = str(int(v))                       # Go's int(float64): truncation
    elif t == "bool":
        e.update(i=None, f=None, n=None, b=v)
    elif t == "str":
        e.update(i=None, f=None, n=None, b=None, s=b64(v), im=None, **{"is": None})
    elif t == "mapint":
        e.update(i=None, im={b64(k): str(x) for k, x in v.items()}, **{"is": None})
    elif t == "mapstr":
        e.update(i=None, sm={b64(k): b64(x) for k, x in v.items()}, **{"is": None})
    elif t == "ints":
        e.update(i=None, im=None, **{"is": [str(x) for x in v]})
    elif t == "mapintstr":
        e.update(i=None, ri={str(k): b64(x) for k, x in v.items()}, **{"is": None})
    elif t == "null":
        e.update(i=None, f=None, b=None)
    return e


def int_of(ann, key, default):
    v = ann.get(key)
    if v is None:
        return default
    if v[0] == "int":
        return v[1]
    if v[0] == "float" and abs(v[1]) < F64_2_62:
        return int(v[1])
    return default if v[0] not in ("int", "float") else None        # None: not judged


def oracle_typed(c, allrecs, o):
    """the typed getters see the same values before the write and after the read (numbers by value); the one-by-one
    formatters and the buffer variant of the header formatter agree with the batch formatters; the getters that store
    their result back do not change the text of the record"""
    if "typed0" not in o:
        return None
    if len(o["typed0"]) != len(allrecs):
        return "typed views: %d records, %d views" % (len(allrecs), len(o["typed0"]))
    nonempty = [i for i, r in enumerate(allrecs) if r["seq"]]
    if o.get("single") != o.get("w1"):
        return "FormatFasta / FormatFastq record by record differ from FormatFastaBatch / FormatFastqBatch"
    if o.get("whdr") != o.get("fhdr"):
        return "WriteFastSeqJsonHeader differs from FormatFastSeqJsonHeader"
    for j, i in enumerate(nonempty):
        r, x = allrecs[i], o["recs"][j]
        if x.get("enc3") is not None and x["enc3"] != x["enc"]:
            return "record %d: the typed getters that store their result back changed the formatted header: %r -> %r" % (j, unb64(x["enc"]), unb64(x["enc3"]))
        ann = dict(r["ann"])
        if r["definition"]:
            ann[b"definition"] = ("str", r["definition"])
        views = (("before the write", {unb64(t["k"]): t for t in o["typed0"][i]}), ("after the read", {unb64(t["k"]): t for t in x.get("typed") or []}))
        for when, vw in views:
            for k, (t, *rest) in ann.items():
                tv = vw.get(k)
                if tv is None or not tv.get("has"):
                    return "record %d, %s: attribute %r is missing" % (j, when, k)
                if k in SHADOWED:
                    continue
                for f, want in expected_view(t, rest[0] if rest else None).items():
                    if tv.get(f) != want:
                        return "record %d, %s: typed getter '%s' on %r (written as %s %r) answers %r instead of %r" % (j, when, f, k, t, rest[0] if rest else None, tv.get(f), want)
            rv = next((t["rec"] for t in vw.values() if t.get("rec")), None)
            if rv is None:
                return "record %d, %s: no record view" % (j, when)
            for name, key, dflt in (("count", b"count", 1), ("taxid", b"taxid", 1), ("landmark", b"landmark_id", -1)):
                want = int_of(ann, key, dflt)
                if want is not None and rv[name] != want:
                    return "record %d, %s: %s() answers %r instead of %r" % (j, when, name, rv[name], want)
            gi = ann.get(b"obitag_geomref_index")
            if (gi is None and rv.get("geomri") is not None) or (gi is not None and gi[0] == "mapintstr" and rv.get("geomri") != {str(a): b64(b) for a, b in gi[1].items()}):
                return "record %d, %s: OBITagGeomRefIndex() answers %r" % (j, when, rv.get("geomri"))
            lc = ann.get(b"landmark_coord")
            if (lc is None and rv["coord"] is not None) or (lc is not None and lc[0] == "ints" and rv["coord"] != [str(z) for z in lc[1]]):
                return "record %d, %s: GetCoordinate() answers %r" % (j, when, rv["coord"])
            if unb64(rv["str"]) != r["seq"].lower() or rv["len"] != len(r["seq"]) or not rv["has_seq"]:
                return "record %d, %s: String()/Len()/HasSequence() do not describe the nucleotides" % (j, when)
            if unb64(rv["def"]) != r["definition"] or rv["has_def"] != bool(r["definition"]):
                return "record %d, %s: Definition() answers %r" % (j, when, unb64(rv["def"]))
            keys = {k for k in ann} | {b"id", b"sequence"}
            if (when == "after the read" and c["fmt"] == "fastq") or (when == "before the write" and r["qual"]):
                keys.add(b"qualities")
            if sorted(unb64(k) for k in rv["keys"] or []) != sorted(keys):
                return "record %d, %s: Keys() answers %r instead of %r" % (j, when, sorted(unb64(k) for k in rv["keys"] or []), sorted(keys))
            if sorted(unb64(k) for k in rv["akeys"] or []) != sorted(k for k, v in ann.items() if v[0] not in MAP_TYPES):
                return "record %d, %s: AttributeKeys(skip maps) answers %r" % (j, when, sorted(unb64(k) for k in rv["akeys"] or []))
    return None


# ---------------------------------------------------------------- round 3: text nobody formatted, offset histories, files
def gen_foreign(rng, fmt, bad=None):
    """a FASTA / FASTQ text laid out as other tools lay it out (CR LF, tabs, blank lines, other line widths, upper case, no
    final line end, free-style JSON or plain text on the title line) and the records it denotes; bad: one defect that the
    reader must refuse"""
    shift = rng.choice([33, 64]) if fmt == "fastq" else 33
    parser = rng.choice(["json", "guessed"])
    eol = rng.choice([b"\n", b"\n", b"\n", b"\r\n", b"\r"])
    nrec = rng.choice([1, 1, 2, 3, 5])
    badat = rng.randrange(nrec) if bad else -1
    out, exp = bytearray(), []
    for j in range(nrec):
        ident = gen_text(rng, 8, blanks=False, minlen=1)
        k = rng.random()
        hdr_expect = None
        if k < 0.2:
            rem = b""
            hdr_expect = b64(b"")
        elif k < 0.3:
            rem = rng.choice([b" ", b"\t ", b"  "])
            hdr_expect = b64(b"")
        elif k < 0.85 or parser == "guessed":
            h = gen_hdr(rng)
            rem = rng.choice([b" ", b"\t", b"  ", b" \t "]) + h["header"]
            if h.get("strict") and "expect" in h:
                hdr_expect = b64(h["expect"])
        else:
            d = gen_text(rng, 10, minlen=1).replace(b"\n", b"n").replace(b"\r", b"r").replace(b"{", b"(").strip(b" \t\x0b\x0c")
            d = d or b"plain"
            rem = b" " + d
            try:
                hdr_expect = b64(jtext_canonical(("obj", [(b"definition", ("str", d))]))) if is_utf8(d) else None
            except Exception:
                hdr_expect = None
        seq = gen_seq(rng)
        lead = b">" if fmt == "fasta" else b"@"
        q = [rng.randrange(0, 94) for _ in seq]
        if j == badat:
            if bad == "no-marker":
                lead = b"#"
            elif bad == "blank-after-marker":
                ident = b" " + ident
            elif bad == "no-identifier":
                ident, rem = b"", b""
            elif bad == "digit-in-sequence":
                at = max(1, len(seq) // 2)         # (the FASTQ reader takes the first nucleotide as it comes)
                seq = seq[:at] + rng.choice([b"1", b"*", b"?", b"\x00", b"\xe9"]) + seq[at:]
                q = q + [5]
        out += lead + ident + rem + eol + (eol if rng.random() < 0.1 else b"")
        if fmt == "fasta":
            w = rng.choice([60, 60, 10, 1, 80, 7])
            body = bytearray()
            for a in range(0, len(seq), w):
                line = bytearray(seq[a:a + w])
                if rng.random() < 0.15 and len(line) > 1:
                    line.insert(rng.randrange(1, len(line)), rng.choice(b" \t"))
                if rng.random() < 0.1:
                    line += b" "
                body += line + eol + (eol if rng.random() < 0.08 else b"")
            if j == badat and bad == "blank-before-sequence":
                body = b" " + body
            if j == badat and bad == "marker-inside-sequence":
                body = body[:1] + b">" + body[1:]
            if j == nrec - 1 and rng.random() < 0.3:
                body = body.rstrip(b"\r\n \t")
            out += body
        else:
            qs = bytes((x + shift) % 256 for x in q)
            if j == badat and bad == "quality-shorter":
                qs = qs[:-1] if len(qs) > 1 else qs + qs
            if j == badat and bad == "quality-longer":
                qs = qs + qs[:1]
            plus = b"+" + (ident if rng.random() < 0.3 else b"") + (b" again" if rng.random() < 0.1 else b"")
            if j == badat and bad == "no-plus-line":
                if qs[:1] == b"+":
                    # (a quality line which itself starts with '+' would be read as the separator line of a record whose
                    # quality line is missing: another defect than the one meant here)
                    qs = b"I" + qs[1:]
                out += seq + eol + qs + eol
            else:
                out += seq + eol + plus + eol + (eol if rng.random() < 0.05 else b"") + qs
                if not (j == nrec - 1 and rng.random() < 0.3):
                    out += eol + (eol if rng.random() < 0.1 else b"")
            if j == badat and bad == "junk-between-records":
                out += b"junk" + eol
        exp.append(dict(id=b64(ident), seq=b64(bytes(ch for ch in seq.lower() if ch not in b" \t")), qual=q if fmt == "fastq" else None, enc=hdr_expect))
    return dict(mode="read", fmt=fmt, shift=shift, parser=parser, text=bytes(out), expect=None if bad else exp, why=bad)


BAD_FASTA = ["no-marker", "blank-after-marker", "no-identifier", "digit-in-sequence", "blank-before-sequence", "marker-inside-sequence"]
BAD_FASTQ = ["no-marker", "no-identifier", "digit-in-sequence", "quality-shorter", "quality-longer", "no-plus-line", "junk-between-records"]


def oracle_read(c, o):
    if c.get("why"):
        # a text with one defect the reader is documented to refuse: it must not be read as if nothing were wrong
        return None if o["kind"] in ("fatal", "panic") else "a text with the defect '%s' was accepted" % c["why"]
    if o["kind"] != "ok":
        return "the reader died (%s: %s) on a well-formed text" % (o["kind"], o.get("msg", "")[:80])
    if o.get("w1") != o.get("w2"):
        return "write after read is not a fixed point on a text nobody formatted"
    exp = c.get("expect")
    if exp is None:
        return None
    if len(o.get("recs") or []) != len(exp):
        return "%d records in the text, %d read" % (len(exp), len(o.get("recs") or []))
    for i, (e, x) in enumerate(zip(exp, o["recs"])):
        if x["id"] != e["id"]:
            return "record %d: identifier %r instead of %r" % (i, unb64(x["id"]), unb64(e["id"]))
        if x["seq"] != e["seq"]:
            return "record %d: nucleotides differ" % i
        if x.get("qual") != e["qual"]:
            return "record %d: qualities differ" % i
        if e.get("enc") is not None:
            def value_of(b):
                try:
                    return json.loads(b.decode("utf8")) if b else {}
                except Exception:
                    return "unparsable: %r" % b
            if not same(value_of(unb64(x["enc"])), value_of(unb64(e["enc"]))):
                return "record %d: annotations %r instead of %r" % (i, unb64(x["enc"]), unb64(e["enc"]))
    return None


def shift_in_domain(sh):
    return 14 <= sh <= 172


def oracle_hist(c, o):
    if o["kind"] != "ok":
        return "harness: %s %s" % (o["kind"], o.get("msg", ""))
    want = [expected_rec(r, "fastq")["qual"] for r in c["recs"]]
    inside = all(max(q) <= 93 for q in want)
    for k, (sh, h) in enumerate(zip(c["shifts"], o.get("hist") or [])):
        line = unb64(h["w"]).split(b"\n")[3] if h.get("w") else b""
        if inside and line != bytes((x + sh) % 256 for x in want[0]) and shift_in_domain(sh):
            return "step %d (output offset %d after %r): quality line %r" % (k, sh, c["shifts"][:k], line)
        if unb64(h.get("qs", "")) != line and shift_in_domain(sh) and c["recs"][0]["qual"]:
            return "step %d: the 'qualities' attribute differs from the written quality line" % k
        if shift_in_domain(sh) and inside:
            if h.get("err"):
                return "step %d (offset %d): the reader died: %s" % (k, sh, h["err"][:80])
            if [x.get("qual") for x in h.get("recs") or []] != want:
                return "step %d (offset %d after %r): scores %r read back instead of %r" % (k, sh, c["shifts"][:k], [x.get("qual") for x in h.get("recs") or []][:1], want[:1])
    return None


def oracle_file(c, o):
    if o["kind"] != "ok":
        return "file writer / reader: %s %s" % (o["kind"], o.get("msg", "")[:100])
    want = (c.get("prefill", b"") if c.get("append") else b"") + unb64(o["w1"])
    if c.get("compress") and not o.get("gz"):
        return "the file written with the compression option is not a gzip file"
    if not c.get("compress") and o.get("gz"):
        return "the file written without the compression option is a gzip file"
    if c.get("compress") and c.get("append"):
        want = unb64(o["w1"])                # (not generated: appending to a non-gzip file)
    if unb64(o["file"]) != want:
        return "file content differs from %sthe text of the records (%d bytes instead of %d)" % ("the old content + " if c.get("append") else "", len(unb64(o["file"])), len(want))
    if c.get("append"):
        return None                          # the old content is not the writer's: only the bytes are judged
    return oracle_rt(dict(c, mode="rt", shift=33, shift2=0), {k: v for k, v in o.items() if k != "typed0"})


def oracle_scan(c, o):
    if "obj" in c and not c["pre"]:
        # a serialised object followed by a remainder: the object must be found and decoded, the remainder kept
        if o["kind"] != "ok":
            return "header parser died on a serialised object"
        if o["start"] != 0 or o["stop"] != len(c["objbytes"]) - 1:
            return "scanner delimits [%d,%d] instead of [0,%d]" % (o["start"], o["stop"], len(c["objbytes"]) - 1)
        if not same(json.loads(o["ann"]), {k.decode("utf8"): plain(v) for k, v in c["obj"].items()}):
            return "annotations differ from the serialised object"
        if unb64(o.get("rest", "")) != c["rest"].strip(b" "):
            return "remainder (definition) changed"
    if o["kind"] == "fatal-reparse":
        return "re-parsing the formatted header died"
    valid_utf8 = True
    try:
        c["header"].decode("utf8")
    except UnicodeDecodeError:
        valid_utf8 = False
    if o.get("hkind") == "ok" and valid_utf8:
        # full strength: whatever title line the header parser accepted, its formatted header re-parses to the same annotations
        if o.get("henc2") != o.get("henc"):
            return "re-parsing the formatted header of an accepted title line changed it: %r -> %r" % (unb64(o.get("henc", "")), unb64(o.get("henc2", "")))
    if c.get("strict"):
        if o.get("hkind") != "ok":
            return "the header parser died on a well-formed JSON title line"
        def value_of(b):
            try:
                return json.loads(b.decode("utf8")) if b else {}
            except Exception:
                return "unparsable: %r" % b
        if "expect" in c and not same(value_of(unb64(o.get("henc", ""))), value_of(c["expect"])):
            return "annotations read from a free-style JSON title line differ from its content: %r instead of %r" % (unb64(o.get("henc", "")), c["expect"])
        if "expect" in c and c["header"].startswith(b"{") and not same(value_of(unb64(o.get("genc", ""))), value_of(c["expect"])):
            return "guessed parser: annotations differ from the JSON parser's on a title line starting with a brace"
    if o["kind"] == "ok" and o.get("ann2") is not None and o.get("ann") not in (None, "{}"):
        if not same(json.loads(o["ann2"]), json.loads(o["ann"])) or unb64(o.get("rest2", "")) != b"":
            return "re-parsing the formatted header changed the annotations"
    return None


def oracle_enc(c, o):
    if o["kind"] != "ok":
        return "encoder failed"
    if not c.get("outside") and o.get("enc2") != o.get("enc"):
        # decoder/encoder pair on one value inside the claim: what go-json reads back is written identically
        return "value %r is not a fixed point of read-then-write: %r -> %r" % (c["val"], unb64(o["enc"]), unb64(o.get("enc2", "")))
    return None


# ---------------------------------------------------------------- correspondence (Gallina rendering)
IMPORTS = ("From Coq Require Import NArith ZArith List. Import ListNotations. Open Scope N_scope.\n"
           "From OBI.C02 Require Import Model.")


IMPORTS3 = IMPORTS + "\nFrom OBI.C02 Require Import Model3."


def nl(b):
    return "[" + ";".join(str(x) for x in b) + "]"


def collect_floats(v, acc):
    t = v[0]
    if t == "float":
        acc.add(v[1])
    elif t == "map":
        for x in v[1].values():
            collect_floats(x, acc)
    elif t == "list":
        for x in v[1]:
            collect_floats(x, acc)


def jterm(v, tok):
    t = v[0]
    if t == "int":
        return "JNum " + nl(str(v[1]).encode())
    if t == "float":
        return "JNum " + nl(tok[repr(v[1])])
    if t == "bool":
        return "JBool " + ("true" if v[1] else "false")
    if t == "str":
        return "JStr " + nl(v[1])
    if t == "null":
        return "JNull"
    if t == "mapint":
        return jobj({k: ("int", x) for k, x in v[1].items()}, tok)
    if t == "mapstr":
        return jobj({k: ("str", x) for k, x in v[1].items()}, tok)
    if t == "mapintstr":
        return jobj({str(k).encode(): ("str", x) for k, x in v[1].items()}, tok)
    if t == "map":
        return jobj(v[1], tok)
    if t == "ints":
        return "JArr [" + "; ".join(jterm(("int", x), tok) for x in v[1]) + "]"
    if t == "list":
        return "JArr [" + "; ".join(jterm(x, tok) for x in v[1]) + "]"
    raise ValueError(t)


def rune_len(k, i):
    """length of the valid UTF-8 sequence starting at k[i] (Go's utf8 acceptance ranges), 0 if none"""
    c = k[i]
    def cont(j):
        return j < len(k) and 0x80 <= k[j] <= 0xbf
    if 0xc2 <= c <= 0xdf:
        return 2 if cont(i + 1) else 0
    if 0xe0 <= c <= 0xef:
        lo, hi = (0xa0 if c == 0xe0 else 0x80), (0x9f if c == 0xed else 0xbf)
        return 3 if i + 2 < len(k) and lo <= k[i + 1] <= hi and cont(i + 2) else 0
    if 0xf0 <= c <= 0xf4:
        lo, hi = (0x90 if c == 0xf0 else 0x80), (0x8f if c == 0xf4 else 0xbf)
        return 4 if i + 3 < len(k) and lo <= k[i + 1] <= hi and cont(i + 2) and cont(i + 3) else 0
    return 0


def enc_key(k):
    """go-json orders the members of a map by their ENCODED key (quotes and escapes included); a byte that is not part of a
    valid UTF-8 sequence is written as the six characters \\ufffd"""
    out = bytearray(b'"')
    i = 0
    while i < len(k):
        c = k[i]
        if k[i:i + 3] in (b"\xe2\x80\xa8", b"\xe2\x80\xa9"):
            out += b"\\u2028" if k[i + 2] == 0xa8 else b"\\u2029"
            i += 3
            continue
        if c in (34, 92):
            out += bytes([92, c])
        elif c == 10:
            out += b"\\n"
        elif c == 13:
            out += b"\\r"
        elif c == 9:
            out += b"\\t"
        elif c < 32:
            out += b"\\u00%02x" % c
        elif c >= 0x80:
            n = rune_len(k, i)
            if n == 0:
                out += b"\\ufffd"
            else:
                out += k[i:i + n]
                i += n
                continue
        else:
            out.append(c)
        i += 1
    return bytes(out + b'"')


def is_utf8(b):
    try:
        b.decode("utf8")
        return True
    except UnicodeDecodeError:
        return False


def val_utf8(v):
    t = v[0]
    if t == "str":
        return is_utf8(v[1])
    if t in ("mapint",):
        return all(is_utf8(k) for k in v[1])
    if t == "mapstr":
        return all(is_utf8(k) and is_utf8(x) for k, x in v[1].items())
    if t == "mapintstr":
        return all(is_utf8(x) for x in v[1].values())
    if t == "map":
        return all(is_utf8(k) and val_utf8(x) for k, x in v[1].items())
    if t == "list":
        return all(val_utf8(x) for x in v[1])
    return True


def members(m, tok):
    return "[" + "; ".join("(%s, %s)" % (nl(k), jterm(m[k], tok)) for k in sorted(m, key=enc_key)) + "]"


def jobj(m, tok):
    return "JObj " + members(m, tok)


def wrec_term(r, fmt, tok):
    ann = dict(r["ann"])
    if r["definition"]:
        ann[b"definition"] = ("str", r["definition"])
    q = "None" if r["qual"] is None else "(Some %s)" % nl(r["qual"])
    return "mkw %s %s %s %s" % (nl(r["id"]), members(ann, tok), nl(r["seq"].lower()), q)


def prec_term(x):
    q = "None" if x.get("qual") is None else "(Some %s)" % nl(x["qual"])
    return "mkp %s %s %s %s" % (nl(unb64(x["id"])), nl(unb64(x["rawdef"])), nl(unb64(x["seq"])), q)


def zt(z):
    return "(%d)%%Z" % int(z)


def f64_term(bits):
    bits = int(bits)
    neg, e, frac = bits >> 63, (bits >> 52) & 0x7ff, bits & ((1 << 52) - 1)
    if e == 0:
        m, x = (0, 0) if frac == 0 else (frac, -1074)
    else:
        m, x = (1 << 52) + frac, e - 1075
    return "(%s, F64 %d %s)" % ("true" if neg else "false", m, zt(x))


def opt(x, f):
    return "None" if x is None else "(Some %s)" % f(x)


def gobs_terms(r, x):
    """observations of the typed getters on one re-read record, as Model3.gobs terms; which getters are rendered for a key
    depends on the type the value was written with (the model answers for every getter on every JSON value, except where it
    says NotModelled)"""
    ann = dict(r["ann"]) if r is not None else {}
    if r is not None and r["definition"]:
        ann[b"definition"] = ("str", r["definition"])
    out = []
    for tv in x.get("typed") or []:
        k = unb64(tv["k"])
        if k in SHADOWED or not is_utf8(k):
            continue
        t = ann[k][0] if k in ann else "absent"
        K = nl(k)
        want = dict(int="i f b", float="i f b", bool="i b", str="s i", mapint="im i", mapstr="sm im", ints="is i", list="is", map="im", mapintstr="ri sm", null="i",
                    absent="i f b s im sm is ri").get(t, "i").split()
        if "i" in want:
            out.append("GI %s %s" % (K, opt(tv["i"], zt)))
        if "f" in want:
            out.append("GF %s %s" % (K, opt(tv["f"], f64_term)))
        if "b" in want:
            out.append("GB %s %s" % (K, opt(tv["b"], lambda b: "true" if b else "false")))
        if "s" in want:
            out.append("GS %s %s" % (K, opt(tv["s"], lambda v: nl(unb64(v)))))
        if "im" in want:
            out.append("GIM %s %s" % (K, opt(tv["im"], lambda m: "[" + "; ".join("(%s, %s)" % (nl(a), zt(m[b64(a)])) for a in sorted((unb64(q) for q in m), key=enc_key)) + "]")))
        if "sm" in want:
            out.append("GSM %s %s" % (K, opt(tv["sm"], lambda m: "[" + "; ".join("(%s, %s)" % (nl(a), nl(unb64(m[b64(a)]))) for a in sorted((unb64(q) for q in m), key=enc_key)) + "]")))
        if "is" in want:
            out.append("GIS %s %s" % (K, opt(tv["is"], lambda l: "[" + "; ".join(zt(z) for z in l) + "]")))
        if "ri" in want:
            out.append("GRI %s %s" % (K, opt(tv["ri"], lambda m: "[" + "; ".join("(%s, %s)" % (zt(a), nl(unb64(m[a]))) for a in sorted(m, key=lambda q: enc_key(q.encode()))) + "]")))
        if tv.get("rec"):
            out += ["GCount %s" % zt(tv["rec"]["count"]), "GTaxid %s" % zt(tv["rec"]["taxid"]), "GLandmark %s" % zt(tv["rec"]["landmark"])]
    return out


def in_claim(recs, fq):
    return all(r["qual"] is None or (len(r["qual"]) in (0, len(r["seq"])) and max(r["qual"] or [0]) <= 93) for r in recs) if fq else True


def wrec3(r, fmt, tok):
    return wrec_term(dict(r, qual=r["qual"] or None), fmt, tok)


PER_RECORD_TERMS = 8       # scanner / header / typed-getter cases per batch (whole batches go through CWrite / CRead anyway)


def terms_of(c, o, tok):
    """Gallina correspondence cases of one harness case (possibly several)"""
    out = []
    if o.get("kind") == "crash":
        return out
    if c["mode"] == "read":
        fq = "true" if c["fmt"] == "fastq" else "false"
        if o["kind"] == "ok":
            out.append("CRead %s %d %s [%s]" % (fq, c["shift"], nl(c["text"]), "; ".join(prec_term(x) for x in o["recs"])))
            for x, e in zip(o["recs"], c.get("expect") or [None] * len(o["recs"])):
                g = c["parser"] == "guessed"
                d = unb64(x["rawdef"])
                if g and not (d.startswith(b"{") or d == b""):
                    continue
                out.append("CHdr %s %s %s false %s" % ("true" if g else "false", "true" if e and e.get("enc") is not None else "false", nl(d), nl(unb64(x["enc"]))))
        elif o["kind"] == "fatal":
            out.append("CReadFatal %s %d %s" % (fq, c["shift"], nl(c["text"])))
        return out
    if c["mode"] == "hist":
        dom = in_claim(c["recs"], True)
        for sh, h in zip(c["shifts"], o.get("hist") or []):
            w = unb64(h["w"])
            out.append("CWrite true %d [%s] %s %s" % (sh, "; ".join(wrec3(r, "fastq", tok) for r in c["recs"]), "true" if dom and all(r["qual"] for r in c["recs"]) else "false", nl(w)))
            if h.get("err"):
                out.append("CReadFatal true %d %s" % (sh, nl(w)))
            else:
                out.append("CRead true %d %s [%s]" % (sh, nl(w), "; ".join(prec_term(x) for x in h.get("recs") or [])))
        return out
    if c["mode"] == "file":
        if o["kind"] == "ok":
            out.append("CFile %s %s %s %d [%s] %s" % ("true" if c["fmt"] == "fastq" else "false", "true" if c.get("append") and not c.get("compress") else "false",
                                                   nl(c.get("prefill", b"")), c.get("batch_size", 2), "; ".join(wrec3(r, c["fmt"], tok) for r in c["recs"]), nl(unb64(o["file"]))))
        return out
    if c["mode"] == "rt" and c.get("expect_fatal"):
        if o["kind"] == "fatal":
            out.append("CWriteFatal %s %d [%s]" % ("true" if c["fmt"] == "fastq" else "false", c["shift"], "; ".join(wrec3(r, c["fmt"], tok) for r in c["recs"])))
        return out
    if c["mode"] == "enc" and o["kind"] == "ok":
        out.append("CSer (%s) %s %s" % (jterm(c["val"], tok), "true" if val_utf8(c["val"]) else "false", nl(unb64(o["enc"]))))
        if o.get("enc2") and not unb64(o["enc2"]).startswith(b"!"):
            out.append("CDec %s %s" % (nl(unb64(o["enc"])), nl(unb64(o["enc2"]))))
    elif c["mode"] == "scan":
        found = o["kind"] == "ok" and o["start"] >= 0 and o["stop"] >= 0
        out.append("CScan %s (%d)%%Z (%d)%%Z %s %s" % (nl(c["header"]), o["start"], o["stop"], "true" if found else "false", nl(unb64(o.get("rest", "")) if found else b"")))
        if "objbytes" in c:
            out.append("CSer (%s) true %s" % (jobj(c["obj"], tok), nl(c["objbytes"])))
        strict = "true" if c.get("strict") or ("objbytes" in c and not c["pre"]) else "false"
        modelled = True               # (round 2: invalid UTF-8 is inside the model: the marshaller writes \\ufffd)
        for g, kk, ee in (("false", "hkind", "henc"), ("true", "gkind", "genc")):
            if g == "true" and not (c["header"].startswith(b"{") or c["header"] == b""):
                continue              # guessed parser on a title not starting with a brace: OBI-style parser, not modelled
            if modelled and o.get(kk) in ("ok", "fatal"):
                out.append("CHdr %s %s %s %s %s" % (g, strict if g == "false" or c["header"].startswith(b"{") else "false", nl(c["header"]),
                                                   "true" if o[kk] == "fatal" else "false", nl(unb64(o.get(ee, "")))))
    elif c["mode"] == "rt" and o.get("w1"):
        fq = "true" if c["fmt"] == "fastq" else "false"
        w1 = unb64(o["w1"])
        dom = all(r["qual"] and max(r["qual"]) <= 93 for r in c["recs"]) if c["fmt"] == "fastq" else True
        if c.get("skip_empty"):
            out.append("CWriteSkip %s %d [%s] %s" % (fq, c["shift"], "; ".join(wrec3(r, c["fmt"], tok) for r in c["recs"]), nl(w1)))
        else:
            out.append("CWrite %s %d [%s] %s %s" % (fq, c["shift"], "; ".join(wrec3(r, c["fmt"], tok) for r in c["recs"]), "true" if dom else "false", nl(w1)))
        if o["kind"] == "ok" and c["fmt"] == "fastq" and c.get("shift2") and c["shift2"] != c["shift"] and dom and not c.get("skip_empty"):
            # the same records written with the other quality offset
            out.append("CWrite true %d [%s] true %s" % (c["shift2"], "; ".join(wrec_term(r, c["fmt"], tok) for r in c["recs"]), nl(unb64(o["w2"]))))
        if o["kind"] == "ok":
            kept = [r for r in c["recs"] if r["seq"]] if c.get("skip_empty") else c["recs"]
            if len(kept) == len(o["recs"]):
                for r, x in list(zip(kept, o["recs"]))[:PER_RECORD_TERMS]:
                    g = gobs_terms(r, x)
                    if g:
                        out.append("CTyped %s %s [%s]" % ("true" if c["parser"] == "guessed" else "false", nl(unb64(x["rawdef"])), "; ".join(g)))
        if o["kind"] == "ok":
            # the chunk parser's view (qualities only exist for fastq)
            out.append("CRead %s %d %s [%s]" % (fq, c["shift"], nl(w1), "; ".join(prec_term(x) for x in o["recs"])))
            for x in o["recs"][:PER_RECORD_TERMS]:
                if x["start"] != -2:
                    out.append("CScan %s (%d)%%Z (%d)%%Z false []" % (nl(unb64(x["rawdef"])), x["start"], x["stop"]))
                if x.get("enc") is not None:
                    # the header parser of the model (map decoder, float64 number path) on what the chunk parser returned
                    out.append("CHdr %s true %s false %s" % ("true" if c["parser"] == "guessed" else "false", nl(unb64(x["rawdef"])), nl(unb64(x["enc"]))))
    return out


def float_tokens(ctx, cases):
    acc = set()
    for c in cases:
        if c["mode"] == "enc":
            collect_floats(c["val"], acc)
        elif c["mode"] == "scan" and "obj" in c:
            collect_floats(("map", c["obj"]), acc)
        elif c["mode"] in ("rt", "hist", "file"):
            for r in c["recs"]:
                collect_floats(("map", r["ann"]), acc)
    fl = sorted(acc)
    enc = ctx.vh_robust("c02", [dict(mode="enc", val=val_vh(("float", x))) for x in fl], timeout=300, one_timeout=10)
    return {repr(x): (unb64(e["enc"]) if e.get("kind") == "ok" else b"?") for x, e in zip(fl, enc)}


def correspond(ctx, cases, obs, broken, label):
    tok = float_tokens(ctx, cases)
    terms, owner = [], []
    for i, (c, o) in enumerate(zip(cases, obs)):
        for t in terms_of(c, o, tok):
            terms.append(t)
            owner.append(i)
    # batches and chunk-parser cases are heavy (long byte lists): small shards; everything else: few big shards
    new3 = ("CTyped", "CReadFatal", "CWriteFatal", "CWriteSkip", "CFile")
    big = [j for j, t in enumerate(terms) if len(t) > 60000]          # one case per file: very long literal lists
    third = [j for j, t in enumerate(terms) if t.startswith(new3) and j not in big]
    heavy = [j for j, t in enumerate(terms) if t.startswith(("CWrite", "CRead", "CDec")) and not t.startswith(new3) and j not in big]
    light = [j for j, t in enumerate(terms) if not t.startswith(("CWrite", "CRead", "CDec")) and not t.startswith(new3) and j not in big]
    out = []
    groups = [(label + "h", heavy, 60, "mismatches"), (label + "l", light, 250, "mismatches"), (label + "t", third, 100, "mismatches3"),
              (label + "b", [j for j in big if not terms[j].startswith(new3)], 1, "mismatches"), (label + "c", [j for j in big if terms[j].startswith(new3)], 1, "mismatches3")]
    for sub, idx, shard, fn in groups:
        if not idx:
            continue
        bad, err = ctx.correspond(sub, IMPORTS3 if fn == "mismatches3" else IMPORTS, [terms[j] for j in idx], fn=fn, shard=shard)
        if bad is None:
            broken.append(dict(kind="correspondence", detail=err))
            return []
        out += [idx[j] for j in bad]
    return [(owner[j], terms[j].split(" ")[0]) for j in sorted(out)]


def nontrivial(c):
    if c["mode"] == "read":
        return True
    if c["mode"] in ("rt", "hist", "file"):
        return any(r["ann"] or len(r["seq"]) > 60 for r in c["recs"])
    if c["mode"] == "scan":
        return any(ch in c["header"] for ch in b'{"\\')
    return True


def case_key(c):
    return json.dumps(to_vh(c), sort_keys=True)


def shrink_candidates(c):
    """smaller variants of a failing case (one structural step each)"""
    if c["mode"] == "scan":
        h = c["header"]
        for k in range(len(h)):
            yield dict(mode="scan", header=h[:k] + h[k + 1:])
        return
    if c["mode"] != "rt":
        return
    recs = c["recs"]

    def with_rec(i, r):
        return dict(c, recs=recs[:i] + [r] + recs[i + 1:])
    if len(recs) > 1:
        for i in range(len(recs)):
            yield dict(c, recs=recs[:i] + recs[i + 1:])
    for i, r in enumerate(recs):
        if len(r["seq"]) > 1:
            yield with_rec(i, dict(r, seq=r["seq"][:1], qual=r["qual"][:1] if r["qual"] else r["qual"]))
        if r["definition"]:
            yield with_rec(i, dict(r, definition=b""))
        if len(r["id"]) > 1:
            yield with_rec(i, dict(r, id=b"x"))
        for k, v in r["ann"].items():
            rest = {a: b for a, b in r["ann"].items() if a != k}
            yield with_rec(i, dict(r, ann=rest))
            if len(k) > 1:
                for kk in (k[:len(k) // 2], k[len(k) // 2:]):
                    if kk not in rest:
                        yield with_rec(i, dict(r, ann={**rest, kk: v}))
            if v[0] == "str" and len(v[1]) > 1:
                for j in range(len(v[1])):
                    yield with_rec(i, dict(r, ann={**rest, k: ("str", v[1][:j] + v[1][j + 1:])}))
            if v[0] == "map":
                for x in v[1].values():
                    yield with_rec(i, dict(r, ann={**rest, k: x}))
            if v[0] == "list":
                for x in v[1]:
                    yield with_rec(i, dict(r, ann={**rest, k: x}))
            if v[0] in ("mapstr",):
                for a, x in v[1].items():
                    yield with_rec(i, dict(r, ann={**rest, k: ("str", a + x)}))
            if v[0] in ("mapint",):
                for a in v[1]:
                    yield with_rec(i, dict(r, ann={**rest, k: ("str", a)}))


def shrink(ctx, c, fails):
    """greedy delta debugging on the case structure, re-running the real code after each step"""
    if "obj" in c:
        return c
    for _ in range(60):
        cands = list(shrink_candidates(c))[:400]
        if not cands:
            break
        obs = ctx.vh_robust("c02", [to_vh(x) for x in cands], timeout=120, one_timeout=10)
        nxt = next((x for x, o in zip(cands, obs) if o.get("kind") != "crash" and fails(x, o)), None)
        if nxt is None:
            break
        c = nxt
    return c


ORACLES = dict(rt=oracle_rt, scan=oracle_scan, enc=oracle_enc, read=oracle_read, hist=oracle_hist, file=oracle_file)


def run_cases(ctx, cases, broken, label, correspond_too=True):
    # pass 1: serialise the objects of structured scan cases with the real encoder (their header is obj ++ rest)
    idx = [i for i, c in enumerate(cases) if c["mode"] == "scan" and "obj" in c and "header" not in c]
    if idx:
        enc = ctx.vh_robust("c02", [dict(mode="enc", val=val_vh(("map", cases[i]["obj"]))) for i in idx], timeout=300, one_timeout=10)
        for i, e in zip(idx, enc):
            ob = unb64(e["enc"]) if e.get("kind") == "ok" else b"{}"
            cases[i]["objbytes"] = ob
            cases[i]["header"] = cases[i]["pre"] + ob + cases[i]["rest"]
    import time
    t0 = time.time()
    obs = ctx.vh_robust("c02", [to_vh(c) for c in cases], timeout=600, one_timeout=10)
    ctx.cov.setdefault("timing_s", {})[label + "_harness"] = round(time.time() - t0, 1)
    nviol = 0
    for i, (c, o) in enumerate(zip(cases, obs)):
        why = ORACLES[c["mode"]](c, o) if o.get("kind") != "crash" else "harness crashed"
        if why:
            nviol += 1
            if nviol <= 3:
                orc = ORACLES[c["mode"]]
                small = shrink(ctx, c, lambda x, y: orc(x, y) is not None) if o.get("kind") != "crash" else c
                so = ctx.vh_robust("c02", [to_vh(small)], timeout=60, one_timeout=10)[0]
                ctx.violation("%s_oracle_%d" % (label, i), dict(property="C02", kind="direct-oracle", why=orc(small, so) or why, case=to_vh(small), tag=c.get("tag"),
                                                              readable=readable(small), implementation=so, before_shrinking=to_vh(c) if small is not c else None))
    t0 = time.time()
    mism = correspond(ctx, cases, obs, broken, label) if correspond_too else []
    ctx.cov.setdefault("timing_s", {})[label + "_coq"] = round(time.time() - t0, 1)
    return obs, mism


def readable(c):
    if c["mode"] == "scan":
        return dict(header=c["header"].decode("utf8", "replace"))
    if c["mode"] == "enc":
        return dict(val=repr(c["val"]))
    if c["mode"] == "read":
        return dict(fmt=c["fmt"], shift=c["shift"], parser=c["parser"], defect=c.get("why"), text=c["text"].decode("utf8", "replace")[:400])
    return dict(mode=c["mode"], fmt=c.get("fmt"), shift=c.get("shift"), shifts=c.get("shifts"), parser=c.get("parser"), skip_empty=c.get("skip_empty"),
                append=c.get("append"), compress=c.get("compress"), batch_size=c.get("batch_size"),
                recs=[dict(id=r["id"].decode("utf8", "replace"), seq=r["seq"].decode(), ann=repr(r["ann"])) for r in c["recs"]])


def val_from_vh(d):
    t = d["t"]
    if t == "int":
        return ("int", int(d["v"]))
    if t == "float":
        return ("float", float(d["v"]))
    if t == "bool":
        return ("bool", bool(d.get("b", False)))
    if t == "str":
        return ("str", unb64(d.get("s", "")))
    if t == "null":
        return ("null",)
    if t == "mapint":
        return ("mapint", {unb64(k): int(x["v"]) for k, x in d.get("m", {}).items()})
    if t == "mapstr":
        return ("mapstr", {unb64(k): unb64(x.get("s", "")) for k, x in d.get("m", {}).items()})
    if t == "ints":
        return ("ints", [int(x["v"]) for x in d.get("l", [])])
    if t == "mapintstr":
        return ("mapintstr", {int(unb64(k)): unb64(x.get("s", "")) for k, x in d.get("m", {}).items()})
    if t == "map":
        return ("map", {unb64(k): val_from_vh(x) for k, x in d.get("m", {}).items()})
    if t == "list":
        return ("list", [val_from_vh(x) for x in d.get("l", [])])
    raise ValueError(t)


def from_vh(c):
    if c["mode"] == "scan":
        d = dict(mode="scan", header=unb64(c["header"]))
        if c.get("strict"):
            d["strict"] = True
            if "expect" in c:
                d["expect"] = unb64(c["expect"])
        return d
    if c["mode"] == "enc":
        return dict(mode="enc", val=val_from_vh(c["val"]))
    if c["mode"] == "read":
        return dict(mode="read", fmt=c["fmt"], shift=c["shift"], parser=c["parser"], text=unb64(c["text"]), expect=c.get("x_expect"), why=c.get("x_why"))
    recs = [dict(id=unb64(r["id"]), definition=unb64(r.get("def", "")), seq=unb64(r["seq"]), qual=r.get("qual"), build=r.get("build", ""),
                 ann={unb64(k): val_from_vh(v) for k, v in r.get("ann", {}).items()}) for r in c["recs"]]
    if c["mode"] == "hist":
        return dict(mode="hist", shifts=c["shifts"], recs=recs)
    if c["mode"] == "file":
        return dict(mode="file", fmt=c["fmt"], parser=c["parser"], batch_size=c.get("batch_size", 2), workers=c.get("workers", 2), append=c.get("append", False),
                    compress=c.get("compress", False), prefill=unb64(c.get("prefill", "")), recs=recs)
    return dict(mode="rt", fmt=c["fmt"], shift=c["shift"], shift2=c.get("shift2", 0), parser=c["parser"], skip_empty=c.get("skip_empty", False),
                expect_fatal=c.get("x_expect_fatal", False), recs=recs)


def cli_stage(ctx, cases, obs, broken):
    """End to end on the built command: the text written by FormatFasta/FastqBatch for all rt cases (offset 33), fed to
    `obiconvert` (default = guessed header parser, and --input-json-header), must come out byte-identical."""
    import vlib
    bindir, err = ctx.build_cmds(["obiconvert", "obigrep"])
    if bindir is None:
        broken.append(dict(kind="cmd-build", detail=err))
        return
    exe = os.path.join(bindir, "obiconvert")
    n = 0
    for fmt in ("fasta", "fastq"):
        text = b"".join(unb64(o["w1"]) for c, o in zip(cases, obs) if c["mode"] == "rt" and c["fmt"] == fmt and c["shift"] == 33 and o.get("w1"))
        if not text:
            continue
        path = os.path.join(vlib.BUILD, "c02_cli_%s_in.%s" % (ctx.tier, fmt))
        with open(path, "wb") as f:
            f.write(text)
        for flags in ([], ["--input-json-header"]):
            try:
                p = subprocess.run([exe] + flags + [path], capture_output=True, timeout=300)
                rc, out = p.returncode, p.stdout
            except subprocess.TimeoutExpired:
                rc, out = 124, b""
            n += 1
            if rc != 0 or out != text:
                first = next((k for k, (a, b) in enumerate(zip(out.split(b"\n"), text.split(b"\n"))) if a != b), None)
                ctx.violation("cli_%s_%s" % (fmt, "json" if flags else "guessed"),
                              dict(property="C02", kind="cli", why="obiconvert %s of text written by the toolkit: exit %d, output %s" % (
                                  " ".join(flags), rc, "identical" if out == text else "differs (first differing line %s)" % first),
                                   input_b64=b64(text), cmd=[exe] + flags + [path]))
    # FASTQ written with offset 64 read with --solexa: must come out as the offset-33 text of the same records
    sel = [(unb64(o["w1"]), unb64(o["w2"])) for c, o in zip(cases, obs) if c["mode"] == "rt" and c["fmt"] == "fastq" and c["shift"] == 64 and c.get("shift2") == 33
           and o.get("kind") == "ok" and all(r["qual"] and max(r["qual"]) <= 93 for r in c["recs"])]
    if sel:
        text64, text33 = b"".join(a for a, _ in sel), b"".join(b for _, b in sel)
        path = os.path.join(vlib.BUILD, "c02_cli_%s_in64.fastq" % ctx.tier)
        with open(path, "wb") as f:
            f.write(text64)
        for flags in (["--solexa"], ["--solexa", "--input-json-header"]):
            try:
                p = subprocess.run([exe] + flags + [path], capture_output=True, timeout=300)
                rc, out = p.returncode, p.stdout
            except subprocess.TimeoutExpired:
                rc, out = 124, b""
            n += 1
            if rc != 0 or out != text33:
                first = next((k for k, (a, b) in enumerate(zip(out.split(b"\n"), text33.split(b"\n"))) if a != b), None)
                ctx.violation("cli_fastq_solexa_%s" % ("json" if len(flags) > 1 else "guessed"),
                              dict(property="C02", kind="cli", why="obiconvert %s of FASTQ written with quality offset 64: exit %d, output %s the offset-33 text of the same records" % (
                                  " ".join(flags), rc, "is" if out == text33 else "differs (first differing line %s) from" % first),
                                   input_b64=b64(text64), expected_b64=b64(text33), cmd=[exe] + flags + [path]))
        ctx.cov["cli_solexa_records"] = sum(a.count(b"\n") // 4 for a, _ in sel)
    ctx.cov["cli_roundtrips"] = n
    # round 3: the command-level glue (explicit formats, output file, stdin, compression, paired files, several files,
    # worker / batch options, inputs beyond the 1 MiB read buffer), always against the text judged in process
    jobs = []
    for fmt in ("fasta", "fastq"):
        texts = [unb64(o["w1"]) for c, o in zip(cases, obs) if c["mode"] == "rt" and c["fmt"] == fmt and c["shift"] == 33 and o.get("w1") and o.get("kind") == "ok"]
        if texts:
            jobs += cli_jobs(fmt, texts)
    ran = {}
    for job in jobs:
        why = cli_run_job(bindir, job, os.path.join(vlib.BUILD, "c02_cli3_%s" % ctx.tier))
        ran[job["name"]] = "ok" if why is None else why
        if why:
            ctx.violation("cli_" + job["name"], dict(property="C02", kind="cli3", why=why, exe=bindir, job=job_to_json(job)))
    ctx.cov["cli_glue"] = ran


def records_of(fmt, text):
    if fmt == "fastq":
        lines = text.split(b"\n")
        return sorted(b"\n".join(lines[i:i + 4]) for i in range(0, len(lines) - 1, 4))
    return sorted(x if x.startswith(b">") else b">" + x for x in text.rstrip(b"\n").split(b"\n>")) if text else []


def cli_jobs(fmt, texts):
    """declarative command-line jobs: inputs (name -> (bytes, times)), steps (argument lists, optional stdin file),
    expectations on the last stdout and on files (exact bytes, or the same records in any order)"""
    T = b"".join(texts)
    A, B = b"".join(texts[:len(texts) // 2]), b"".join(texts[len(texts) // 2:])
    k = (2600000 // max(1, len(T))) + 1
    ext = "." + fmt
    J = lambda name, inputs, steps, cmd="obiconvert", **exp: dict(name="%s_%s" % (fmt, name), fmt=fmt, cmd=cmd, inputs=inputs, steps=steps, expect=exp)
    one = {"in" + ext: (T, 1)}
    return [
        J("explicit-formats-to-file", one, [(["--" + fmt, "--" + fmt + "-output", "--out", "out" + ext, "in" + ext], None)], files={"out" + ext: (T, 1)}, stdout=(b"", 1)),
        J("explicit-formats-to-stdout", one, [(["--" + fmt, "--" + fmt + "-output", "--output-json-header", "in" + ext], None)], stdout=(T, 1)),
        J("stdin", one, [([], "in" + ext)], stdout=(T, 1)),
        J("stdin-explicit", one, [(["--" + fmt, "--input-json-header", "--" + fmt + "-output"], "in" + ext)], stdout=(T, 1)),
        J("compress-then-read", one, [(["--compress", "--out", "out" + ext + ".gz", "in" + ext], None), (["out" + ext + ".gz"], None)], gunzip={"out" + ext + ".gz": (T, 1)}, stdout=(T, 1)),
        J("paired", {"r1" + ext: (T, 1), "r2" + ext: (T, 1)}, [(["--paired-with", "r2" + ext, "--" + fmt + "-output", "--out", "out" + ext, "r1" + ext], None)],
          files={"out_R1" + ext: (T, 1), "out_R2" + ext: (T, 1)}),
        # (a file named twice is read once: the list of input files is a set; hence three files)
        J("paired-guessed-format", {"r1" + ext: (T, 1), "r2" + ext: (T, 1)}, [(["--paired-with", "r2" + ext, "--out", "out" + ext, "r1" + ext], None)],
          files={"out_R1" + ext: (T, 1), "out_R2" + ext: (T, 1)}),
        J("several-files", {"a" + ext: (A, 1), "b" + ext: (B, 1), "c" + ext: (A, 1)}, [(["--max-cpu", "4", "a" + ext, "b" + ext, "c" + ext], None)], stdout_records=(A + B + A, 1)),
        J("no-order", one, [(["--no-order", "in" + ext], None)], stdout_records=(T, 1)),
        J("force-one-cpu", one, [(["--force-one-cpu", "in" + ext], None)], stdout=(T, 1)),
        J("max-cpu-1-batch-size-1", one, [(["--max-cpu", "1", "--batch-size", "1", "in" + ext], None)], stdout=(T, 1)),
        J("max-cpu-8-batch-size-7", one, [(["--max-cpu", "8", "--batch-size", "7", "in" + ext], None)], stdout=(T, 1)),
        J("beyond-the-read-buffer", {"big" + ext: (T, k)}, [(["big" + ext], None)], stdout=(T, k)),
        J("beyond-the-read-buffer-to-file", {"big" + ext: (T, k)}, [(["--" + fmt, "--" + fmt + "-output", "--batch-size", "100", "--out", "out" + ext, "big" + ext], None)], files={"out" + ext: (T, k)}),
        J("output-file-truncated", {"big" + ext: (T, 3), "small" + ext: (A or T, 1)}, [(["--out", "out" + ext, "big" + ext], None), (["--out", "out" + ext, "small" + ext], None)],
          files={"out" + ext: (A or T, 1)}),
        J("empty-input", {"empty" + ext: (b"", 1)}, [(["empty" + ext], None)], stdout=(b"", 1)),
        J("empty-input-explicit-format", {"empty" + ext: (b"", 1)}, [(["--" + fmt, "empty" + ext], None)], stdout=(b"", 1)),
        # obiconvert pins its reader / writer worker numbers; a command that does not (obigrep without any criterion passes every
        # record) runs the computed numbers of CLIReadParallelWorkers / CLIWriteParallelWorkers
        J("obigrep-everything", one, [(["in" + ext], None)], cmd="obigrep", stdout=(T, 1)),
        J("obigrep-everything-force-one-cpu", one, [(["--force-one-cpu", "in" + ext], None)], cmd="obigrep", stdout=(T, 1)),
        J("obigrep-everything-max-cpu-3-to-file", one, [(["--max-cpu", "3", "--out", "out" + ext, "in" + ext], None)], cmd="obigrep", files={"out" + ext: (T, 1)}),
    ]


def job_to_json(job):
    enc = lambda v: dict(b64=b64(v[0]), times=v[1])
    return dict(name=job["name"], fmt=job["fmt"], cmd=job.get("cmd", "obiconvert"), inputs={k: enc(v) for k, v in job["inputs"].items()}, steps=[[a, i] for a, i in job["steps"]],
                expect={k: (enc(v) if isinstance(v, tuple) else {f: enc(x) for f, x in v.items()}) for k, v in job["expect"].items()})


def job_from_json(j):
    dec = lambda d: (unb64(d["b64"]), d["times"])
    return dict(name=j["name"], fmt=j["fmt"], cmd=j.get("cmd", "obiconvert"), inputs={k: dec(v) for k, v in j["inputs"].items()}, steps=[(a, i) for a, i in j["steps"]],
                expect={k: (dec(v) if "b64" in v else {f: dec(x) for f, x in v.items()}) for k, v in j["expect"].items()})


def cli_run_job(bindir, job, workdir):
    import shutil, gzip
    exe = os.path.join(bindir, job.get("cmd", "obiconvert"))
    d = os.path.join(workdir, job["name"])
    shutil.rmtree(d, ignore_errors=True)
    os.makedirs(d)
    for name, (data, times) in job["inputs"].items():
        with open(os.path.join(d, name), "wb") as f:
            f.write(data * times)
    out = b""
    for args, stdin in job["steps"]:
        try:
            with (open(os.path.join(d, stdin), "rb") if stdin else open(os.devnull, "rb")) as fin:
                p = subprocess.run([exe] + args, stdin=fin, capture_output=True, timeout=300, cwd=d)
        except subprocess.TimeoutExpired:
            return "obiconvert %s: no answer within 300 s" % " ".join(args)
        if p.returncode != 0:
            return "obiconvert %s: exit %d (%s)" % (" ".join(args), p.returncode, p.stderr.decode("utf8", "replace")[-200:])
        out = p.stdout

    def differs(got, want, what):
        if got != want:
            first = next((k for k, (a, b) in enumerate(zip(got.split(b"\n"), want.split(b"\n"))) if a != b), None)
            return "obiconvert %s: %s differs from the text written in process (%d bytes instead of %d, first differing line %s)" % (
                " ; ".join(" ".join(a) for a, _ in job["steps"]), what, len(got), len(want), first)
        return None
    e = job["expect"]
    why = None
    if "stdout" in e:
        why = why or differs(out, e["stdout"][0] * e["stdout"][1], "standard output")
    if "stdout_records" in e and not why:
        if records_of(job["fmt"], out) != records_of(job["fmt"], e["stdout_records"][0] * e["stdout_records"][1]):
            why = "obiconvert %s: the records on standard output are not the records written in process" % " ".join(job["steps"][-1][0])
    for name, (data, times) in e.get("files", {}).items():
        if why:
            break
        path = os.path.join(d, name)
        why = differs(open(path, "rb").read(), data * times, "file " + name) if os.path.exists(path) else "obiconvert %s: no file %s" % (" ".join(job["steps"][-1][0]), name)
    for name, (data, times) in e.get("gunzip", {}).items():
        if why:
            break
        path = os.path.join(d, name)
        try:
            why = differs(gzip.open(path, "rb").read(), data * times, "decompressed file " + name)
        except Exception as ex:
            why = "obiconvert --compress: %s is not a readable gzip file (%r)" % (name, ex)
    if not why:
        shutil.rmtree(d, ignore_errors=True)
    return why


SEARCH_SIZES = (3000, 6000, 0, 600, 60, 20) if not os.environ.get("VERIF_C02_SEARCH") else (300, 300, 0, 100, 10, 5)     # (small search: mutation testing aid)


def concurrent_formatting(ctx):
    """the record formatters used by several goroutines at once, as the writers do (vh c02conc): every text must be the one
    computed sequentially"""
    cs = [dict(workers=w, records=600 if ctx.quick else 4000, rounds=3 if ctx.quick else 6, seed=ctx.rng.randrange(1 << 30)) for w in ((8, 32) if ctx.quick else (2, 8, 32, 64))]
    nform = 0
    for c in cs:
        o = ctx.vh_robust("c02conc", [c], timeout=300)[0]
        nform += o.get("formatted", 0)
        if o.get("kind") != "ok" or o.get("wrong"):
            ctx.violation("concurrent_format_%d" % c["workers"], dict(property="C02", kind="concurrent-formatting", case=c, implementation=o,
                          expected="every record formatted by %d goroutines at once is written with its own title line, annotations, nucleotides and scores" % c["workers"],
                          how_to_replay="python3 tools/check.py C02 --replay <this file>"))
            break
    ctx.cov["concurrent_formatting"] = dict(cases=len(cs), texts_formatted=nform)


def run(ctx, broken):
    n_rt, n_scan, n_enc = (220, 400, 150) if ctx.quick else (5000, 12000, 3000)
    n_read, n_hist, n_file = (90, 12, 14) if ctx.quick else (3000, 300, 150)
    cases = gen_cases(ctx, n_rt, n_scan, n_enc, n_read, n_hist, n_file)
    scope = 4 if ctx.quick else 6
    ex = exhaustive_scan_cases(scope)
    cases += ex
    ctx.cov["exhaustive"] = "scanner vs model on every string over { } \" \\ a of length <= %d (%d strings)" % (scope, len(ex))
    obs, mism = run_cases(ctx, cases, broken, "main")
    concurrent_formatting(ctx)
    ctx.cov["evaluations"] = len(cases)
    ctx.cov["distinct_nontrivial"] = len({case_key(c) for c in cases if nontrivial(c)})
    ctx.cov["rule"] = ("rt: records written and re-read (non-trivial = some annotation or a sequence longer than one 60-column line); "
                       "scan: title-line remainders through _parse_json_header_ and both header parsers, free-style JSON included (non-trivial = contains a brace, quote or backslash); "
                       "enc: single values through the marshaller and back through go-json; distinct = distinct harness input")
    ctx.cov["free_style_title_lines"] = sum(1 for c in cases if c.get("strict") and "expect" in c)
    dist = {}
    for c, o in zip(cases, obs):
        k = "%s/%s/%s" % (c["mode"], c.get("fmt", "-"), o.get("kind"))
        dist[k] = dist.get(k, 0) + 1
    ctx.cov["distribution"] = dist
    recs = [r for c in cases if c["mode"] in ("rt", "hist", "file") for r in c["recs"]]
    vals = [(k, v) for r in recs for k, v in r["ann"].items()]
    hist_steps = [(sh, h) for c, o in zip(cases, obs) if c["mode"] == "hist" for sh, h in zip(c["shifts"], o.get("hist") or [])]
    ctx.cov["round3_distribution"] = dict(
        construction_paths={b or "new": sum(1 for r in recs if r.get("build", "") == b) for b in sorted(set(BUILDS))},
        value_types={t: sum(1 for _, v in vals if v[0] == t) for t in sorted({v[0] for _, v in vals})},
        own_annotation_keys={k.decode(): sum(1 for kk, _ in vals if kk == k) for k in (b"count", b"taxid", b"landmark_id", b"landmark_coord", b"obitag_ref_index", b"obitag_geomref_index", b"id", b"sequence", b"qualities")},
        strings_ending_with_backslash=sum(1 for r in recs if any(x.endswith(b"\\") for x in [r["definition"]] + [v[1] for v in r["ann"].values() if v[0] == "str"] + list(r["ann"]))),
        fastq_records_without_qualities=sum(1 for c in cases if c["mode"] == "rt" and c["fmt"] == "fastq" for r in c["recs"] if not r["qual"]),
        batches_with_an_empty_record=dict(skip=sum(1 for c in cases if c.get("skip_empty")), refused=sum(1 for c in cases if c.get("expect_fatal"))),
        records_per_batch_max=max(len(c["recs"]) for c in cases if c["mode"] == "rt"), longest_sequence=max(len(r["seq"]) for r in recs),
        longest_title_line=max(len(unb64(x["rawdef"])) for c, o in zip(cases, obs) if c["mode"] == "rt" for x in o.get("recs") or []),
        typed_views=sum(len(x.get("typed") or []) for c, o in zip(cases, obs) if c["mode"] == "rt" for x in o.get("recs") or []),
        foreign_texts=dict(well_formed=sum(1 for c in cases if c["mode"] == "read" and not c.get("why")),
                           defects={w: sum(1 for c in cases if c["mode"] == "read" and c.get("why") == w) for w in sorted(set(BAD_FASTA + BAD_FASTQ))},
                           refused=sum(1 for c, o in zip(cases, obs) if c["mode"] == "read" and o.get("kind") == "fatal")),
        offset_histories=dict(cases=sum(1 for c in cases if c["mode"] == "hist"), steps=len(hist_steps), offsets=sorted({sh for sh, _ in hist_steps}),
                              steps_outside_14_172=sum(1 for sh, _ in hist_steps if not shift_in_domain(sh)),
                              outside_and_reader_died_or_changed=sum(1 for sh, h in hist_steps if not shift_in_domain(sh) and h.get("err"))),
        files=dict(cases=sum(1 for c in cases if c["mode"] == "file"), append=sum(1 for c in cases if c["mode"] == "file" and c.get("append")),
                   compressed=sum(1 for c in cases if c["mode"] == "file" and c.get("compress")),
                   batch_sizes=sorted({c.get("batch_size") for c in cases if c["mode"] == "file"})),
        int_nature=dict(note="outside the property (numbers are compared by value): an integer attribute is a float64 after the read (dead store in _parse_json_header_); "
                             "GetStringAttribute / fmt.Sprint show it from 1e6 on (1000000 -> 1e+06); the written text is the same",
                        string_view_changed=sum(1 for c, o in zip(cases, obs) if c["mode"] == "rt" and o.get("typed0") and len(o["typed0"]) == len(o.get("recs") or [])
                                                for t0, x in zip(o["typed0"], o["recs"]) for a, b in zip(t0, x.get("typed") or []) if a["k"] == b["k"] and a.get("i") is not None and a.get("s") != b.get("s"))))

    def blob_of(v):
        t = v[0]
        if t == "str":
            return v[1]
        if t in ("mapint",):
            return b"".join(v[1].keys())
        if t == "mapstr":
            return b"".join(k + x for k, x in v[1].items())
        if t == "mapintstr":
            return b"".join(v[1].values())
        if t == "map":
            return b"".join(k + blob_of(x) for k, x in v[1].items())
        if t == "list":
            return b"".join(blob_of(x) for x in v[1])
        return b""

    def blob(r):
        return blob_of(("map", r["ann"])) + r["id"] + r["definition"]

    def has(r, chars):
        b = blob(r)
        return any(ch in b for ch in chars)
    ctx.cov["record_distribution"] = dict(
        records=len(recs), seq_len_multiple_of_60=sum(1 for r in recs if len(r["seq"]) % 60 == 0), seq_len_over_60=sum(1 for r in recs if len(r["seq"]) > 60),
        seq_len_1=sum(1 for r in recs if len(r["seq"]) == 1), with_quote_or_backslash=sum(1 for r in recs if has(r, b'"\\')),
        with_brace=sum(1 for r in recs if has(r, b"{}")), with_non_ascii=sum(1 for r in recs if any(x > 127 for x in blob(r))),
        with_definition=sum(1 for r in recs if r["definition"]), without_annotation=sum(1 for r in recs if not r["ann"] and not r["definition"]),
        quality_0_or_93=sum(1 for r in recs if r["qual"] and (0 in r["qual"] or 93 in r["qual"])),
        shifts={str(k): sum(1 for c in cases if c["mode"] == "rt" and c["fmt"] == "fastq" and c["shift"] == k) for k in (33, 40, 64)},
        shift_pairs={"%d->%d" % (a, b): sum(1 for c in cases if c["mode"] == "rt" and c["fmt"] == "fastq" and c["shift"] == a and c.get("shift2") == b)
                     for a in (33, 40, 64) for b in (33, 64)},
        parsers={k: sum(1 for c in cases if c["mode"] == "rt" and c["parser"] == k) for k in ("json", "guessed")})
    inv = [(c, o) for c, o in zip(cases, obs) if c.get("invalid_utf8") and o.get("kind") == "ok"]      # NB: shadows nothing
    ctx.cov["invalid_utf8"] = dict(cases=len(inv), first_write_escapes_as_ufffd=sum(1 for c, o in inv if b"\\ufffd" in unb64(o["enc"])),
                                   rewrite_differs=sum(1 for c, o in inv if o.get("enc2") != o.get("enc")), note="outside the claim; recorded, never an alarm")
    ctx.cov["outside_claim_ints"] = dict(cases=sum(1 for c in cases if c.get("outside") and not c.get("invalid_utf8")),
                                         value_changed=sum(1 for c, o in zip(cases, obs) if c.get("outside") and not c.get("invalid_utf8") and o.get("enc2") != o.get("enc")))
    ctx.samples = [dict(case=readable(c), kind=o.get("kind")) for c, o in list(zip(cases, obs))[:2] + list(zip(cases, obs))[30:33]]
    ctx.cov["model_vs_impl_mismatches"] = len(mism)
    if mism:
        ctx.cov["mismatch_samples"] = [dict(kind=k, case=readable(cases[i]), obs={a: b for a, b in obs[i].items() if a not in ("w1", "w2", "recs")}) for i, k in mism[:6]]
    import time
    t0 = time.time()
    cli_stage(ctx, cases, obs, broken)
    ctx.cov.setdefault("timing_s", {})["cli"] = round(time.time() - t0, 1)
    if mism and not ctx.violations:
        # model != code but the direct oracle is satisfied on those inputs: search harder through the oracle
        more = gen_cases(ctx, *SEARCH_SIZES)
        run_cases(ctx, more, [], "search", correspond_too=False)
        if not ctx.violations:
            i, kind = mism[0]
            broken.append(dict(kind="correspondence", name="corr:C02/%s" % kind, first_diverging_case=to_vh(cases[i]), readable=readable(cases[i]),
                               implementation=obs[i], n_diverging=len(mism)))
    elif mism:
        ctx.cov["note"] = "model and implementation diverge on %d cases (violations reported by the direct oracle)" % len(mism)


def replay(ctx, rp):
    if rp.get("kind") == "concurrent-formatting":
        o = ctx.vh_robust("c02conc", [rp["case"]], timeout=300)[0]
        print("replay (concurrent formatting):", json.dumps(o)[:600])
        return 1 if (o.get("kind") != "ok" or o.get("wrong")) else 0
    if rp.get("kind") == "cli3":
        import vlib
        why = cli_run_job(rp["exe"], job_from_json(rp["job"]), os.path.join(vlib.BUILD, "c02_cli3_replay"))
        print("replay: job", rp["job"]["name"], "->", why or "as expected")
        print("recorded reason:", rp.get("why"))
        return
    if rp.get("kind") == "cli":
        path = os.path.join(os.path.dirname(ctx.replay_path("x")), "cli_replay_input")
        open(path, "wb").write(unb64(rp["input_b64"]))
        p = subprocess.run(rp["cmd"][:-1] + [path], capture_output=True, timeout=300)
        print("replay: obiconvert exit", p.returncode, "output as expected:", p.stdout == unb64(rp.get("expected_b64", rp["input_b64"])))
        return
    c = from_vh(rp["case"])
    n0 = len(ctx.violations)
    obs, mism = run_cases(ctx, [c], [], "replay")
    print("replay:", json.dumps(readable(c))[:600], "->", json.dumps(obs[0])[:600])
    print("recorded reason:", rp.get("why"))
    print("now:", "property VIOLATED on this input" if len(ctx.violations) > n0 else "property holds on this input",
          "; model", "differs from" if mism else "agrees with", "the implementation")
