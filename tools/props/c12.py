"""C12 — demultiplexing assigns the declared sample, the exact barcode, on either strand
(pkg/obingslibrary, pkg/obiformats/ngsfilter_read.go)."""
import json, re, itertools, os, tempfile, shutil, time

PROPS = ["C12/Props.v"]
META = dict(
    text="Rocq theorems (63, all closed under the global context) over an executable model of pkg/obingslibrary (Hamming, two-row Levenshtein, Closest*Tag fold over "
         "the Go map, fixed / delimited / RESCUE tag windows, SampleIdentifier, the +i/-i pairing automaton of ExtractMultiBarcode with its stable sort of the hits), of "
         "FilterBestMatch, and (round 3, Cmd.v) of the glue around it: the @param lines of a CSV sheet (every primer / one side / ONE primer through the table "
         "CheckPrimerUnicity fills), the command-line overrides -e / --with-indels, and the routing of the records by the obimultiplex command. Proved: the nearest-tag fold "
         "returns the UNIQUE nearest declared tag for every iteration order and has, by design, no upper bound on the distance; the two-row DP is the Wagner-Fischer edit "
         "distance; SAFETY (a sample only when both extracted tags identify declared tags under the declared mode and the pair is declared with that sample, otherwise the "
         "error flag) for ANY list of primer hits; every record is cut exactly at the spans of its own hit pair and the amplicons of a chimeric read are independent; "
         "canonical read and strand symmetry for fixed-length, delimited AND rescue tags, for the specification matcher and for any matcher producing the two intended "
         "hits; ROUTING: with -u the output and the file partition the records, an unflagged record reaches the output in every mode, a flagged one is lost only in the "
         "default mode, and (composed with safety) every record on the output carries a sample its tags identify; PARAMETERS: a one-primer line changes exactly that side of "
         "that marker, is a no-op for an unknown primer and - the hidden ordering dependency - for every primer while the primer table is still empty, the last line of a "
         "kind wins, the result does not depend on the order of the markers in the Go map; -e N overrides every budget iff N > 0. The model is tied to the code on every "
         "run: sheets in both formats (and the template printed by `obimultiplex --template`) are parsed by the real ReadNGSFilter, reads built from them (both strands, "
         "primer substitutions and indels, tag errors, rescue layouts, chimeras, nested / crossed / partial sites, reads ending flush with a primer, reads already carrying "
         "annotations of a previous demultiplexing) go through the real ExtractMultiBarcode 2-4 times on freshly parsed libraries, 40% of the sheets also through the "
         "real ExtractMultiBarcodeSliceWorker with command-line options AND through the obimultiplex command itself (-e, --with-indels, --keep-errors, -u, --max-cpu, "
         "--batch-size; the files it writes must be the in-process records routed by their flag), the same inputs are evaluated by vm_compute in Coq, and a direct Python "
         "oracle states the parse, matched-primer, canonical-read, strand-symmetry, safety, rescue, determinism, annotation and routing clauses on the implementation's output.",
    note="Trusted: Coq kernel + vm_compute, harness, generators, verif hooks (VerifSamples, VerifLookFor*Tag, VerifPrimerMatches = copy of the hit-collection loop of "
         "ExtractMultiBarcode; a divergence between the copy and the real loop shows up as a correspondence mismatch). Primer hits of the model are the specification "
         "matcher for substitution-only primers; with @indels / --with-indels the matcher is a PARAMETER (spans reported by the library = property C10) and the theorems "
         "quantify over any hit list. Rescue canonical theorem needs both sides in rescue mode (mixed sides: oracle + correspondence only). "
         "Fixed in round 3 (known_findings.d/C12.json): records inherited the demultiplexing annotations the read already carried (a stale obimultiplex_error flagged "
         "and discarded identified barcodes - obimultiplex re-run on its own -u file lost every read). Fixed in round 2: shared primers accepted; records depending on "
         "the iteration order of library.Markers. By design, stated as theorems and exhibited in the corpus: a tag at any distance is assigned when one declared tag is "
         "strictly nearest; `-e 0` is ignored (the test is N > 0 in obimultiplex and obitagpcr alike: a budget of 0 can only be asked for with @param,primer_mismatches,0 "
         "- the generator draws -e in 1..4 or absent). "
         "Outside the property / not exercised: the single-amplicon API of round 0 (match.go Match / ExtractBarcode, Marker.Match, Marker.Compile / NGSLibrary.Compile, "
         "worker.go ExtractBarcodeSlice*, obiapat BestMatch / IsMatching) - no command reaches it any more; NGSLibrary.SetMatchingFor and Marker.SetMatching / SetTagSpacer / "
         "SetTagDelimiter / SetTagIndels / SetAllowedMismatch / SetAllowsIndel - no @param line reaches them (the library-level setters call the Forward / Reverse ones): "
         "the template documents forward_matching / reverse_matching and a one-primer form of matching that library_parameter does not know, such lines are skipped with a "
         "warning and the sheet keeps strict matching (conservative: flagged, never mis-assigned), reported as a documentation defect; the text of error messages "
         "('row %d has %d columns' prints the number of rows); a line naming an unknown primer is ignored silently (the check accepts ignoring or refusing, never applying "
         "it to another primer); fatal branches that cannot be reached from a parsed library (marker not found, Subsequence errors); a primer longer than 63 symbols makes "
         "Compile2 fail, ExtractMultiBarcodeSliceWorker ignores the error and the first read crashes the command (loud, not a mis-assignment); MakeApatSequence / Free / "
         "String of pattern.go are C10's.")
TRUSTED = ["primer hits of the model = specification matcher (mismatch count <= budget per window, IUPAC pattern letters) + FilterBestMatch transcription for substitution-only primers; "
           "with @indels / --with-indels the hits are a parameter of the model (spans exported by the verif hook VerifPrimerMatches); the C Manber automaton and LocatePattern are property C10",
           "verif hook VerifPrimerMatches is a copy of the collection loop of ExtractMultiBarcode (compared with the real loop through the records on every run)",
           "csv / mimetype detection of the sheet reader, option parsing (getoptions), the fasta reader / writer and the iterator plumbing (MakeISliceWorker, FilterOn, DivideOn) are "
           "exercised by the command differential, not modelled: Cmd.v models what they are asked to do (parameters, routing)",
           "lower-casing of primers / tags and the decimal / boolean syntax of @param values are done by the Python renderer of the Coq terms",
           "reads over a/c/g/t (BioSequence.ReverseComplement modelled on IUPAC letters only)",
           "iteration orders of Go maps: every order of <= 5 sample pairs is forced by rebuilding the marker (observed through the distance callback); marker-map orders are sampled by 2-4 re-parses per sheet"]

IUPAC = dict(a="a", c="c", g="g", t="t", r="ag", y="ct", m="ac", k="gt", s="cg", w="at", b="cgt", d="agt", h="act", v="acg", n="acgt")
COMP = dict(a="t", c="g", g="c", t="a", r="y", y="r", m="k", k="m", s="s", w="w", b="v", v="b", d="h", h="d", n="n")
MODES = dict(strict=0, hamming=1, indel=2)


def rc(s):
    return "".join(COMP[c] for c in reversed(s))


def mism(pat, w):
    return sum(1 for p, b in zip(pat, w) if b not in IUPAC[p])


def hamming(a, b):
    if len(a) != len(b):
        return max(len(a), len(b))
    return sum(1 for x, y in zip(a, b) if x != y)


def lev(a, b):
    """full-matrix edit distance (independent of the two-row implementation)"""
    D = [[0] * (len(b) + 1) for _ in range(len(a) + 1)]
    for i in range(len(a) + 1):
        D[i][0] = i
    for j in range(len(b) + 1):
        D[0][j] = j
    for i in range(1, len(a) + 1):
        for j in range(1, len(b) + 1):
            D[i][j] = min(D[i - 1][j] + 1, D[i][j - 1] + 1, D[i - 1][j - 1] + (a[i - 1] != b[j - 1]))
    return D[len(a)][len(b)]


DIST = dict(hamming=hamming, indel=lev, lev=lev)


def edit_iupac(pat, w):
    """edit distance between an IUPAC pattern and a word (a letter of the word matches a pattern letter whose set contains it)"""
    prev = list(range(len(w) + 1))
    for i in range(1, len(pat) + 1):
        cur = [i] + [0] * len(w)
        ok = IUPAC[pat[i - 1]]
        for j in range(1, len(w) + 1):
            cur[j] = min(prev[j] + 1, cur[j - 1] + 1, prev[j - 1] + (w[j - 1] not in ok))
        prev = cur
    return prev[len(w)]


def unique_nearest(tags, t, dist):
    """the statement: the unique declared tag at minimal distance, '' when there is a tie (or no tag)"""
    tags = sorted(set(tags))
    if not tags:
        return "", None
    ds = [dist(x, t) for x in tags]
    m = min(ds)
    best = [x for x, d in zip(tags, ds) if d == m]
    return (best[0] if len(best) == 1 else ""), m


def rescue_expectation(s, d, tl, border, indel):
    """C12_rescue_tag_spec as a regular expression: on  pre x d^k1 tag d^k2 junk  (x != d, tag and junk without d, 1 <= k1 <= border,
    max(1, border - indel) <= k2 <= border, |len(tag) - tl| <= indel < tl) the rescued tag is tag. None: outside that shape."""
    m = re.match("^(.*[^%s])(%s+)([^%s]+)(%s+)([^%s]*)$" % (d, d, d, d, d), s, re.S)
    if not m or indel >= tl:
        return None
    k1, tag, k2 = len(m.group(2)), m.group(3), len(m.group(4))
    if 1 <= k1 <= border and max(1, border - indel) <= k2 <= border and abs(len(tag) - tl) <= indel:
        return tag
    return None


def look_for_tag_spec(s, d):
    m = re.search("%s([^%s]*)%s+[^%s]*$" % (d, d, d, d), s)
    return m.group(1) if m else ""


# ----------------------------------------------------------------------------- generators
def rseq(rng, n, alpha="acgt"):
    return "".join(rng.choice(alpha) for _ in range(n))


def gen_primer(rng, others):
    for _ in range(200):
        n = rng.choice([14, 16, 18, 20, 22, 25])
        p = rseq(rng, n)
        if rng.random() < 0.2:
            i = rng.randrange(n)
            p = p[:i] + rng.choice("rymkswn") + p[i + 1:]
        # avoid quasi-palindromes / near-duplicates (they give spurious hits; those are still generated by 'hard' reads)
        ok = True
        for q in others + [p]:
            for a, b in ((p, q), (p, rc(q)), (rc(p), q)):
                if a is b:
                    continue
                la, lb = len(a), len(b)
                for off in range(-la + 6, lb - 5):
                    ov = [(a[i], b[i + off]) for i in range(la) if 0 <= i + off < lb]
                    if len(ov) >= 10 and sum(1 for x, y in ov if not (set(IUPAC[x]) & set(IUPAC[y]))) <= 5 - (min(la, lb) - len(ov)) // 2 and min(la, lb) - len(ov) <= 3:
                        ok = False
        if ok:
            return p
    return p


def gen_sheet(rng, force=None):
    """returns the declared library (python dict) and the sheet text"""
    fmt = rng.choice(["old", "csv", "csv"]) if not force else force
    nm = rng.choice([1, 1, 2, 3])
    primers = []
    markers = []
    glob = dict(fsp=0, rsp=0, fmode="strict", rmode="strict", ferr=2, rerr=2, fdelim=0, rdelim=0, ftind=0, rtind=0, find=False, rind=False)
    params = []
    if fmt == "csv":
        k = rng.random()
        if k < 0.5:
            sp = rng.choice([0, 1, 2, 3])
            if rng.random() < 0.6:
                params.append(("spacer", [str(sp)])); glob["fsp"] = glob["rsp"] = sp
            else:
                sp2 = rng.choice([0, 1, 2, 5])
                params.append(("forward_spacer", [str(sp)])); params.append(("reverse_spacer", [str(sp2)]))
                glob["fsp"], glob["rsp"] = sp, sp2
        if rng.random() < 0.7:
            m = rng.choice(["strict", "hamming", "indel", "hamming", "indel"])
            params.append(("matching", [m])); glob["fmode"] = glob["rmode"] = m
        if rng.random() < 0.5:
            e = rng.choice([0, 1, 2, 3])
            if rng.random() < 0.6:
                params.append(("primer_mismatches", [str(e)])); glob["ferr"] = glob["rerr"] = e
            else:
                e2 = rng.choice([0, 1, 2, 3])
                params.append(("forward_mismatches", [str(e)])); params.append(("reverse_mismatches", [str(e2)]))
                glob["ferr"], glob["rerr"] = e, e2
        if rng.random() < 0.35 and (glob["fsp"] >= 1 and glob["rsp"] >= 1):
            d = rng.choice("acgt")
            k2 = rng.random()
            if k2 < 0.6:
                params.append(("tag_delimiter", [d.upper() if rng.random() < 0.2 else d])); glob["fdelim"] = glob["rdelim"] = ord(d)
            elif k2 < 0.8:                      # one delimiter per side
                d2 = rng.choice("acgt")
                params.append(("forward_tag_delimiter", [d])); params.append(("reverse_tag_delimiter", [d2]))
                glob["fdelim"], glob["rdelim"] = ord(d), ord(d2)
            elif k2 < 0.9:                      # delimited on one side only, fixed on the other
                params.append(("forward_tag_delimiter", [d])); glob["fdelim"] = ord(d)
            else:
                params.append(("reverse_tag_delimiter", [d])); glob["rdelim"] = ord(d)
            if rng.random() < 0.4:
                ti = rng.choice([1, 2])
                k3 = rng.random()
                if k3 < 0.6:
                    params.append(("tag_indels", [str(ti)])); glob["ftind"] = glob["rtind"] = ti
                elif k3 < 0.8:
                    params.append(("forward_tag_indels", [str(ti)])); glob["ftind"] = ti
                else:
                    params.append(("reverse_tag_indels", [str(ti)])); glob["rtind"] = ti
        elif rng.random() < 0.15:                   # "0" = no delimiter (the value of the documentation template)
            params.append((rng.choice(["tag_delimiter", "forward_tag_delimiter", "reverse_tag_delimiter"]), ["0"]))
        if rng.random() < 0.2:
            k4 = rng.random()
            if k4 < 0.6:
                params.append(("indels", ["true"])); glob["find"] = glob["rind"] = True
            elif k4 < 0.8:                          # primer indels on one side only
                params.append(("forward_indels", ["true"])); glob["find"] = True
            else:
                params.append(("reverse_indels", ["true"])); glob["rind"] = True
            if rng.random() < 0.2:
                params.append(("indels", ["false"])); glob["find"] = glob["rind"] = False      # the last one wins
    used = set()
    per_primer = []
    for mi in range(nm):
        f = gen_primer(rng, primers); primers.append(f)
        r = gen_primer(rng, primers); primers.append(r)
        ftl, rtl = rng.choice([(0, 0), (4, 4), (8, 8), (4, 4), (8, 8), (4, 0), (0, 8), (4, 8), (8, 4)])
        m = dict(glob, fwd=f, rev=r, ftl=ftl, rtl=rtl)
        if fmt == "csv" and rng.random() < 0.4:     # two-argument @param lines: one primer of one marker
            m["_pp"] = True
            for _pp in range(rng.choice([1, 1, 2])):
                side = rng.choice("fr")
                pr = f if side == "f" else r
                prtxt = pr.upper() if rng.random() < 0.5 else pr
                what = rng.choice(["spacer", "primer_mismatches", "tag_delimiter", "tag_delimiter", "tag_indels", "tag_indels", "indels"])
                if what == "spacer" and not m[side + "delim"]:
                    v = rng.choice([0, 1, 4]); per_primer.append(("spacer", [prtxt, str(v)])); m[side + "sp"] = v
                elif what == "primer_mismatches":
                    v = rng.choice([0, 1, 3]); per_primer.append(("primer_mismatches", [prtxt, str(v)])); m[side + "err"] = v
                elif what == "tag_delimiter" and m[side + "sp"] >= 1:
                    dl = rng.choice("acgt0")
                    per_primer.append(("tag_delimiter", [prtxt, dl.upper() if rng.random() < 0.2 else dl])); m[side + "delim"] = 0 if dl == "0" else ord(dl)
                elif what == "tag_indels" and m[side + "delim"]:
                    v = rng.choice([0, 1, 2]); per_primer.append(("tag_indels", [prtxt, str(v)])); m[side + "tind"] = v
                elif what == "indels":
                    v = rng.random() < 0.7; per_primer.append(("indels", [prtxt, "true" if v else "false"])); m[side + "ind"] = v
        alpha_f = "".join(c for c in "acgt" if ord(c) != m["fdelim"])
        alpha_r = "".join(c for c in "acgt" if ord(c) != m["rdelim"])
        ns = 1 if (ftl == 0 and rtl == 0) else rng.choice([1, 2, 3, 4, 6])
        ftags = [rseq(rng, ftl, alpha_f) for _ in range(3)] if ftl else [""]
        rtags = [rseq(rng, rtl, alpha_r) for _ in range(3)] if rtl else [""]
        if ftl and rng.random() < 0.5:          # close tags: one substitution apart (ties for hamming / indel)
            t = ftags[0]; i = rng.randrange(ftl); ftags[1] = t[:i] + rng.choice(alpha_f) + t[i + 1:]
        if rtl and rng.random() < 0.5:
            t = rtags[0]; i = rng.randrange(rtl); rtags[1] = t[:i] + rng.choice(alpha_r) + t[i + 1:]
        if ftl and rtl and ftl == rtl and rng.random() < 0.3 and not (m["rdelim"] and any(chr(m["rdelim"]) in t for t in ftags)):
            rtags = list(ftags)                 # same tags on both sides (never containing the reverse delimiter)
        pairs = []
        for _ in range(ns * 3):
            p = (rng.choice(ftags), rng.choice(rtags))
            if p not in pairs:
                pairs.append(p)
            if len(pairs) == ns:
                break
        m["samples"] = []
        for (a, b) in pairs:
            sname = "s%d_%d" % (mi, len(m["samples"])) if rng.random() < 0.8 else "shared"
            m["samples"].append(dict(f=a, r=b, sample=sname, exp="exp%d" % rng.randrange(2)))
        markers.append(m)
    # two markers whose forward (or reverse) primers differ by one base: both patterns hit the same site of a read
    near = False
    if nm >= 2 and rng.random() < 0.15 and not markers[1].get("_pp"):
        a, b = markers[0], markers[1]
        side = rng.choice(["fwd", "rev"])
        p0 = a[side]; i = rng.randrange(2, len(p0) - 2)
        p1 = p0[:i] + rng.choice([c for c in "acgt" if c != p0[i]]) + p0[i + 1:]
        if p1 not in primers:
            b[side] = p1; near = True
    # a two-argument @param naming a primer the sheet does not use: no marker may change (the library ignores the line silently)
    unknown = False
    if fmt == "csv" and rng.random() < 0.12:
        what, v = rng.choice([("spacer", "3"), ("primer_mismatches", "0"), ("tag_delimiter", "a"), ("tag_indels", "2"), ("indels", "true")])
        per_primer.insert(rng.randrange(len(per_primer) + 1), (what, [gen_primer(rng, primers), v])); unknown = True
    params += per_primer
    lines = []

    def tagtxt(a, b):
        if a == b and a and rng.random() < 0.5:
            return a
        return "%s:%s" % (a or "-", b or "-")
    up = rng.random() < 0.2
    if fmt == "old":
        if rng.random() < 0.3:
            lines.append("# a comment line")
        for m in markers:
            for s in m["samples"]:
                t = tagtxt(s["f"], s["r"])
                kk = rng.randrange(9); s["extra"] = {"k": str(kk)}
                l = "%s %s %s %s %s F @ k=%d;" % (s["exp"], s["sample"], t.upper() if up else t, m["fwd"].upper() if up else m["fwd"], m["rev"], kk)
                lines.append(l if rng.random() < 0.8 else l.replace(" ", "\t"))
        if rng.random() < 0.3:
            lines.insert(rng.randrange(len(lines) + 1), rng.choice(["", "", "  ", "\t"]))
    else:
        for (k, v) in params:
            lines.append(",".join(["@param", k] + v))
        extra = rng.random() < 0.5
        cols = ["experiment", "sample", "sample_tag", "forward_primer", "reverse_primer"] + (["extra"] if extra else [])
        perm = list(range(len(cols)))
        if rng.random() < 0.4:
            rng.shuffle(perm)
        lines.append(",".join(cols[i] for i in perm))
        rows = []
        for m in markers:
            for s in m["samples"]:
                t = tagtxt(s["f"], s["r"])
                xx = "x%d" % rng.randrange(5); s["extra"] = {"extra": xx} if extra else {}
                row = [s["exp"], s["sample"], t.upper() if up else t, m["fwd"].upper() if up else m["fwd"], m["rev"]] + ([xx] if extra else [])
                rows.append(",".join(row[i] for i in perm))
        if rng.random() < 0.3:
            rng.shuffle(rows)
        lines += rows
        if rng.random() < 0.15:                     # blanks after the commas (the reader trims leading space), also in the @param lines
            lines = [l.replace(",", ", ") for l in lines]
    markers.sort(key=lambda m: (m["fwd"], m["rev"]))
    for m in markers:
        m["samples"].sort(key=lambda s: (s["f"], s["r"]))
    return dict(markers=markers, fmt=fmt, near_identical_primers=near, unknown_primer_param=unknown, per_primer_params=len(per_primer) - (1 if unknown else 0)), \
        "\n".join(lines) + ("\n" if rng.random() < 0.85 else "")


def gen_big_sheet(rng, nf, nr, fmt, mode="strict"):
    """a plate: nf forward tags x nr reverse tags, every combination a sample. Real sheets have 96 samples and more: they are larger than
    the 3072 bytes the mimetype detector looks at (dropLastLine cuts the sample at a line end) and, from ~2000 samples on, larger than the
    128 KiB buffer of OBIMimeNGSFilterTypeGuesser (the rest of the stream is chained behind the buffer)"""
    f = gen_primer(rng, []); r = gen_primer(rng, [f])
    def tags(n):
        out = set()
        while len(out) < n:
            out.add(rseq(rng, 8))
        return sorted(out)
    ft, rt = tags(nf), tags(nr)
    m = dict(fwd=f, rev=r, ftl=8, rtl=8, fsp=0, rsp=0, ferr=2, rerr=2, find=False, rind=False, fmode=mode, rmode=mode, fdelim=0, rdelim=0, ftind=0, rtind=0, samples=[])
    lines = []
    if fmt == "csv":
        if mode != "strict":
            lines.append("@param,matching,%s" % mode)
        lines.append("experiment,sample,sample_tag,forward_primer,reverse_primer,well")
    for i, a in enumerate(ft):
        for j, b in enumerate(rt):
            sn = "p%02d_%02d" % (i, j)
            if fmt == "csv":
                m["samples"].append(dict(f=a, r=b, sample=sn, exp="plate", extra={"well": "w%d" % (i * nr + j)}))
                lines.append("plate,%s,%s:%s,%s,%s,w%d" % (sn, a, b, f, r, i * nr + j))
            else:
                m["samples"].append(dict(f=a, r=b, sample=sn, exp="plate", extra={"well": str(i * nr + j)}))
                lines.append("plate %s %s:%s %s %s F @ well=%d;" % (sn, a, b, f, r, i * nr + j))
    if fmt == "old":
        mode = "strict"
    m["samples"].sort(key=lambda x: (x["f"], x["r"]))
    txt = "\n".join(lines) + "\n"
    return dict(markers=[m], fmt=fmt, big=len(txt)), txt


def gen_shared_primer(rng):
    """a sheet in which one primer serves two markers (or both sides of one marker): the library's own CheckPrimerUnicity calls this
    an error - accepted, the two markers compete for the same priming site and which one wins changes from run to run"""
    f1 = gen_primer(rng, []); r1 = gen_primer(rng, [f1]); r2 = gen_primer(rng, [f1, r1]); f2 = gen_primer(rng, [f1, r1, r2])
    kind = rng.choice(["same_forward", "same_reverse", "forward_is_reverse_of_other", "forward_equals_reverse"])
    if kind == "same_forward":
        ms = [(f1, r1), (f1, r2)]
    elif kind == "same_reverse":
        ms = [(f1, r1), (f2, r1)]
    elif kind == "forward_is_reverse_of_other":
        ms = [(f1, r1), (r1, r2)]
    else:
        ms = [(f1, f1)]
    t = [rseq(rng, 4) for _ in range(4)]
    fmt = rng.choice(["old", "csv"])
    rows = [("e", "s%d" % i, "%s:%s" % (t[2 * i], t[2 * i + 1]), a, b) for i, (a, b) in enumerate(ms)]
    if fmt == "old":
        txt = "".join("%s %s %s %s %s F @\n" % r for r in rows)
    else:
        txt = "experiment,sample,sample_tag,forward_primer,reverse_primer\n" + "".join(",".join(r) + "\n" for r in rows)
    a, b = ms[-1]
    rd = rseq(rng, 7) + t[2 * (len(ms) - 1)] + a + rseq(rng, 25) + rc(b) + rc(t[2 * (len(ms) - 1) + 1]) + rseq(rng, 5)
    lib = dict(fmt=fmt, markers=[], malformed="a primer used by two markers / on both sides (%s)" % kind)
    return lib, txt, [dict(read=rd, kind="malformed", amps=[]), dict(read=rc(rd), kind="malformed", amps=[])]


def gen_malformed(rng):
    """a sheet whose tags do not all have the same length within one marker (the library's own CheckTagLength calls this an
    error): the reader must reject it - accepted, it leaves a tag length of -1 behind and the first primed read panics"""
    f, r = gen_primer(rng, []), None
    r = gen_primer(rng, [f])
    side = rng.choice("fr")
    la, lb = rng.choice([(4, 8), (8, 4), (4, 5), (6, 4)])
    t1 = (rseq(rng, la), rseq(rng, 4)) if side == "f" else (rseq(rng, 4), rseq(rng, la))
    t2 = (rseq(rng, lb), rseq(rng, 4)) if side == "f" else (rseq(rng, 4), rseq(rng, lb))
    fmt = rng.choice(["old", "csv"])
    if fmt == "old":
        txt = "e s1 %s:%s %s %s F @\ne s2 %s:%s %s %s F @\n" % (t1[0], t1[1], f, r, t2[0], t2[1], f, r)
    else:
        txt = "experiment,sample,sample_tag,forward_primer,reverse_primer\ne,s1,%s:%s,%s,%s\ne,s2,%s:%s,%s,%s\n" % (t1[0], t1[1], f, r, t2[0], t2[1], f, r)
    bar = rseq(rng, 20)
    rd = rseq(rng, 12) + t1[0] + f + bar + rc(r) + rc(t1[1]) + rseq(rng, 12)
    lib = dict(fmt=fmt, markers=[], malformed="tags of different lengths in one marker")
    return lib, txt, [dict(read=rd, kind="malformed", amps=[]), dict(read=rc(rd), kind="malformed", amps=[])]


MALFORMED2 = ["duplicate_pair_old", "duplicate_pair_csv", "duplicate_pair_csv_case", "missing_column", "short_row", "long_row", "old_5_fields", "old_7_fields",
              "bad_spacer", "bad_matching", "bad_delimiter", "bad_mismatches", "bad_tag_indels", "big_short_row"]


def gen_malformed2(rng, kind=None):
    """other sheets that declare no usable library: the same tag pair for two samples of one marker, a missing column, rows / lines with
    a wrong number of fields, parameter values that mean nothing. All must be refused (an error, or the fatal log of the parameter table)."""
    f = gen_primer(rng, []); r = gen_primer(rng, [f])
    t = [rseq(rng, 4) for _ in range(4)]
    kind = kind or rng.choice(MALFORMED2)
    hdr = "experiment,sample,sample_tag,forward_primer,reverse_primer\n"
    rows = "e,s1,%s:%s,%s,%s\ne,s2,%s:%s,%s,%s\n" % (t[0], t[1], f, r, t[2], t[3], f, r)
    fatal_ok = False
    if kind == "duplicate_pair_old":
        txt = "e s1 %s:%s %s %s F @\ne s2 %s:%s %s %s F @\n" % (t[0], t[1], f, r, t[0], t[1], f, r)
    elif kind == "duplicate_pair_csv":
        txt = hdr + "e,s1,%s:%s,%s,%s\ne,s2,%s:%s,%s,%s\n" % (t[0], t[1], f, r, t[0], t[1], f, r)
    elif kind == "duplicate_pair_csv_case":           # the same pair and marker written in the other case
        txt = hdr + "e,s1,%s:%s,%s,%s\ne,s2,%s:%s,%s,%s\n" % (t[0], t[1], f, r, t[0].upper(), t[1], f.upper(), r)
    elif kind == "missing_column":
        col = rng.choice(["experiment", "sample", "sample_tag", "forward_primer", "reverse_primer"])
        txt = hdr.replace(col, "c" + col) + rows
    elif kind == "short_row":
        txt = hdr + rows + "e,s3,%s:%s,%s\n" % (t[1], t[0], f)
    elif kind == "long_row":
        txt = hdr + rows + "e,s3,%s:%s,%s,%s,zz\n" % (t[1], t[0], f, r)
    elif kind == "big_short_row":                     # the faulty row lies beyond the 3072 bytes the format detector looks at: the CSV reader itself must refuse it
        _, big = gen_big_sheet(rng, 12, 8, "csv")
        txt = big + "plate,zz,%s:%s,%s\n" % (rseq(rng, 8), rseq(rng, 8), f)
    elif kind == "old_5_fields":
        txt = "e s1 %s:%s %s %s F @\ne s2 %s:%s %s F @\n" % (t[0], t[1], f, r, t[2], t[3], f)
    elif kind == "old_7_fields":
        txt = "e s1 %s:%s %s %s F @\ne s2 x %s:%s %s %s F @\n" % (t[0], t[1], f, r, t[2], t[3], f, r)
    else:
        fatal_ok = True
        line = dict(bad_spacer="@param,spacer,two", bad_matching="@param,matching,fuzzy", bad_delimiter="@param,tag_delimiter,x",
                    bad_mismatches="@param,primer_mismatches,%s,many" % f, bad_tag_indels="@param,tag_indels,1.5")[kind]
        txt = line + "\n" + hdr + rows
    bar = rseq(rng, 20)
    rd = rseq(rng, 5) + t[0] + f + bar + rc(r) + rc(t[1]) + rseq(rng, 5)
    lib = dict(fmt="old" if "old" in kind else "csv", markers=[], malformed="not a library: " + kind, fatal_ok=fatal_ok)
    return lib, txt, [dict(read=rd, kind="malformed", amps=[]), dict(read=rc(rd), kind="malformed", amps=[])]


def mutate_primer(rng, p, k):
    """k substitutions incompatible with the pattern letter (letters whose IUPAC set is everything are skipped)"""
    pos = [i for i in range(len(p)) if len(IUPAC[p[i]]) < 4]
    rng.shuffle(pos)
    out = list("".join(rng.choice(IUPAC[c]) for c in p))
    for i in pos[:k]:
        out[i] = rng.choice([b for b in "acgt" if b not in IUPAC[p[i]]])
    return "".join(out)


def mutate_primer_indel(rng, p, k):
    """an occurrence of primer p with k edit operations (at least one insertion or deletion when k > 0), all in the interior of
    the primer so that the priming site keeps its two ends"""
    out = list("".join(rng.choice(IUPAC[c]) for c in p))
    ops = [rng.choice(["ins", "del"])] + [rng.choice(["ins", "del", "sub"]) for _ in range(k - 1)] if k > 0 else []
    for op in ops:
        i = rng.randrange(4, max(5, len(out) - 4))
        if op == "ins":
            out.insert(i, rng.choice("acgt"))
        elif op == "del":
            del out[i]
        else:
            out[i] = rng.choice([b for b in "acgt" if b != out[i]])
    return "".join(out)


def mutate_tag(rng, t, kind, alpha):
    if not t:
        return t
    i = rng.randrange(len(t))
    if kind == "sub":
        return t[:i] + rng.choice([b for b in alpha if b != t[i]]) + t[i + 1:]
    if kind == "del":
        return t[:i] + t[i + 1:]
    if kind == "ins":
        return t[:i] + rng.choice(alpha) + t[i:]
    if kind == "rot":                              # same length, 2 indels away, up to len(t) substitutions away
        return t[1:] + t[0]
    return t


def amplicon(rng, m, s, kf=0, kr=0, tagmut=None, barlen=None, pindel=False):
    """one amplicon in forward orientation; returns (text, info).
    A side in RESCUE mode (tag delimiter + tag indels) is laid out as  x d^k1 tag d^k2 primer  with x != d, 1 <= k1 <= spacer,
    max(1, spacer - tag_indels) <= k2 <= spacer (info['rescue_ok']); a fraction of the amplicons leaves that shape on purpose.
    pindel: the kf / kr primer errors include at least one inserted / deleted base (sheets with @indels)."""
    af = "".join(c for c in "acgt" if ord(c) != m["fdelim"])
    ar = "".join(c for c in "acgt" if ord(c) != m["rdelim"])
    tf, tr = s["f"], s["r"]
    if tagmut:
        side, kind = tagmut
        if side == "f":
            tf = mutate_tag(rng, tf, kind, af)
        else:
            tr = mutate_tag(rng, tr, kind, ar)
    spf = chr(m["fdelim"]) * m["fsp"] if m["fdelim"] else rseq(rng, m["fsp"])
    spr = chr(m["rdelim"]) * m["rsp"] if m["rdelim"] else rseq(rng, m["rsp"])
    if pindel:
        pf = mutate_primer_indel(rng, m["fwd"], kf)
        pr = mutate_primer_indel(rng, m["rev"], kr)
    else:
        pf = mutate_primer(rng, m["fwd"], kf)
        pr = mutate_primer(rng, m["rev"], kr)
    bar = rseq(rng, barlen if barlen is not None else (400 if rng.random() < 0.04 else rng.choice([1, 5, 20, 30, 45, 45, 45, 150])))
    left = (spf if m["fdelim"] and tf else "") + tf + spf
    right = rc(spr) + rc(tr) + (rc(spr) if m["rdelim"] and tr else "")
    rescue_ok = True

    def rescue_side(d, sp, ind, tag, alpha):
        """x d^k1 tag d^k2 ; returns (text, within the shape of the rescue theorem)"""
        d = chr(d)
        if rng.random() < 0.85:
            return rng.choice(alpha) + d * rng.randint(1, sp) + tag + d * rng.randint(max(1, sp - ind), sp), True
        k = rng.random()
        if k < 0.3:                                 # too many delimiters lost next to the primer
            return rng.choice(alpha) + d * sp + tag + d * max(0, sp - ind - 1), False
        if k < 0.6:                                 # longer delimiter runs than declared
            return rng.choice(alpha) + d * (sp + rng.choice([0, 1, 2])) + tag + d * (sp + rng.choice([1, 2])), False
        if k < 0.8:                                 # no base before the outer run / no outer run
            return d * rng.choice([0, sp]) + tag + d * sp, False
        return d + d * sp + tag + d * sp, False     # the base before the outer run is the delimiter itself
    if m["fdelim"] and m["ftind"] and m["ftl"] and tf:
        left, ok = rescue_side(m["fdelim"], m["fsp"], m["ftind"], tf, af); rescue_ok = rescue_ok and ok
    if m["rdelim"] and m["rtind"] and m["rtl"] and tr:
        txt_r, ok = rescue_side(m["rdelim"], m["rsp"], m["rtind"], tr, ar); rescue_ok = rescue_ok and ok
        right = rc(txt_r)
    if m["ftl"] == 0:
        left = spf if not m["fdelim"] else ""
    if m["rtl"] == 0:
        right = rc(spr) if not m["rdelim"] else ""
    txt = left + pf + bar + rc(pr) + right
    info = dict(fwd=m["fwd"], rev=m["rev"], tf=tf if m["ftl"] else "", tr=tr if m["rtl"] else "", pf=pf, pr=pr, bar=bar, kf=kf, kr=kr,
                pf_at=len(left), left=len(left), right=len(right), total=len(txt), rescue_ok=rescue_ok)
    return txt, info


def bad_tags(rng, m):
    """a tag pair meant NOT to identify a sample of marker m (the oracle decides what it really identifies)"""
    fts = sorted({x["f"] for x in m["samples"]}); rts = sorted({x["r"] for x in m["samples"]})
    declared = {(x["f"], x["r"]) for x in m["samples"]}
    free = [(a, b) for a in fts for b in rts if (a, b) not in declared]
    if free and rng.random() < 0.6:
        a, b = rng.choice(free)                  # both tags declared, the combination is not
        return dict(f=a, r=b, sample="?", exp="?")
    af = "".join(c for c in "acgt" if ord(c) != m["fdelim"]); ar = "".join(c for c in "acgt" if ord(c) != m["rdelim"])
    a, b = rng.choice(fts), rng.choice(rts)
    if m["ftl"] and (not m["rtl"] or rng.random() < 0.5):
        a = rseq(rng, m["ftl"], af)
    else:
        b = rseq(rng, m["rtl"], ar)
    return dict(f=a, r=b, sample="?", exp="?")


# annotations a read may carry before it is demultiplexed: the file written by `obimultiplex -u` / `--keep-errors` demultiplexed again
# (another sheet, another -e), reads annotated by other tools
STALE = [{"obimultiplex_error": "No barcode identified"},
         {"obimultiplex_error": "Cannot associate sample to the tag pair (aacg:ggtt)", "obimultiplex_direction": "reverse", "obimultiplex_forward_tag": "aacg",
          "obimultiplex_reverse_tag": "ggtt", "obimultiplex_forward_proposed_tag": "aacg", "obimultiplex_amplicon_rank": "1/1", "obimultiplex_forward_error": 1},
         {"sample": "zzz", "experiment": "old"},
         {"sample": "zzz", "obimultiplex_forward_tag": "tttt", "obimultiplex_reverse_tag": "tttt"},
         {"foo": 1, "bar": "x"},
         {"count": 3, "obimultiplex_error": "No barcode identified"}]
TOOL_KEYS = ("sample", "experiment")


def own_annotations(ann):
    """what a read's own annotations contribute to every record cut out of it: everything but the demultiplexing vocabulary"""
    return {k: str(v) for k, v in (ann or {}).items() if k not in TOOL_KEYS and not k.startswith("obimultiplex_")}


def effective_lib(lib):
    """the library obimultiplex works with: the command-line options -e N (N > 0) and --with-indels override the sheet for every primer"""
    cli = lib.get("cli") or {}
    if not cli.get("emis") and not cli.get("windels"):
        return lib
    out = dict(lib, markers=[dict(m) for m in lib["markers"]])
    for m in out["markers"]:
        if cli.get("emis"):
            m["ferr"] = m["rerr"] = cli["emis"]
        if cli.get("windels"):
            m["find"] = m["rind"] = True
    return out


def gen_cli(rng):
    return dict(emis=rng.choice([0, 0, 0, 1, 3, 4]), windels=rng.random() < 0.2, mode=rng.choice(["default", "default", "keep", "unid", "unid", "keep+unid"]),
                cpu=rng.choice([1, 3]), batch=rng.choice([1, 2, 100]), input=rng.choice(["file", "file", "stdin", "two_files", "two_files", "gz", "fastq"]),
                one_cpu=rng.random() < 0.15, no_order=rng.random() < 0.3)


def gen_reads(rng, lib, n):
    """list of dict(read=..., kind=..., amps=[info with offsets], rcflag)"""
    out = []
    ms = lib["markers"]
    for _ in range(n):
        m = rng.choice(ms)
        s = rng.choice(m["samples"])
        kind = rng.choice(["canon", "canon", "canon", "pmis", "pmis", "pover", "tagerr", "tagerr", "chimera", "chimera", "chimera2", "chimera2", "partial", "noprimer", "short", "flush", "cross", "nested", "selfclose", "selfclose"])
        pind = bool(m["find"] or m["rind"])
        fl, fr = rseq(rng, rng.choice([0, 0, 1, 3, 10])), rseq(rng, rng.choice([0, 0, 1, 3, 10]))
        amps = []
        pat2 = None
        if kind == "canon":
            a, inf = amplicon(rng, m, s); body = a; amps = [inf]
        elif kind == "pmis":
            a, inf = amplicon(rng, m, s, kf=rng.randint(0, m["ferr"]), kr=rng.randint(0, m["rerr"]), pindel=pind); body = a; amps = [inf]
        elif kind == "pover":
            kf, kr = rng.choice([(m["ferr"] + rng.choice([1, 2]), 0), (0, m["rerr"] + rng.choice([1, 2])), (m["ferr"] + 1, m["rerr"] + 1)])
            a, inf = amplicon(rng, m, s, kf=kf, kr=kr); body = a; amps = [inf]
        elif kind == "tagerr":
            tm = (rng.choice("fr"), rng.choice(["sub", "sub", "del", "ins", "rot", "rot"]))
            a, inf = amplicon(rng, m, s, tagmut=tm, kf=rng.choice([0, 0, 1]) if m["ferr"] else 0); body = a; amps = [inf]
            inf["tagmut"] = tm
        elif kind == "chimera":
            body = ""
            for _k in range(rng.choice([2, 2, 3])):
                m2 = rng.choice(ms); s2 = rng.choice(m2["samples"])
                a, inf = amplicon(rng, m2, s2)
                flip = rng.random() < 0.4
                inf["flip"] = flip
                inf["off"] = len(fl) + len(body)
                body += (rc(a) if flip else a) + rseq(rng, rng.choice([0, 2, 7]))
                amps.append(inf)
        elif kind == "chimera2":
            # two amplicons of different status in every order: good+bad, bad+good, good+good of different samples, bad+bad
            # (bad = a tag pair that is not declared / a tag that is nobody's unique neighbour); same or different markers
            body = ""
            pattern = rng.choice(["gb", "bg", "gg", "gg", "bb"])
            pat2 = pattern
            prev = None
            for st in pattern:
                m2 = m if rng.random() < 0.6 else rng.choice(ms)
                s2 = rng.choice([x for x in m2["samples"] if x is not prev] or m2["samples"])
                prev = s2
                if st == "b":
                    s2 = bad_tags(rng, m2)
                a, inf = amplicon(rng, m2, s2, kf=rng.choice([0, 0, 1]) if m2["ferr"] else 0, pindel=bool(m2["find"]))
                flip = rng.random() < 0.4
                inf["flip"] = flip
                inf["off"] = len(fl) + len(body)
                inf["status"] = st
                body += (rc(a) if flip else a) + rseq(rng, rng.choice([0, 2, 7]))
                amps.append(inf)
            kind = "chimera"
        elif kind == "partial":
            a, inf = amplicon(rng, m, s)
            cut = rng.choice(["nofwd", "norev", "half"])
            if cut == "nofwd":
                body = a[inf["pf_at"] + len(inf["pf"]):]
            elif cut == "norev":
                body = a[:inf["pf_at"] + len(inf["pf"]) + len(inf["bar"])]
            else:
                body = a[:inf["pf_at"] + len(inf["pf"]) + len(inf["bar"]) + len(inf["pr"]) // 2]
        elif kind == "noprimer":
            body = rseq(rng, rng.choice([0, 1, 10, 60]))
        elif kind == "short":                       # flanks cut inside the tag: the tag window leaves the read
            a, inf = amplicon(rng, m, s)
            c1 = rng.randrange(0, inf["left"] + 1); c2 = rng.randrange(0, inf["right"] + 1)
            body = a[c1:len(a) - c2]; fl = fr = ""
        elif kind == "flush":                       # the read starts / ends exactly with a primer: no base is left for the tag (nor for the delimiters)
            a, inf = amplicon(rng, m, s)
            c1 = rng.choice([inf["left"], inf["left"], 0]); c2 = rng.choice([inf["right"], inf["right"], 0])
            body = a[c1:len(a) - c2]; fl = fr = ""
            kind = "short"
        elif kind == "selfclose":
            # a primer hit followed by the complement of THE SAME primer (F ... cF, or R ... cR), the tags of a declared pair around
            # them, optionally behind a first site of the other primer (R ... F ... cF): a hit may only be closed by the complementary
            # hit of the OTHER primer of its marker - here nothing may be assigned to the sample
            a, inf = amplicon(rng, m, s)
            pre, post = a[:inf["pf_at"]], a[inf["pf_at"] + len(inf["pf"]) + len(inf["bar"]) + len(inf["pr"]):]
            if rng.random() < 0.5:
                pinst = mutate_primer(rng, m["fwd"], 0)                             # (ambiguity codes of the primer instantiated)
                core = pre + pinst + inf["bar"] + rc(pinst) + post                  # F bar cF between the tags of s
                lead = mutate_primer(rng, m["rev"], 0)
            else:
                pinst = mutate_primer(rng, m["rev"], 0)
                core = pre + pinst + inf["bar"] + rc(pinst) + post                  # R bar cR
                lead = mutate_primer(rng, m["fwd"], 0)
            body = (lead + rseq(rng, rng.choice([3, 12, 30])) if rng.random() < 0.6 else "") + core
        elif kind == "nested":                      # +j ... +i ... -j : the complementary hit of ANOTHER marker must not close the amplicon
            m2 = rng.choice(ms)
            a, inf = amplicon(rng, m, s); a2, inf2 = amplicon(rng, m2, rng.choice(m2["samples"]))
            body = a2[:inf2["pf_at"] + len(inf2["pf"]) + len(inf2["bar"])] + a[:inf["pf_at"] + len(inf["pf"]) + len(inf["bar"])] + \
                a2[inf2["pf_at"] + len(inf2["pf"]) + len(inf2["bar"]):]
        else:                                       # forward primer of one marker, reverse primer of another
            m2 = rng.choice(ms)
            a, inf = amplicon(rng, m, s); a2, inf2 = amplicon(rng, m2, rng.choice(m2["samples"]))
            body = a[:inf["pf_at"] + len(inf["pf"]) + len(inf["bar"])] + a2[inf2["pf_at"] + len(inf2["pf"]) + len(inf2["bar"]):]
        read = fl + body + fr
        if len(amps) == 1:
            amps[0]["off"] = len(fl); amps[0]["flip"] = False
        if not read:
            read = "a"
        ann = None
        if rng.random() < 0.15:                     # the read already carries annotations: its own, or those of a previous demultiplexing
            ann = dict(rng.choice(STALE))
        out.append(dict(read=read, kind=kind, amps=amps, marker=(m["fwd"], m["rev"]), pattern=pat2, annots=ann))
        out.append(dict(read=rc(read), kind=kind, amps=amps, marker=(m["fwd"], m["rev"]), pattern=pat2, rc_of=len(out) - 1, annots=ann))
    return out


# ----------------------------------------------------------------------------- specification of hits (independent, brute force)
def all_hits(lib, read):
    """every window of the read within budget of one of the 4 patterns of every marker: (begin, end, mism, marker idx, which)"""
    hits = []
    for mi, m in enumerate(lib["markers"]):
        for which, pat, e in (("f", m["fwd"], m["ferr"]), ("cr", rc(m["rev"]), m["rerr"]), ("r", m["rev"], m["rerr"]), ("cf", rc(m["fwd"]), m["ferr"])):
            L = len(pat)
            for b in range(0, len(read) - L + 1):
                k = mism(pat, read[b:b + L])
                if k <= e:
                    hits.append((b, b + L, k, mi, which))
    return hits


def expected_sample(m, ft, rt):
    """the statement: proposed tag pair under the declared mode, then table lookup. returns (sample dict | None, proposed pair)"""
    def prop(t, mode, tags):
        if t == "":
            return ""
        if mode == "strict":
            return t
        return unique_nearest(tags, t, DIST[mode])[0]
    pf = prop(ft, m["fmode"], [s["f"] for s in m["samples"]])
    pr = prop(rt, m["rmode"], [s["r"] for s in m["samples"]])
    for s in m["samples"]:
        if s["f"] == pf and s["r"] == pr:
            return s, (pf, pr)
    return None, (pf, pr)


def find_marker(lib, fp, rp):
    for i, m in enumerate(lib["markers"]):
        if m["fwd"] == fp and m["rev"] == rp:
            return i, m
    return None, None


def check_safety(lib, res):
    """SAFETY clause on one output record. returns None or a reason string"""
    if res["err"] == "No barcode identified" and not res.get("rank"):
        if res["has_sample"]:
            return "sample on an unidentified read"
        left = [k for k in ("dir", "fp", "rp", "fm", "rm", "ft", "rt", "fpt", "rpt", "exp") if res.get(k)]
        return None if not left else "unidentified read with demultiplexing annotations this run did not give it: %s" % left
    _, m = find_marker(lib, res["fp"], res["rp"])
    if m is None:
        return "record names primers that are not a marker of the sheet"
    if not (m["find"] or m["rind"]):
        # "returns the matched primers": the reported matches are matches of the declared primers of that marker, within budget
        if len(res["fm"]) != len(m["fwd"]) or mism(m["fwd"], res["fm"]) != res["fe"] or res["fe"] > m["ferr"]:
            return "forward match %r is not a match of the forward primer within budget (reported %d errors)" % (res["fm"], res["fe"])
        if len(res["rm"]) != len(m["rev"]) or mism(m["rev"], res["rm"]) != res["re"] or res["re"] > m["rerr"]:
            return "reverse match %r is not a match of the reverse primer within budget (reported %d errors)" % (res["rm"], res["re"])
    else:
        # primer indels: the reported span is within the declared number of edit operations of the primer (IUPAC edit distance),
        # and the reported error count is not smaller than that distance
        if not (edit_iupac(m["fwd"], res["fm"]) <= res["fe"] <= m["ferr"]):
            return "forward match %r: edit distance %d to the forward primer, reported %d errors, budget %d" % (res["fm"], edit_iupac(m["fwd"], res["fm"]), res["fe"], m["ferr"])
        if not (edit_iupac(m["rev"], res["rm"]) <= res["re"] <= m["rerr"]):
            return "reverse match %r: edit distance %d to the reverse primer, reported %d errors, budget %d" % (res["rm"], edit_iupac(m["rev"], res["rm"]), res["re"], m["rerr"])
    exp, prop = expected_sample(m, res["ft"], res["rt"])
    if res["has_sample"]:
        if exp is None:
            return "sample %r assigned but the extracted tags (%s,%s) do not identify a sample under %s/%s (proposed %s)" % (
                res["sample"], res["ft"], res["rt"], m["fmode"], m["rmode"], prop)
        if exp["sample"] != res["sample"] or exp["exp"] != res["exp"]:
            return "sample %r assigned, declared sample for tags %s is %r" % (res["sample"], prop, exp["sample"])
        if res["has_err"]:
            return "sample assigned and error flag set"
    else:
        if not res["has_err"]:
            return "no sample and no obimultiplex_error flag"
        if exp is not None:
            return "tags (%s,%s) identify sample %r under the declared mode but the record is flagged: %s" % (res["ft"], res["rt"], exp["sample"], res["err"])
    return None


def order_dependence_key(lib):
    """known-finding key for records that depend on a map iteration order (None: no recorded finding applies)"""
    return None


def check_parse(lib, obs_lib):
    exp = []
    for m in lib["markers"]:
        exp.append(dict(fwd=m["fwd"], rev=m["rev"], ftl=m["ftl"], rtl=m["rtl"], fsp=m["fsp"], rsp=m["rsp"], ferr=m["ferr"], rerr=m["rerr"],
                        find=m["find"], rind=m["rind"], fmode=m["fmode"], rmode=m["rmode"], fdelim=m["fdelim"], rdelim=m["rdelim"],
                        ftind=m["ftind"], rtind=m["rtind"], samples=[dict(f=s["f"], r=s["r"], sample=s["sample"], exp=s["exp"]) for s in m["samples"]]))
    got = [dict(m, samples=m.get("samples") or []) for m in obs_lib]
    if exp != got:
        return dict(expected=exp, got=got)
    return None


def canonical_expectation(lib, rd, hits):
    """If the read is a canonical single-amplicon read (or a chimera of complete amplicons) whose primer hits are exactly the intended
    ones, return the list of expected records; otherwise None (clause not applicable).
    hits: (begin, end, errors, marker index, which) - the specification windows (substitution matcher) or, for sheets with primer
    indels, the spans reported by the library's matcher (the matcher is a parameter of the clause, as in C12_canonical_read_any_matcher).
    Rescue sides (tag delimiter + tag indels): applicable when the amplicon has the shape of C12_canonical_read_rescue."""
    if rd["kind"] not in ("canon", "pmis", "tagerr", "chimera") or not rd["amps"]:
        return None
    is_rc = "rc_of" in rd or bool(rd.get("is_rc"))
    L = len(rd["read"])
    want = []
    recs = []
    kof = {(h[0], h[1], h[3], h[4]): h[2] for h in hits}
    for a in rd["amps"]:
        mi, m = find_marker(lib, a["fwd"], a["rev"])
        resc_f = bool(m["fdelim"] and m["ftind"]); resc_r = bool(m["rdelim"] and m["rtind"])
        if (resc_f or resc_r) and not a.get("rescue_ok"):
            return None                          # outside the shape of the rescue theorem: safety clause only
        if a["kf"] > m["ferr"] or a["kr"] > m["rerr"] or len(a["bar"]) == 0:
            return None
        b1 = a["off"] + a["pf_at"]; e1 = b1 + len(a["pf"]); b2 = e1 + len(a["bar"]); e2 = b2 + len(a["pr"])
        fwd_oriented = True
        if a["flip"]:                            # amplicon inserted reverse-complemented
            lo, hi = a["off"], a["off"] + a["total"]
            b1, e1, b2, e2 = lo + hi - e2, lo + hi - b2, lo + hi - e1, lo + hi - b1
            fwd_oriented = False
        if is_rc:
            b1, e1, b2, e2 = L - e2, L - b2, L - e1, L - b1
            fwd_oriented = not fwd_oriented
        if fwd_oriented:
            w1, w2 = (b1, e1, mi, "f"), (b2, e2, mi, "cr")
        else:
            w1, w2 = (b1, e1, mi, "r"), (b2, e2, mi, "cf")
        want += [w1, w2]
        if w1 not in kof or w2 not in kof:
            return None
        if m["fdelim"] and a["tf"] == "" and m["ftl"]:
            return None
        if m["rdelim"] and a["tr"] == "" and m["rtl"]:
            return None
        if "tagmut" in a:
            sd, kind = a["tagmut"]
            on_rescue_side = resc_f if sd == "f" else resc_r
            if not on_rescue_side and (m["fdelim"] or m["rdelim"] or kind not in ("sub", "rot")):
                return None                      # indel inside a fixed window shifts the window: outside the canonical shape
        ft, rt = a["tf"], a["tr"]
        exp, _ = expected_sample(m, ft, rt)
        kfwd, krev = (kof[w1], kof[w2]) if fwd_oriented else (kof[w2], kof[w1])
        recs.append((b1, dict(seq=a["bar"], dir="forward" if fwd_oriented else "reverse", fp=m["fwd"], rp=m["rev"], fm=a["pf"], rm=a["pr"],
                              fe=kfwd, re=krev, ft=ft, rt=rt,
                              sample=exp["sample"] if exp else None, exp=exp["exp"] if exp else None)))
    got = sorted((h[0], h[1], h[3], h[4]) for h in hits)
    if got != sorted(want):
        return None                              # a spurious extra hit (or a missing one): hypothesis of the canonical clause not met
    recs.sort(key=lambda x: x[0])
    return [r for _, r in recs]


def compare_canonical(exp, got):
    if len(exp) != len(got):
        return "expected %d records, got %d" % (len(exp), len(got))
    for e, g in zip(exp, got):
        for k in ("seq", "dir", "fp", "rp", "fm", "rm", "fe", "re", "ft", "rt"):
            if e[k] != g[k]:
                return "%s: expected %r got %r" % (k, e[k], g[k])
        if e["sample"] is None:
            if g["has_sample"] or not g["has_err"]:
                return "expected an error-flagged record without sample, got sample %r" % g["sample"]
        elif not g["has_sample"] or g["sample"] != e["sample"] or g["exp"] != e["exp"] or g["has_err"]:
            return "expected sample %r, got %r (err=%r)" % (e["sample"], g["sample"] if g["has_sample"] else None, g["err"])
    return None


def mirror(recs):
    out = []
    for r in reversed(recs):
        r = dict(r)
        r["dir"] = dict(forward="reverse", reverse="forward").get(r["dir"], r["dir"])
        r.pop("rank", None)
        out.append(r)
    return out


# ----------------------------------------------------------------------------- Coq rendering
def cs(s):
    return "[" + ";".join(str(ord(c)) for c in s) + "]"


def lib_term(lib, sid):
    ms = []
    for m in lib["markers"]:
        ss = "[" + ";".join("(%s,%s,%d)" % (cs(s["f"]), cs(s["r"]), sid[(s["sample"], s["exp"])]) for s in m["samples"]) + "]"
        ms.append("mkM %s %s %d %d %d %d %d %d %d %d %d %d %d %d %s" % (
            cs(m["fwd"]), cs(m["rev"]), m["ftl"], m["rtl"], m["fsp"], m["rsp"], m["ferr"], m["rerr"], MODES[m["fmode"]], MODES[m["rmode"]],
            m["fdelim"], m["rdelim"], m["ftind"], m["rtind"], ss))
    return "[" + ";".join(ms) + "]"


def res_term(lib, sid, r):
    if r["err"] == "No barcode identified" and not r["fp"]:
        return None
    mi, m = find_marker(lib, r["fp"], r["rp"])
    smp = "(Some %d)" % sid[(r["sample"], r["exp"])] if r["has_sample"] and (r["sample"], r["exp"]) in sid else ("(Some 99999)" if r["has_sample"] else "None")
    return "mkR %s %s %d %s %s %d %d %s %s %s %s" % (cs(r["seq"]), "true" if r["dir"] == "forward" else "false", mi if mi is not None else 999,
                                                     cs(r["fm"]), cs(r["rm"]), r["fe"], r["re"], cs(r["ft"]), cs(r["rt"]), smp, "true" if r["has_err"] else "false")


def demux_term(lib, sid, read, recs):
    if len(recs) == 1 and recs[0]["err"] == "No barcode identified" and not recs[0]["fp"]:
        o = "NoBarcode %s" % cs(recs[0]["seq"])
    else:
        o = "Recs [" + ";".join(res_term(lib, sid, r) for r in recs) + "]"
    return "CDemux %s %s (%s)" % (lib_term(lib, sid), cs(read), o)


WHICH = {(False, True): "f", (True, True): "cr", (False, False): "r", (True, False): "cf"}


def hook_hits(lib, hh):
    """primer matches exported by the library (verif hook) -> (begin, end, errors, marker index, which)"""
    out = []
    for h in hh:
        mi, _ = find_marker(lib, h["fwd"], h["rev"])
        out.append((h["b"], h["e"], h["k"], mi, WHICH[(h["c"], h["dir"])]))
    return out


def hits_term(hits):
    """Gallina list of [hit]: marker rank +-(index+1), orientation flag = PrimerMatch.Forward"""
    ts = []
    for (b, e, k, mi, which) in hits:
        mk = (mi + 1) if which in ("f", "r") else -(mi + 1)
        ts.append("mkH (%d) (%d) (%d) (%d) %s" % (b, e, k, mk, "true" if which in ("f", "cr") else "false"))
    return "[" + ";".join(ts) + "]"


def demux_hits_term(lib, sid, read, hits, recs):
    if len(recs) == 1 and recs[0]["err"] == "No barcode identified" and not recs[0]["fp"]:
        o = "NoBarcode %s" % cs(recs[0]["seq"])
    else:
        o = "Recs [" + ";".join(res_term(lib, sid, r) for r in recs) + "]"
    return "CDemuxH %s %s %s%%Z (%s)" % (lib_term(lib, sid), cs(read), hits_term(hits), o)


IMPORTS = "From Coq Require Import NArith ZArith List. Import ListNotations.\nFrom OBI.C12 Require Import Model.\nOpen Scope N_scope.\n"


IMPORTS3 = "From Coq Require Import NArith ZArith List Bool. Import ListNotations.\nFrom OBI.C12 Require Import Model Cmd.\nOpen Scope N_scope.\n"
USE_CMD_MODEL = True


# ----------------------------------------------------------------------------- unit operations
def gen_units(rng, n):
    cases = []
    al = "acgt"
    for a, b in [("", ""), ("", "a"), ("a", ""), ("acgt", "acgt"), ("acgt", "cgta"), ("aaaa", "tttt"), ("acgt", "acg"), ("kitten", "sitting"), ("ac", "ca")]:
        cases.append(dict(op="hamming", a=a, b=b)); cases.append(dict(op="lev", a=a, b=b))
    # tie corpus for closest: two tags at distance 1 of the query; duplicates of the same tag in several pairs; unique
    cases.append(dict(op="closest", tags=[["aaaa", "c"], ["aaat", "g"]], a="aaac", side="f", dist="hamming"))
    cases.append(dict(op="closest", tags=[["aaaa", "c"], ["aaaa", "g"], ["tttt", "a"]], a="aaac", side="f", dist="hamming"))
    cases.append(dict(op="closest", tags=[["aaaa", "c"], ["aaat", "g"], ["aaac", "t"]], a="aaac", side="f", dist="lev"))
    cases.append(dict(op="closest", tags=[["c", "aaaa"], ["g", "aaat"], ["t", "aaag"]], a="aaac", side="r", dist="hamming"))
    cases.append(dict(op="closest", tags=[], a="aaac", side="r", dist="hamming"))
    # seed C12-A class: a tie between two declared tags, one of which is shared by several samples - the answer must be "" for EVERY
    # order in which the samples are met (A B A re-armed a 'unique' flag); all orders of the multiset are forced by the harness
    cases.append(dict(op="closest", tags=[["aaaa", "c"], ["aaaa", "g"], ["aaat", "t"]], a="aaac", side="f", dist="hamming"))
    cases.append(dict(op="closest", tags=[["c", "aaaa"], ["g", "aaaa"], ["t", "aaat"], ["a", "aaat"]], a="aaac", side="r", dist="hamming"))
    cases.append(dict(op="closest", tags=[["acgt", "c"], ["acgt", "g"], ["acgt", "t"], ["aggt", "t"], ["tttt", "a"]], a="atgt", side="f", dist="lev"))
    cases.append(dict(op="closest", tags=[["aaaa", "c"], ["aaaa", "g"], ["aaat", "t"], ["aaat", "a"], ["aaag", "a"]], a="aaac", side="f", dist="hamming"))
    for _ in range(n):
        la = rng.choice([0, 1, 3, 4, 4, 8, 8, 9])
        a = rseq(rng, la, al[:rng.choice([2, 4])])
        k = rng.random()
        if k < 0.4:
            b = rseq(rng, la, al)
        elif k < 0.8:
            b = a
            for _k in range(rng.choice([1, 2, 3])):
                b = mutate_tag(rng, b, rng.choice(["sub", "del", "ins"]), al) if b else rseq(rng, 1)
        else:
            b = rseq(rng, rng.choice([0, 1, 4, 7, 12]), al)
        cases.append(dict(op=rng.choice(["hamming", "lev", "lev"]), a=a, b=b))
    for _ in range(n):
        tl = rng.choice([2, 3, 4, 8])
        alpha = al[:rng.choice([2, 3, 4])]
        base = rseq(rng, tl, alpha)
        tags = []
        for _k in range(rng.choice([1, 2, 3, 5, 8])):
            t = base if rng.random() < 0.2 else (mutate_tag(rng, base, "sub", al) if rng.random() < 0.6 else rseq(rng, tl, alpha))
            tags.append([t, rseq(rng, 2, al)])
        side = rng.choice("fr")
        if side == "r":
            tags = [[y, x] for x, y in tags]
        q = mutate_tag(rng, base, rng.choice(["sub", "sub", "del", "ins", "none"]), al)
        cases.append(dict(op="closest", tags=tags, a=q, side=side, dist=rng.choice(["hamming", "lev"])))
    for _ in range(n):
        d = rng.choice(al)
        parts = []
        for _k in range(rng.choice([0, 1, 2, 3, 4])):
            parts.append(rseq(rng, rng.choice([0, 1, 4, 5]), al.replace(d, "")) if rng.random() < 0.7 else d * rng.choice([1, 2, 3]))
        s = "".join(parts)
        tagl, border, indel = rng.choice([4, 5, 8]), rng.choice([1, 2, 3]), rng.choice([1, 2])
        if rng.random() < 0.7:                  # structured: pre d^k1 tag d^k2 junk, tag length and delimiter runs around the declared ones
            nd = al.replace(d, "")
            k2 = max(0, border + rng.choice([-2, -1, 0, 0, 1, 2]))
            if rng.random() < 0.4:              # boundary of the "missing delimiters <= indel" test
                k2 = max(0, border - indel + rng.choice([0, 0, -1]))
            s = rseq(rng, rng.choice([0, 2, 6]), al) + d * max(0, border + rng.choice([-2, -1, 0, 0, 1])) + \
                rseq(rng, max(0, tagl + rng.choice([-3, -2, -1, 0, 0, 1, 2, 3])), nd) + d * k2 + \
                rseq(rng, rng.choice([0, 0, 1, 3]), nd)
        if rng.random() < 0.5:                  # inside the shape of C12_rescue_tag_spec: every admissible run length / tag length
            nd = al.replace(d, "")
            s = rseq(rng, rng.choice([0, 1, 5]), al) + rng.choice(nd) + d * rng.randint(1, border) + \
                rseq(rng, tagl + rng.randint(-indel, indel), nd) + d * rng.randint(max(1, border - indel), border) + rseq(rng, rng.choice([0, 0, 0, 1, 2]), nd)
        cases.append(dict(op="lookfortag", a=s, delim=d))
        cases.append(dict(op="rescue", a=s, delim=d, tagl=tagl, border=border, indel=indel))
    return cases


def unit_expected(c):
    if c["op"] == "hamming":
        return ("int", hamming(c["a"], c["b"]))
    if c["op"] == "lev":
        return ("int", lev(c["a"], c["b"]))
    if c["op"] == "closest":
        tags = [t[0] if c["side"] == "f" else t[1] for t in c["tags"]]
        t, d = unique_nearest(tags, c["a"], DIST[c["dist"]])
        return ("closest", t, d)
    if c["op"] == "lookfortag":
        return ("str", look_for_tag_spec(c["a"], c["delim"]))
    if c["op"] == "rescue":
        return ("rescue", rescue_expectation(c["a"], c["delim"], c["tagl"], c["border"], c["indel"]))
    return None


def unit_term(c, o):
    if c["op"] == "hamming":
        return "CHam %s %s %d" % (cs(c["a"]), cs(c["b"]), o["int"])
    if c["op"] == "lev":
        return "CLev %s %s %d" % (cs(c["a"]), cs(c["b"]), o["int"])
    if c["op"] == "closest":
        tags = "[" + ";".join("(%s,%s)" % (cs(a), cs(b)) for a, b in c["tags"]) + "]"
        d = "None" if not c["tags"] else "(Some %d)" % o["int"]
        return "CClosest %s %s %s %s %s %s" % (tags, cs(c["a"]), "true" if c["side"] == "f" else "false", "false" if c["dist"] == "hamming" else "true", cs(o["str"]), d)
    if c["op"] == "lookfortag":
        return "CLook %s %d %s" % (cs(c["a"]), ord(c["delim"]), cs(o["str"]))
    return "CRescue %s %d %d %d %d %s" % (cs(c["a"]), ord(c["delim"]), c["tagl"], c["border"], c["indel"], cs(o["str"]))


# ----------------------------------------------------------------------------- corpus (hand-written boundary cases, always first)
def corpus():
    P1, P2 = "gcatcgatgcaagtcctg", "ctagatgcgaattcgtcc"
    Q1, Q2 = "ttgacgcatagcgtacca", "ggatcatcgcgaatagtc"
    bar = "gattacagattacagattacacccc"
    out = []
    lib = dict(fmt="old", markers=[dict(fwd=P1, rev=P2, ftl=4, rtl=4, fsp=0, rsp=0, ferr=2, rerr=2, find=False, rind=False, fmode="strict", rmode="strict",
                                          fdelim=0, rdelim=0, ftind=0, rtind=0,
                                          samples=[dict(f="aacc", r="ggtt", sample="s1", exp="e"), dict(f="aacg", r="ggta", sample="s2", exp="e")])])
    sheet = "e s1 aacc:ggtt %s %s F @\ne s2 aacg:ggta %s %s F @\n" % (P1, P2, P1, P2)
    r1 = "tt" + "aacc" + P1 + bar + rc(P2) + rc("ggtt") + "aa"
    r0 = "aacc" + P1 + bar + rc(P2) + rc("ggtt")                      # no flank at all
    r2 = "acc" + P1 + bar + rc(P2) + rc("ggtt")                       # forward tag cut by one base
    r3 = "aacc" + P1 + rc(P2) + rc("ggtt")                            # empty barcode
    r4 = "aacg" + P1 + bar + rc(P2) + rc("ggtt")                      # undeclared tag combination
    reads = [r1, rc(r1), r0, rc(r0), r2, rc(r2), r3, r4, rc(r4), r1 + r0, rc(r1) + r0, P1, "a"]
    rds = [dict(read=r, kind="corpus", amps=[]) for r in reads]
    # fixed: left flank longer than 10000 bases (FilterBestMatch sentinel dropped every hit beyond position 10000)
    import random
    crng = random.Random(12)
    for n in (9990, 10050):
        a, inf = amplicon(crng, lib["markers"][0], lib["markers"][0]["samples"][0], barlen=20)
        fl = rseq(crng, n)
        inf["off"] = n; inf["flip"] = False
        rds.append(dict(read=fl + a + "ac", kind="canon", amps=[inf], tag="fixed:long-left-flank"))
        rds.append(dict(read=rc(fl + a + "ac"), kind="canon", amps=[inf], rc_of=len(rds) - 1))
    # seed C12-B class: chimeric reads whose amplicons have different status, in every order and orientation (an annotation map reused
    # across the amplicons of a read leaks the error flag / the sample of one amplicon into the next)
    m0 = lib["markers"][0]
    undeclared = dict(f="aacg", r="ggtt", sample="?", exp="?")
    for pat in ("gb", "bg", "gg", "bb"):
        for flips in ((False, False), (True, False), (False, True)):
            body, amps, goods = "", [], list(m0["samples"])
            for st, flip in zip(pat, flips):
                smp = goods.pop(0) if st == "g" else undeclared
                a, inf = amplicon(crng, m0, smp, barlen=12)
                inf["flip"] = flip; inf["off"] = 2 + len(body); inf["status"] = st
                body += (rc(a) if flip else a) + "ac"
                amps.append(inf)
            rds.append(dict(read="tt" + body, kind="chimera", amps=amps, pattern=pat, tag="seed:C12-B-class"))
            rds.append(dict(read=rc("tt" + body), kind="chimera", amps=amps, pattern=pat, rc_of=len(rds) - 1))
    out.append((lib, sheet, rds))
    lib2 = dict(fmt="csv", markers=[dict(fwd=P1, rev=P2, ftl=4, rtl=4, fsp=2, rsp=2, ferr=1, rerr=1, find=False, rind=False, fmode="hamming", rmode="hamming",
                                           fdelim=0, rdelim=0, ftind=0, rtind=0,
                                           samples=[dict(f="aaaa", r="cccc", sample="s1", exp="e"), dict(f="aaat", r="cccc", sample="s2", exp="e")]),
                                      dict(fwd=Q1, rev=Q2, ftl=0, rtl=8, fsp=2, rsp=2, ferr=1, rerr=1, find=False, rind=False, fmode="hamming", rmode="hamming",
                                           fdelim=0, rdelim=0, ftind=0, rtind=0, samples=[dict(f="", r="acgtacgt", sample="s3", exp="e")])])
    lib2["markers"].sort(key=lambda m: (m["fwd"], m["rev"]))
    sheet2 = ("@param,spacer,2\n@param,matching,hamming\n@param,primer_mismatches,1\nexperiment,sample,sample_tag,forward_primer,reverse_primer\n"
              "e,s1,aaaa:cccc,%s,%s\ne,s2,aaat:cccc,%s,%s\ne,s3,-:acgtacgt,%s,%s\n" % (P1, P2, P1, P2, Q1, Q2))
    t1 = "g" + "aaac" + "gg" + P1 + bar + rc(P2) + "tt" + rc("cccc") + "a"        # forward tag at distance 1 of BOTH declared tags: tie => error
    t2 = "g" + "aaaa" + "gg" + P1 + bar + rc(P2) + "tt" + rc("cccg") + "a"        # reverse tag at distance 1: unique nearest
    t3 = "gg" + Q1 + bar + rc(Q2) + "tt" + rc("acgtacga")
    reads2 = [t1, rc(t1), t2, rc(t2), t3, rc(t3), t2 + t3, rc(t3) + t2]
    out.append((lib2, sheet2, [dict(read=r, kind="corpus", amps=[]) for r in reads2]))
    # two markers whose forward primers differ by one base (budget 2): a read of either marker is hit by both forward patterns at the
    # same position; the records must still be the same on every run (fixed: markers examined in sorted order, stable sort of the hits)
    P1b = P1[:5] + "t" + P1[6:]
    mk = lambda f, r, t1, t2, sn: dict(fwd=f, rev=r, ftl=4, rtl=4, fsp=0, rsp=0, ferr=2, rerr=2, find=False, rind=False, fmode="strict", rmode="strict",
                                       fdelim=0, rdelim=0, ftind=0, rtind=0, samples=[dict(f=t1, r=t2, sample=sn, exp="e")])
    lib3 = dict(fmt="old", markers=sorted([mk(P1, P2, "aacc", "ggtt", "s1"), mk(P1b, Q2, "acac", "gtgt", "s2")], key=lambda m: (m["fwd"], m["rev"])),
                near_identical_primers=True)
    sheet3 = "e s1 aacc:ggtt %s %s F @\ne s2 acac:gtgt %s %s F @\n" % (P1, P2, P1b, Q2)
    n1 = "tt" + "aacc" + P1 + bar + rc(P2) + rc("ggtt") + "aa"
    n2 = "tt" + "acac" + P1b + bar + rc(Q2) + rc("gtgt") + "aa"
    out.append((lib3, sheet3, [dict(read=r, kind="corpus", amps=[], tag="fixed:near-identical-primers") for r in (n1, rc(n1), n2, rc(n2), n1 + n2, n2 + rc(n1))]))
    # primer indels (@indels true): an inserted base in the forward primer occurrence, a deleted base in the reverse one, both, and a
    # substitution + an insertion; the spans come from the library's matcher, the canonical clause is asserted when they are the intended ones
    lib5 = dict(fmt="csv", markers=[dict(fwd=P1, rev=P2, ftl=4, rtl=4, fsp=0, rsp=0, ferr=2, rerr=2, find=True, rind=True, fmode="strict", rmode="strict",
                                           fdelim=0, rdelim=0, ftind=0, rtind=0,
                                           samples=[dict(f="aacc", r="ggtt", sample="s1", exp="e"), dict(f="aacg", r="ggta", sample="s2", exp="e")])])
    sheet5 = "@param,indels,true\nexperiment,sample,sample_tag,forward_primer,reverse_primer\ne,s1,aacc:ggtt,%s,%s\ne,s2,aacg:ggta,%s,%s\n" % (P1, P2, P1, P2)
    rds5 = []
    for pf, pr in ((P1[:9] + "t" + P1[9:], P2), (P1, P2[:7] + P2[8:]), (P1[:9] + "t" + P1[9:], P2[:7] + P2[8:]), (P1[:5] + "a" + P1[6:11] + "c" + P1[11:], P2)):
        left = "aacc"; right = rc("ggtt")
        txt = left + pf + bar + rc(pr) + right
        inf = dict(fwd=P1, rev=P2, tf="aacc", tr="ggtt", pf=pf, pr=pr, bar=bar, kf=0, kr=0, pf_at=4, left=4, right=4, total=len(txt), rescue_ok=True, off=3, flip=False)
        rds5.append(dict(read="cat" + txt + "ga", kind="pmis", amps=[inf], tag="primer-indels"))
        rds5.append(dict(read=rc("cat" + txt + "ga"), kind="pmis", amps=[inf], rc_of=len(rds5) - 1))
    out.append((lib5, sheet5, rds5))
    # rescue extraction (C12_canonical_read_rescue): delimiter t, spacer 2, one tag indel, matching = indel; delimiter runs shortened,
    # observed tags with a deleted / inserted base (the first read is the Example C12_canonical_rescue_nonvacuous of Props.v)
    lib6 = dict(fmt="csv", markers=[dict(fwd=P1, rev=P2, ftl=4, rtl=4, fsp=2, rsp=2, ferr=2, rerr=2, find=False, rind=False, fmode="indel", rmode="indel",
                                           fdelim=ord("t"), rdelim=ord("t"), ftind=1, rtind=1,
                                           samples=[dict(f="aacc", r="ggaa", sample="s1", exp="e"), dict(f="ccgg", r="ccca", sample="s2", exp="e")])])
    sheet6 = ("@param,spacer,2\n@param,matching,indel\n@param,tag_delimiter,t\n@param,tag_indels,1\nexperiment,sample,sample_tag,forward_primer,reverse_primer\n"
              "e,s1,aacc:ggaa,%s,%s\ne,s2,ccgg:ccca,%s,%s\n" % (P1, P2, P1, P2))
    rds6 = []
    for (k1f, k2f, k1r, k2r, tf6, tr6) in ((2, 1, 1, 2, "aac", "ggaac"), (2, 2, 2, 2, "aacc", "ggaa"), (1, 1, 1, 1, "aacgc", "gga"), (2, 2, 2, 1, "ccgg", "cccaa"), (1, 2, 2, 2, "cgg", "ccca")):
        L6 = "g" + "t" * k1f + tf6 + "t" * k2f
        R6 = rc("g" + "t" * k1r + tr6 + "t" * k2r)
        txt = L6 + P1 + bar + rc(P2) + R6
        inf = dict(fwd=P1, rev=P2, tf=tf6, tr=tr6, pf=P1, pr=P2, bar=bar, kf=0, kr=0, pf_at=len(L6), left=len(L6), right=len(R6), total=len(txt), rescue_ok=True, off=2, flip=False)
        rds6.append(dict(read="gg" + txt + "a", kind="tagerr", amps=[inf], tag="rescue"))
        rds6.append(dict(read=rc("gg" + txt + "a"), kind="tagerr", amps=[inf], rc_of=len(rds6) - 1))
    out.append((lib6, sheet6, rds6))
    # BY DESIGN (C12_nearest_tag_has_no_distance_bound): hamming mode assigns a tag that shares no base with any declared tag
    # as soon as one declared tag is strictly nearer than the others
    lib4 = dict(fmt="csv", markers=[dict(fwd=P1, rev=P2, ftl=4, rtl=4, fsp=0, rsp=0, ferr=2, rerr=2, find=False, rind=False, fmode="hamming", rmode="hamming",
                                           fdelim=0, rdelim=0, ftind=0, rtind=0,
                                           samples=[dict(f="aaaa", r="cccc", sample="s1", exp="e"), dict(f="ggtt", r="cccc", sample="s2", exp="e")])])
    sheet4 = "@param,matching,hamming\nexperiment,sample,sample_tag,forward_primer,reverse_primer\ne,s1,aaaa:cccc,%s,%s\ne,s2,ggtt:cccc,%s,%s\n" % (P1, P2, P1, P2)
    g1 = "g" + "catt" + P1 + bar + rc(P2) + rc("cccc") + "a"     # catt: distance 4 to aaaa, 2 to ggtt -> s2
    g2 = "g" + "cgtc" + P1 + bar + rc(P2) + rc("ttta") + "a"     # reverse tag ttta at distance 4 of the only reverse tag -> still assigned
    out.append((lib4, sheet4, [dict(read=r, kind="corpus", amps=[], tag="by-design:no-distance-bound") for r in (g1, rc(g1), g2, rc(g2))]))
    # seed C12-C class: unequal spacers, fixed-position tags of different lengths, reads in BOTH orientations (on the reverse-oriented
    # read the forward tag is cut behind the complemented forward primer with the FORWARD spacer); a tag error on either side
    lib7 = dict(fmt="csv", markers=[dict(fwd=P1, rev=P2, ftl=4, rtl=8, fsp=2, rsp=0, ferr=2, rerr=2, find=False, rind=False, fmode="strict", rmode="strict",
                                           fdelim=0, rdelim=0, ftind=0, rtind=0,
                                           samples=[dict(f="aacc", r="ggttggaa", sample="s1", exp="e", extra={}), dict(f="acgt", r="ggttggaa", sample="s2", exp="e", extra={}),
                                                    dict(f="cgta", r="ttggaagg", sample="s3", exp="e", extra={})]),
                                      dict(fwd=Q1, rev=Q2, ftl=8, rtl=4, fsp=0, rsp=3, ferr=2, rerr=2, find=False, rind=False, fmode="strict", rmode="strict",
                                           fdelim=0, rdelim=0, ftind=0, rtind=0, samples=[dict(f="acgtacgt", r="ttgg", sample="s4", exp="e", extra={})])])
    lib7["markers"].sort(key=lambda m: (m["fwd"], m["rev"]))
    sheet7 = ("@param,forward_spacer,2\n@param,reverse_spacer,0\n@param,spacer,%s,0\n@param,spacer,%s,3\nexperiment,sample,sample_tag,forward_primer,reverse_primer\n"
              "e,s1,aacc:ggttggaa,%s,%s\ne,s2,acgt:ggttggaa,%s,%s\ne,s3,cgta:ttggaagg,%s,%s\ne,s4,acgtacgt:ttgg,%s,%s\n" % (Q1, Q2.upper(), P1, P2, P1, P2, P1, P2, Q1, Q2))
    rds7 = []
    for m7 in lib7["markers"]:
        for s7 in m7["samples"]:
            for tm in (None, ("f", "sub"), ("r", "sub")):
                a, inf = amplicon(crng, m7, s7, barlen=15, tagmut=tm)
                inf["off"] = 3; inf["flip"] = False
                if tm:
                    inf["tagmut"] = tm
                rds7.append(dict(read="cat" + a + "ga", kind="tagerr" if tm else "canon", amps=[inf], tag="seed:C12-C-class"))
                rds7.append(dict(read=rc("cat" + a + "ga"), kind="tagerr" if tm else "canon", amps=[inf], rc_of=len(rds7) - 1))
    out.append((lib7, sheet7, rds7))
    # seed C12-D class: every two-argument @param form (spacer, tag_delimiter, tag_indels, primer_mismatches, indels), the primer written in
    # capitals: each must reach the named primer only (forward side of the first marker in rescue mode, its reverse side untouched; reverse
    # budget of the second marker 1, indels for its forward primer only)
    lib8 = dict(fmt="csv", markers=[dict(fwd=P1, rev=P2, ftl=4, rtl=4, fsp=2, rsp=0, ferr=2, rerr=2, find=False, rind=False, fmode="strict", rmode="strict",
                                           fdelim=ord("t"), rdelim=0, ftind=1, rtind=0,
                                           samples=[dict(f="aacc", r="ggaa", sample="s1", exp="e", extra={}), dict(f="ccgg", r="ctca", sample="s2", exp="e", extra={})]),
                                      dict(fwd=Q1, rev=Q2, ftl=0, rtl=8, fsp=0, rsp=0, ferr=2, rerr=1, find=True, rind=False, fmode="strict", rmode="strict",
                                           fdelim=0, rdelim=0, ftind=0, rtind=0, samples=[dict(f="", r="acgtacgt", sample="s3", exp="e", extra={})])],
                per_primer_params=5)
    lib8["markers"].sort(key=lambda m: (m["fwd"], m["rev"]))
    sheet8 = ("@param,spacer,%s,2\n@param,tag_delimiter,%s,T\n@param,tag_indels,%s,1\n@param,primer_mismatches,%s,1\n@param,indels,%s,true\n"
              "experiment,sample,sample_tag,forward_primer,reverse_primer\ne,s1,aacc:ggaa,%s,%s\ne,s2,ccgg:ctca,%s,%s\ne,s3,-:acgtacgt,%s,%s\n"
              % (P1.upper(), P1.upper(), P1.upper(), Q2.upper(), Q1.upper(), P1, P2, P1, P2, Q1, Q2))
    rds8 = []
    for m8 in lib8["markers"]:
        for s8 in m8["samples"]:
            for kr in (0, 1, 2):
                a, inf = amplicon(crng, m8, s8, barlen=15, kr=kr)
                inf["off"] = 3; inf["flip"] = False
                rds8.append(dict(read="cat" + a + "ga", kind="pmis", amps=[inf], tag="seed:C12-D-class"))
                rds8.append(dict(read=rc("cat" + a + "ga"), kind="pmis", amps=[inf], rc_of=len(rds8) - 1))
    out.append((lib8, sheet8, rds8))
    return out


def template_case(ctx, broken):
    """the sheet printed by `obimultiplex --template` (what the documentation tells the users to write): read by declared_from_csv (its comments,
    its '0' delimiters, its capital primers), it must be accepted and mean what it says; canonical reads of each of its samples, both
    strands, in process and through the command"""
    from vlib import sh
    bindir = command_dir(ctx, broken)
    if not bindir:
        return None
    rcode, out, err, dt = sh([os.path.join(bindir, "obimultiplex"), "--template"], timeout=60)
    if rcode != 0 or "sample_tag" not in out:
        broken.append(dict(kind="command", detail="obimultiplex --template: exit %s %s" % (rcode, err[-300:])))
        return None
    try:
        lib = declared_from_csv(out)
    except Exception as e:                           # a template this reader does not understand: nothing is asserted about it
        ctx.cov["template_not_understood"] = repr(e)
        return None
    import random
    trng = random.Random(1200 + ctx.seed)
    lib["cli"] = dict(emis=0, windels=False, mode="unid", cpu=2, batch=3)
    lib["template"] = True
    return lib, out, gen_reads(trng, lib, 8)


# ----------------------------------------------------------------------------- the obimultiplex command (IExtractBarcode: options, worker, routing)
KNOWN_KEYS = {"obimultiplex_direction", "obimultiplex_forward_primer", "obimultiplex_reverse_primer", "obimultiplex_forward_match", "obimultiplex_reverse_match",
              "obimultiplex_forward_error", "obimultiplex_reverse_error", "obimultiplex_forward_tag", "obimultiplex_reverse_tag", "obimultiplex_forward_proposed_tag",
              "obimultiplex_reverse_proposed_tag", "obimultiplex_forward_tag_dist", "obimultiplex_reverse_tag_dist", "sample", "experiment", "obimultiplex_error",
              "obimultiplex_amplicon_rank", "obimultiplex_forward_matching", "obimultiplex_reverse_matching"}


def rec_of(seq, ann):
    """one record of a command output (sequence + JSON header) in the shape of the harness observation"""
    g = lambda k: str(ann[k]) if k in ann else ""
    gi = lambda k: (ann[k] if isinstance(ann[k], int) and not isinstance(ann[k], bool) else -2) if k in ann else -1
    return dict(seq=seq, dir=g("obimultiplex_direction"), fp=g("obimultiplex_forward_primer"), rp=g("obimultiplex_reverse_primer"),
                fm=g("obimultiplex_forward_match"), rm=g("obimultiplex_reverse_match"), fe=gi("obimultiplex_forward_error"), re=gi("obimultiplex_reverse_error"),
                ft=g("obimultiplex_forward_tag"), rt=g("obimultiplex_reverse_tag"), fpt=g("obimultiplex_forward_proposed_tag"), rpt=g("obimultiplex_reverse_proposed_tag"),
                has_fpt="obimultiplex_forward_proposed_tag" in ann, has_rpt="obimultiplex_reverse_proposed_tag" in ann,
                fd=gi("obimultiplex_forward_tag_dist"), rd=gi("obimultiplex_reverse_tag_dist"), sample=g("sample"), has_sample="sample" in ann,
                exp=g("experiment"), err=g("obimultiplex_error"), has_err="obimultiplex_error" in ann, rank=g("obimultiplex_amplicon_rank"),
                fmt=g("obimultiplex_forward_matching"), rmt=g("obimultiplex_reverse_matching"),
                extra={k: str(v) for k, v in ann.items() if k not in KNOWN_KEYS})


def parse_fasta(txt):
    """{read index: [records]} of a fasta file written by the command (ids r<i> or r<i>_sub[a..b])"""
    out = {}
    cur = None
    for line in txt.splitlines():
        if line.startswith(">"):
            hd = line[1:].split(" ", 1)
            m = re.match(r"^r(\d+)(_sub\[\d+\.\.\d+\])?$", hd[0])
            ann = json.loads(hd[1]) if len(hd) > 1 and hd[1].strip().startswith("{") else {}
            cur = [int(m.group(1)) if m else -1, ann, []]
            out.setdefault(cur[0], []).append(cur)
        elif cur is not None:
            cur[2].append(line.strip())
    return {k: [rec_of("".join(c[2]), c[1]) for c in v] for k, v in out.items()}


def route(mode, recs):
    """THE ROUTING OF THE COMMAND (the statement; Model.v route): what goes to the standard output and to the -u file"""
    good = [r for r in recs if not r["has_err"]]
    bad = [r for r in recs if r["has_err"]]
    if mode == "keep":
        return recs, []
    if mode in ("unid", "keep+unid"):               # with a file for the flagged records --keep-errors adds nothing
        return good, bad
    return good, []


def run_command(bindir, lib, txt, reads, wd, tag):
    """runs obimultiplex on the sheet and the reads (fasta, the reads' own annotations in the headers) with the options of lib['cli'];
    returns (argv, rc, {read: records on stdout}, {read: records in the -u file}, stderr tail)"""
    from vlib import sh
    cli = lib["cli"]
    sf, rf, uf = os.path.join(wd, tag + ".sheet"), os.path.join(wd, tag + ".fasta"), os.path.join(wd, tag + ".unid.fasta")
    open(sf, "w").write(txt)
    how = cli.get("input", "file")                   # how the reads reach the command: one file, standard input, two files, gzip, fastq

    def rec(i, r, fastq=False):
        hd = "r%d%s" % (i, (" " + json.dumps(r["annots"], sort_keys=True)) if r.get("annots") else "")
        return "@%s\n%s\n+\n%s\n" % (hd, r["read"], "I" * len(r["read"])) if fastq else ">%s\n%s\n" % (hd, r["read"])
    whole = "".join(rec(i, r, how == "fastq") for i, r in enumerate(reads))
    inputs, stdin = [rf], None
    if how == "stdin":
        inputs, stdin = [], whole.encode()
    elif how == "two_files":
        k = len(reads) // 2
        inputs = [os.path.join(wd, tag + ".a.fasta"), os.path.join(wd, tag + ".b.fasta")]
        open(inputs[0], "w").write("".join(rec(i, r) for i, r in enumerate(reads) if i < k))
        open(inputs[1], "w").write("".join(rec(i, r) for i, r in enumerate(reads) if i >= k))
    elif how == "gz":
        import gzip
        inputs = [rf + ".gz"]
        with gzip.open(inputs[0], "wt") as f:
            f.write(whole)
    elif how == "fastq":
        inputs = [os.path.join(wd, tag + ".fastq")]
        open(inputs[0], "w").write(whole)
    else:
        open(rf, "w").write(whole)
    argv = [os.path.join(bindir, "obimultiplex"), "-t", sf, "--batch-size", str(cli.get("batch", 100)), "--no-progressbar", "--fasta-output"]
    argv += ["--force-one-cpu"] if cli.get("one_cpu") else ["--max-cpu", str(cli.get("cpu", 1))]
    if cli.get("no_order"):
        argv += ["--no-order"]
    if cli.get("emis"):
        argv += ["-e", str(cli["emis"])]
    if cli.get("windels"):
        argv += ["--with-indels"]
    if cli.get("mode") in ("keep", "keep+unid"):
        argv += ["--keep-errors"]
    if cli.get("mode") in ("unid", "keep+unid"):
        argv += ["-u", uf]
    argv += inputs
    rcode, out, err, dt = sh(argv, timeout=120, inp=stdin)
    unid = {}
    if cli.get("mode") in ("unid", "keep+unid") and os.path.exists(uf):
        unid = parse_fasta(open(uf).read())
    return argv, rcode, parse_fasta(out), unid, err[-600:]


def sheet_params(txt):
    """the @param lines of a sheet, in order: [(name, [values])]"""
    out = []
    for line in txt.splitlines():
        if line.startswith("@param,"):
            f = [x.strip() for x in line.split(",")]
            out.append((f[1], f[2:]))
    return out


PARAM_KIND = dict(spacer=("", "FSpacer"), forward_spacer=("FwdOnly", "FSpacer"), reverse_spacer=("RevOnly", "FSpacer"),
                  tag_delimiter=("", "FDelim"), forward_tag_delimiter=("FwdOnly", "FDelim"), reverse_tag_delimiter=("RevOnly", "FDelim"),
                  matching=("", "FMode"), primer_mismatches=("", "FErr"), forward_mismatches=("FwdOnly", "FErr"), reverse_mismatches=("RevOnly", "FErr"),
                  tag_indels=("", "FTind"), forward_tag_indels=("FwdOnly", "FTind"), reverse_tag_indels=("RevOnly", "FTind"),
                  indels=("", "FInd"), forward_indels=("FwdOnly", "FInd"), reverse_indels=("RevOnly", "FInd"))


def param_term(name, values):
    """one @param line as a term of Cmd.v (None: a line the model does not know)"""
    if name not in PARAM_KIND or not (1 <= len(values) <= 2):
        return None
    sc, fld = PARAM_KIND[name]
    if len(values) == 2:
        if sc != "" or fld == "FMode":
            return None
        sc = "(For %s)" % cs(values[0].lower())
    elif sc == "":
        sc = "Both"
    v = values[-1]
    if fld == "FDelim":
        arg = str(ord(v[0]))
    elif fld == "FMode":
        arg = str(MODES[v])
    elif fld == "FInd":
        arg = "true" if v == "true" else "false"
    else:
        arg = str(int(v))
    return "mkP %s (%s %s)" % (sc, fld, arg)


def params_case(lib, txt, observed):
    """CParams: primer pairs of the sheet, its @param lines, the command-line overrides, the settings observed in the library"""
    ps = [param_term(n, v) for n, v in sheet_params(txt)]
    if any(p is None for p in ps):
        return None
    cli = lib.get("cli") or {}
    side = lambda m, x: "(mkS %d %d %d %d %d %s)" % (m[x + "sp"], m[x + "err"], MODES[m[x + "mode"]], m[x + "delim"], m[x + "tind"], "true" if m[x + "ind"] else "false")
    obs_t = "[" + ";".join("mkPM %s %s %s %s" % (cs(m["fwd"]), cs(m["rev"]), side(m, "f"), side(m, "r")) for m in observed) + "]"
    prs = "[" + ";".join("(%s,%s)" % (cs(m["fwd"]), cs(m["rev"])) for m in observed) + "]"
    return "CParams %s [%s] (%d)%%Z %s %s" % (prs, ";".join(ps), cli.get("emis") or 0, "true" if cli.get("windels") else "false", obs_t)


def declared_from_csv(txt):
    """what a CSV sheet SAYS, read independently of the library and of the generator (used for the documentation template):
    comment lines, @param lines (one value: every primer / the forward ones / the reverse ones; two values: one primer), header, rows"""
    rows = [l.strip() for l in txt.splitlines() if l.strip() and not l.lstrip().startswith("#")]
    params = [[x.strip() for x in r.split(",")] for r in rows if r.startswith("@param,")]
    data = [r for r in rows if not r.startswith("@param,")]
    header = [h.strip() for h in data[0].split(",")]
    required = ("experiment", "sample", "sample_tag", "forward_primer", "reverse_primer")
    markers = {}
    for r in data[1:]:
        f = dict(zip(header, [x.strip() for x in r.split(",")]))
        tg = f["sample_tag"].lower().split(":")
        tf, tr = (tg[0], tg[0]) if len(tg) == 1 else (("" if tg[0] == "-" else tg[0]), ("" if tg[1] == "-" else tg[1]))
        key = (f["forward_primer"].lower(), f["reverse_primer"].lower())
        m = markers.setdefault(key, dict(fwd=key[0], rev=key[1], fsp=0, rsp=0, ferr=2, rerr=2, find=False, rind=False, fmode="strict", rmode="strict",
                                         fdelim=0, rdelim=0, ftind=0, rtind=0, samples=[]))
        m["samples"].append(dict(f=tf, r=tr, sample=f["sample"], exp=f["experiment"], extra={k: v for k, v in f.items() if k not in required}))
    FIELD = dict(spacer="sp", tag_delimiter="delim", matching="mode", primer_mismatches="err", mismatches="err", tag_indels="tind", indels="ind")
    for p in params:
        name, vals = p[1], p[2:]
        side, base = "fr", name
        if name.startswith("forward_"):
            side, base = "f", name[8:]
        elif name.startswith("reverse_"):
            side, base = "r", name[8:]
        fld, v = FIELD[base], vals[-1]
        v = (v == "true") if fld == "ind" else (0 if v == "0" else ord(v.lower())) if fld == "delim" else v if fld == "mode" else int(v)
        for m in markers.values():
            if len(vals) == 2:
                if m["fwd"] == vals[0].lower():
                    m["f" + fld] = v
                elif m["rev"] == vals[0].lower():
                    m["r" + fld] = v
            else:
                for sd in side:
                    m[sd + fld] = v
    ms = sorted(markers.values(), key=lambda m: (m["fwd"], m["rev"]))
    for m in ms:
        m["samples"].sort(key=lambda x: (x["f"], x["r"]))
        m["ftl"], m["rtl"] = len(m["samples"][0]["f"]), len(m["samples"][0]["r"])
    return dict(markers=ms, fmt="csv")


def command_dir(ctx, broken):
    d = getattr(ctx, "c12_bindir", None)
    if d is None:
        d, err = ctx.build_cmds(["obimultiplex"])
        if d is None:
            broken.append(dict(kind="command-build", detail=err))
            d = ""
        ctx.c12_bindir = d
    return d or None


def check_extras(lib, rd, r):
    """annotations of a record beyond the demultiplexing vocabulary: those the read carried + those the sheet declares for the assigned sample"""
    exp = own_annotations(rd.get("annots"))
    if r["has_sample"] and r["fp"]:
        _, m = find_marker(lib, r["fp"], r["rp"])
        if m is not None:
            smp, _ = expected_sample(m, r["ft"], r["rt"])
            if smp is not None:
                exp = dict(exp, **smp.get("extra", {}))
    got = r.get("extra") or {}
    if got != exp:
        return "annotations besides the demultiplexing ones: expected %r (the read's own + those declared for the sample), got %r" % (exp, got)
    return None


# ----------------------------------------------------------------------------- evaluation
def evaluate(ctx, sheets, units, broken, label, report=True, corr=True):
    """sheets: list of (lib, sheet text, reads). Runs the real code, the direct oracle and the correspondence."""
    def reps_for(lib):
        # fresh Go maps on every repetition: matters when the sample table is scanned (hamming / indel) or several markers compete
        ms = lib.get("markers", [])
        return 4 if (len(ms) > 1 or any(m["fmode"] != "strict" or m["rmode"] != "strict" for m in ms)) else 2
    def demux_case(lib, txt, reads):
        c = dict(op="demux", sheet=txt, reads=[r["read"] for r in reads], hits=True, reps=reps_for(lib))
        if any(r.get("annots") for r in reads):
            c["annots"] = [r.get("annots") or {} for r in reads]
        if lib.get("cli"):                           # through the real ExtractMultiBarcodeSliceWorker with the command-line options
            c.update(via="worker", emis=lib["cli"].get("emis", 0), windels=bool(lib["cli"].get("windels")))
        return c
    cases = [demux_case(lib, txt, reads) for (lib, txt, reads) in sheets] + units
    tm = ctx.cov.setdefault("timing_s", {})
    t0 = time.time()
    obs = ctx.vh_robust("c12", cases, timeout=600, one_timeout=20)
    tm[label + "/real_code"] = round(time.time() - t0, 1); t0 = time.time()
    stats = ctx.cov.setdefault("distribution", {})

    def bump(k, n=1):
        stats[k] = stats.get(k, 0) + n
    nviol = [0]
    perkind = {}

    def viol(kind, payload):
        nviol[0] += 1
        perkind[kind] = perkind.get(kind, 0) + 1
        if report and perkind[kind] <= 2 and len(perkind) <= 5:      # at most two replays per clause
            ctx.violation("%s_%s_%d" % (label, kind, nviol[0]), dict(property="C12", kind=kind, **payload))
    terms, term_src = [], []
    nmal = [0]
    terms3, term3_src = [], []                       # cases of the round-3 model (Cmd.v): routing of the command, @param application
    for ci, ((lib, txt, reads), o) in enumerate(zip(sheets, obs)):
        if lib.get("malformed"):
            bump("sheet/malformed")
            bump("sheet/" + lib["malformed"].split(":")[0] + (":" + lib["malformed"].split(": ")[1] if lib["malformed"].startswith("not a library") else ""))
            if nmal[0] % 3 == 0:                      # the command must refuse the sheet too: non-zero exit, no record written
                bindir = command_dir(ctx, broken)
                if bindir:
                    wdm = tempfile.mkdtemp(prefix="c12cmd_")
                    try:
                        argv, rcode, so, su, errtail = run_command(bindir, dict(lib, cli=dict(mode="keep", cpu=1, batch=10)), txt, reads, wdm, "mal")
                    finally:
                        shutil.rmtree(wdm, ignore_errors=True)
                    bump("command_runs_on_refused_sheets")
                    if rcode == 0 or so:
                        viol("malformed", dict(case=dict(sheet=txt, reads=[r["read"] for r in reads]), argv=" ".join(os.path.basename(a) for a in argv),
                                               implementation=dict(exit=rcode, records=sum(len(v) for v in so.values()), stderr=errtail[-300:]),
                                               expected="obimultiplex refuses the sheet (%s): non-zero exit status and no record on the output" % lib["malformed"]))
            nmal[0] += 1
            if o["kind"] != "parse_error" and not (lib.get("fatal_ok") and o["kind"] == "fatal"):
                viol("malformed", dict(case=dict(sheet=txt, reads=[r["read"] for r in reads]), implementation=dict(kind=o["kind"], err=o.get("err")),
                                       expected="sheet rejected by ReadNGSFilter (%s)" % lib["malformed"]))
            continue
        bump("sheet/" + lib["fmt"]); bump("sheet/markers=%d" % len(lib["markers"]))
        if lib.get("big"):
            bump("sheet/larger_than_3KiB"); bump("sheet/larger_than_128KiB", 1 if lib["big"] > 131072 else 0)
        if lib.get("per_primer_params"):
            bump("sheet/with_per_primer_params")
        if lib.get("cli"):
            bump("sheet/through_worker_and_command"); bump("cli/mode=" + lib["cli"].get("mode", "default"))
            if lib["cli"].get("emis"):
                bump("cli/-e")
            if lib["cli"].get("windels"):
                bump("cli/--with-indels")
        if lib.get("template"):
            bump("sheet/documentation_template")
        if lib.get("many"):
            bump("sheet/many_reads_through_8_workers"); bump("reads_through_8_workers", len(reads))
        if lib.get("unknown_primer_param"):
            bump("sheet/param_for_unknown_primer")
            if o["kind"] in ("parse_error", "fatal"):   # refusing such a sheet would be fine too; applying the line to another primer is not
                bump("sheet/param_for_unknown_primer/rejected"); continue
        if o["kind"] != "ok":
            viol("parse", dict(case=dict(sheet=txt, reads=[]), implementation=o, expected="sheet accepted"))
            continue
        d = check_parse(lib, o["lib"])
        pt = params_case(lib, txt, o["lib"])
        if pt:                                       # the settings of every primer, computed from the @param lines by the model (Cmd.v)
            terms3.append(pt); term3_src.append(("params", ci, 0)); bump("corr/params")
            if any(len(v) == 2 for _, v in sheet_params(txt)):
                bump("corr/params/with_one_primer_lines")
        if d:
            viol("parse", dict(case=dict(sheet=txt, reads=[]), implementation=d["got"], expected=d["expected"]))
            continue
        sid = {}
        for m in lib["markers"]:
            for s in m["samples"]:
                sid.setdefault((s["sample"], s["exp"]), len(sid))
        indel_primers = any(m["find"] or m["rind"] for m in lib["markers"])
        # DETERMINISM of the records (needed for every clause to be a statement about THE output): same sheet, same read, fresh maps
        for u in (o.get("unstable") or [])[:1]:
            ri = u["read"]
            key = order_dependence_key(lib)
            if key and ctx.kf_match(key):
                ctx.known(key, "records depend on the iteration order of a Go map"); bump("known/" + key)
            else:
                viol("order", dict(case=dict(sheet=txt, reads=[reads[ri]["read"]] if ri >= 0 else [], declared=lib, rd=dict({k: v for k, v in reads[max(ri, 0)].items() if k != "rc_of"}, is_rc="rc_of" in reads[max(ri, 0)])),
                                   implementation=dict(first_run=o["reads"][ri] if ri >= 0 else None, another_run=u.get("recs")),
                                   expected="the same records on every run (the sheet was parsed and the read demultiplexed %d times)" % reps_for(lib)))
        bump("reps", reps_for(lib))
        applicable = {}
        for ri, (rd, recs) in enumerate(zip(reads, o["reads"])):
            bump("read/" + rd["kind"])
            if rd.get("pattern"):
                bump("chimera2/" + rd["pattern"])
            rep = dict(case=dict(sheet=txt, reads=[rd["read"]], declared=lib, rd=dict({k: v for k, v in rd.items() if k != "rc_of"}, is_rc="rc_of" in rd or bool(rd.get("is_rc")))), read_kind=rd["kind"], implementation=recs)
            # SAFETY: every record
            if rd.get("annots"):
                bump("read/carrying_annotations")
                if any(k in TOOL_KEYS or k.startswith("obimultiplex_") for k in rd["annots"]):
                    bump("read/carrying_annotations/of_a_previous_demultiplexing")
            for r in recs:
                why = check_safety(lib, r) or check_extras(lib, rd, r)
                if why:
                    viol("safety", dict(rep, expected=why)); break
                if r["has_sample"]:
                    bump("assigned")
                    bump("mode/%s" % find_marker(lib, r["fp"], r["rp"])[1]["fmode"])
                elif r["fp"]:
                    bump("flagged_amplicon")
                else:
                    bump("no_barcode")
            lhits = hook_hits(lib, o["hits"][ri])              # what the library's matcher found (verif hook)
            hits = all_hits(lib, rd["read"]) if not indel_primers else lhits
            # CANONICAL
            exp = canonical_expectation(lib, rd, hits)
            if exp is not None:
                bump("canonical_asserted" + ("/rc" if ("rc_of" in rd or rd.get("is_rc")) else "/fwd"))
                if indel_primers:
                    bump("canonical_asserted/primer_indels")
                    if any(len(a["pf"]) != len(a["fwd"]) or len(a["pr"]) != len(a["rev"]) for a in rd["amps"]):
                        bump("canonical_asserted/primer_indels/length_changed")
                if any((find_marker(lib, a["fwd"], a["rev"])[1]["ftind"] and find_marker(lib, a["fwd"], a["rev"])[1]["fdelim"]) or
                       (find_marker(lib, a["fwd"], a["rev"])[1]["rtind"] and find_marker(lib, a["fwd"], a["rev"])[1]["rdelim"]) for a in rd["amps"]):
                    bump("canonical_asserted/rescue")
                    if any("tagmut" in a and a["tagmut"][1] in ("del", "ins") for a in rd["amps"]):
                        bump("canonical_asserted/rescue/tag_indel")
                if rd.get("pattern"):
                    bump("canonical_asserted/chimera2/" + rd["pattern"])
                why = compare_canonical(exp, recs)
                if why:
                    viol("canonical", dict(rep, expected=dict(why=why, records=exp)))
                # STRAND SYMMETRY (asserted on the canonical shape; the hypothesis "the primer hits are exactly the two priming sites"
                # must hold on BOTH strands, as in C12_strand_symmetry: the library searches the complemented patterns only behind a direct
                # hit, so with near-identical primers of two markers its hit lists on the two strands are not mirror images)
                applicable[ri] = True
                if "rc_of" in rd and not applicable.get(rd["rc_of"]):
                    bump("strand_not_applicable(hits differ between strands)")
                elif "rc_of" in rd:
                    fw = o["reads"][rd["rc_of"]]
                    key = lambda r: (r["seq"], r["dir"], r["fp"], r["rp"], r["fm"], r["rm"], r["fe"], r["re"], r["ft"], r["rt"], r["has_sample"], r["sample"], r["exp"], r["has_err"])
                    if [key(r) for r in mirror(fw)] != [key(r) for r in recs]:
                        viol("strand", dict(rep, forward_read=reads[rd["rc_of"]]["read"], expected=mirror(fw)))
                    bump("strand_asserted")
            elif rd["kind"] in ("canon", "pmis", "tagerr", "chimera"):
                bump("canonical_not_applicable(spurious-hit/rescue/indel)")
            # correspondence term. Hits of different patterns starting at the same position are examined in the order
            # (marker in primer order; forward, complemented reverse, reverse, complemented forward) - fixed in round 2, part of the model
            begins = {}
            for h in hits:
                if h[0] in begins and begins[h[0]] != (h[3], h[4]):
                    bump("corr/with_begin_tie"); break
                begins[h[0]] = (h[3], h[4])
            rank = dict(f=0, cr=1, r=2, cf=3)
            lhits = sorted(lhits, key=lambda h: (h[3], rank[h[4]]))
            if rd["kind"] == "copy":
                continue
            if indel_primers:
                # the matcher is a parameter: the model gets the spans the library's matcher reported
                terms.append(demux_hits_term(lib, sid, rd["read"], lhits, recs)); term_src.append(("demux", ci, ri)); bump("corr/demux_hits(primer_indels)")
            else:
                terms.append(demux_term(lib, sid, rd["read"], recs)); term_src.append(("demux", ci, ri))
                if ri % 4 == 0:                     # same case with the library's own hits (ties the hit export hook to the matcher model)
                    terms.append(demux_hits_term(lib, sid, rd["read"], lhits, recs)); term_src.append(("demux", ci, ri)); bump("corr/demux_hits")
    # THE COMMAND: obimultiplex -t sheet [-e N] [--with-indels] [--keep-errors | -u file] on the same sheet and reads must write exactly the records
    # judged above (same library options through the same worker, in process), routed by their error flag
    tm[label + "/oracle"] = round(time.time() - t0, 1); t0 = time.time()
    todo = [(ci, lib, txt, reads) for ci, ((lib, txt, reads), o) in enumerate(zip(sheets, obs)) if lib.get("cli") and not lib.get("malformed") and o.get("kind") == "ok"]
    if todo:
        bindir = command_dir(ctx, broken)
        if bindir:
            wd = tempfile.mkdtemp(prefix="c12cmd_")
            try:
                from concurrent.futures import ThreadPoolExecutor
                with ThreadPoolExecutor(max_workers=4) as ex:
                    runs = list(ex.map(lambda t: run_command(bindir, t[1], t[2], t[3], wd, "%s_%d" % (label, t[0])), todo))
            finally:
                shutil.rmtree(wd, ignore_errors=True)
            norm = lambda rs: sorted(({k: v for k, v in r.items()} for r in rs), key=lambda r: r.get("rank", ""))
            for (ci, lib, txt, reads), (argv, rcode, so, su, errtail) in zip(todo, runs):
                bump("command_runs"); bump("command_input/" + lib["cli"].get("input", "file"))
                if lib["cli"].get("no_order"):
                    bump("command_flag/--no-order")
                if lib["cli"].get("one_cpu"):
                    bump("command_flag/--force-one-cpu")
                mode = lib["cli"].get("mode", "default")
                bad_ri, why = None, None
                if rcode != 0:
                    bad_ri, why = 0, "the command failed (exit %s): %s" % (rcode, errtail)
                for ri, recs in enumerate(obs[ci]["reads"]):
                    if bad_ri is not None:
                        break
                    e_out, e_un = route(mode, recs)
                    bump("command_records_compared", len(recs))
                    if e_un:
                        bump("command_records_in_unidentified_file", len(e_un))
                    if len(e_out) < len(recs) and mode == "default":
                        bump("command_records_discarded_by_default", len(recs) - len(e_out))
                    if norm(so.get(ri, [])) != norm(e_out):
                        bad_ri, why = ri, "standard output"
                    elif norm(su.get(ri, [])) != norm(e_un):
                        bad_ri, why = ri, "file given to -u"
                if bad_ri is None and (set(so) | set(su)) - set(range(len(reads))):
                    bad_ri, why = 0, "records of unknown reads in the output"
                if bad_ri is not None:
                    rd = reads[bad_ri]
                    e_out, e_un = route(mode, obs[ci]["reads"][bad_ri])
                    viol("command", dict(case=dict(sheet=txt, reads=[rd["read"]], declared=lib, rd=dict({k: v for k, v in rd.items() if k != "rc_of"}, is_rc="rc_of" in rd or bool(rd.get("is_rc")))),
                                         argv=" ".join(os.path.basename(a) for a in argv), differs_in=why,
                                         implementation=dict(stdout=so.get(bad_ri, []), unidentified_file=su.get(bad_ri, [])),
                                         expected=dict(stdout=e_out, unidentified_file=e_un,
                                                       why="the records of the in-process run of the same library (judged by the oracle and the model), "
                                                           "routed by their obimultiplex_error flag: default = unflagged only, --keep-errors = all, -u = flagged ones to the file")))
                # routing inside Coq: the flags of the records of every read, the mode, what was seen on each side
                if corr and rcode == 0:
                    MODE = {"default": "MDefault", "keep": "MKeep", "unid": "MUnid", "keep+unid": "MKeepUnid"}[mode]
                    for ri, recs in enumerate(obs[ci]["reads"][:6]):
                        fl = lambda rs: "[" + ";".join("(%d,%s)" % (i, "true" if r["has_err"] else "false") for i, r in rs) + "]"
                        idx = {json.dumps(r, sort_keys=True): i for i, r in enumerate(recs)}
                        back = lambda rs: [(idx.get(json.dumps(r, sort_keys=True), 999), r) for r in norm(rs)]
                        terms3.append("CRoute %s %s %s %s" % (MODE, fl(list(enumerate(recs))), fl(back(so.get(ri, []))), fl(back(su.get(ri, [])))))
                        term3_src.append(("route", ci, ri)); bump("corr/route")
    tm[label + "/command"] = round(time.time() - t0, 1); t0 = time.time()
    for ui, (c, o) in enumerate(zip(units, obs[len(sheets):])):
        bump("unit/" + c["op"])
        if o["kind"] in ("crash", "panic", "fatal"):
            viol("unit", dict(case=c, implementation=o, expected="a value")); continue
        e = unit_expected(c)
        ok = True
        if e and e[0] == "int":
            ok = o["int"] == e[1]
        elif e and e[0] == "str":
            ok = o["str"] == e[1]
        elif e and e[0] == "closest":
            # EVERY iteration order of the sample map that was observed must give the unique nearest tag
            ords = o.get("orders") or []
            ok = o["stable"] and all(x["tag"] == e[1] and (e[2] is None or x["dist"] == e[2]) for x in ords) and (bool(ords) or not c["tags"])
            bump("closest/orders_observed", o.get("n_orders", 0))
            if o.get("target_orders", -1) > 0:
                bump("closest/all_orders_seen" if o["n_orders"] >= o["target_orders"] else "closest/some_orders_not_seen")
            if not ok:
                bad = [x for x in ords if x["tag"] != e[1] or (e[2] is not None and x["dist"] != e[2])][:3]
                viol("unit", dict(case=c, implementation=dict(kind="closest", stable=o["stable"], n_orders=o.get("n_orders"), failing_orders=bad, first=ords[:1]), expected=e))
                continue
            elif c["tags"]:
                side_tags = [t[0] if c["side"] == "f" else t[1] for t in c["tags"]]
                # one term per observed order (at most 5) : model folded in that very order = code
                for x in ords[:(5 if ctx.quick else 2)]:
                    terms.append("CClosest %s %s true %s %s %s" % ("[" + ";".join("(%s,[])" % cs(t) for t in x["order"]) + "]", cs(c["a"]),
                                                               "false" if c["dist"] == "hamming" else "true", cs(x["tag"]), "(Some %d)" % x["dist"]))
                    term_src.append(("unit", ui, 0))
                if 0 < len(side_tags) <= 6:         # every permutation of the declared tags, inside Coq
                    terms.append("CClosestAll %s %s %s %s %s" % ("[" + ";".join(cs(t) for t in side_tags) + "]", cs(c["a"]),
                                                               "false" if c["dist"] == "hamming" else "true", cs(o["str"]), "(Some %d)" % o["int"]))
                    term_src.append(("unit", ui, 0)); bump("closest/all_permutations_in_coq")
                continue
        elif e and e[0] == "rescue":
            # C12_rescue_tag_spec (inside the shape) and C12_rescue_tag_sound (always): "" or a factor of the fragment within tag_indels of the declared length
            got = o["str"]
            if e[1] is not None:
                bump("rescue/in_theorem_shape")
                if len(e[1]) != c["tagl"]:
                    bump("rescue/in_theorem_shape/tag_length_changed")
                ok = got == e[1]
            if got != "" and c["indel"] <= c["tagl"] and not (got in c["a"] and abs(len(got) - c["tagl"]) <= c["indel"]):
                ok = False
        if not ok:
            viol("unit", dict(case=c, implementation=o, expected=e))
        terms.append(unit_term(c, o)); term_src.append(("unit", ui, 0))
    if not corr:                                     # search for a failing input: the direct oracle only
        return obs, [], nviol[0]
    tm[label + "/units"] = round(time.time() - t0, 1); t0 = time.time()
    bad, err = ctx.correspond(label, IMPORTS, terms, shard=120)
    tm[label + "/coq(%d terms)" % len(terms)] = round(time.time() - t0, 1); t0 = time.time()
    if bad is None:
        broken.append(dict(kind="correspondence", detail=err))
        return obs, [], nviol[0]
    mism_src = [term_src[i] for i in bad]
    if terms3 and USE_CMD_MODEL:
        bad3, err = ctx.correspond(label + "_cmd", IMPORTS3, terms3, fn="mismatches3", shard=400)
        if bad3 is None:
            broken.append(dict(kind="correspondence", detail=err))
        else:
            mism_src += [term3_src[i] for i in bad3]
    return obs, mism_src, nviol[0]


def gen_all(ctx, nsheets, nreads, nunits, broken=None, with_template=False):
    rng = ctx.rng
    sheets = list(corpus())
    if with_template:
        t = template_case(ctx, broken if broken is not None else [])
        if t:
            sheets.append(t)
    for _ in range(nsheets):
        lib, txt = gen_sheet(rng)
        if rng.random() < 0.4:                       # this sheet also goes through the worker of the command (in process) and the command itself
            lib["cli"] = gen_cli(rng)
            lib = effective_lib(lib)
        sheets.append((lib, txt, gen_reads(rng, lib, nreads)))
    if with_template:                                # (main batch only) sheets of realistic size: 96 samples (> 3 KiB), ~2100 samples (> 128 KiB)
        for (nf, nr, fmt, mode, nrd) in [(12, 8, "csv", "hamming", 4), (12, 8, "old", "strict", 3), (46, 46, rng.choice(["csv", "old"]), "strict", 2)]:
            lib, txt = gen_big_sheet(rng, nf, nr, fmt, mode)
            if nf < 20:
                lib["cli"] = gen_cli(rng); lib = effective_lib(lib)
            sheets.append((lib, txt, [r for r in gen_reads(rng, lib, nrd * 3) if r["kind"] in ("canon", "pmis", "tagerr", "short", "partial")][:2 * nrd]))
    if with_template:                                # one compiled library shared by many concurrent workers: 30 reads x 12 copies, batches of 1
        lib, txt = gen_sheet(rng)
        lib["cli"] = dict(emis=0, windels=False, mode="keep", cpu=8, batch=1); lib["many"] = True
        base = gen_reads(rng, lib, 15)
        rds = list(base)
        for _k in range(11):
            cp = [dict(read=r["read"], kind="copy", amps=[], annots=r.get("annots")) for r in base]
            rng.shuffle(cp)
            rds += cp
        sheets.append((lib, txt, rds))
    for _ in range(max(4, nsheets // 15)):           # malformed stream
        sheets.append(gen_malformed(rng))
        sheets.append(gen_shared_primer(rng))
    for kind in MALFORMED2:                          # every shape in every run, then more at random
        sheets.append(gen_malformed2(rng, kind))
    for _ in range(nsheets // 20):
        sheets.append(gen_malformed2(rng))
    return sheets, gen_units(rng, nunits)


def run(ctx, broken):
    ns, nr, nu = (70, 5, 100) if ctx.quick else (1500, 8, 2000)
    sheets, units = gen_all(ctx, ns, nr, nu, broken, with_template=True)
    obs, mism, nv = evaluate(ctx, sheets, units, broken, "main")
    nreads = sum(len(r) for _, _, r in sheets)
    ctx.cov["evaluations"] = nreads + len(units)
    d = ctx.cov["distribution"]
    ctx.cov["distinct_nontrivial"] = len({(txt, r["read"]) for _, txt, rs in sheets for r in rs if r["kind"] not in ("noprimer",)}) + \
        len({json.dumps(c, sort_keys=True) for c in units if c.get("a")})
    ctx.cov["rule"] = ("a demux case = (sheet, read); non-trivial = the read was built around at least one priming site of the sheet (all kinds but 'noprimer'); "
                       "unit cases (hamming/levenshtein/closest/lookForTag/rescue) non-trivial = non-empty query; distinct = distinct (sheet text, read) / distinct unit case")
    ctx.cov["canonical_clause_asserted"] = d.get("canonical_asserted/fwd", 0) + d.get("canonical_asserted/rc", 0)
    ctx.cov["strand_clause_asserted"] = d.get("strand_asserted", 0)
    ctx.cov["model_vs_impl_mismatches"] = len(mism)
    ctx.cov["rescue_canonical_asserted"] = d.get("canonical_asserted/rescue", 0)
    ctx.cov["rescue_unit_cases_in_theorem_shape"] = d.get("rescue/in_theorem_shape", 0)
    ctx.cov["primer_indel_canonical_asserted"] = d.get("canonical_asserted/primer_indels", 0)
    ctx.cov["primer_indel_correspondence_cases"] = d.get("corr/demux_hits(primer_indels)", 0)
    ctx.cov["begin_tie_cases_in_correspondence"] = d.get("corr/with_begin_tie", 0)
    ctx.cov["closest_iteration_orders_forced"] = d.get("closest/orders_observed", 0)
    ctx.cov["closest_cases_with_every_order_seen"] = d.get("closest/all_orders_seen", 0)
    ctx.cov["closest_cases_not_every_order_seen"] = d.get("closest/some_orders_not_seen", 0)
    ctx.cov["chimeras_by_status_pattern"] = {k.split("/")[-1]: v for k, v in d.items() if k.startswith("canonical_asserted/chimera2/")}
    ctx.cov["demultiplexing_repetitions_on_fresh_maps"] = d.get("reps", 0)
    ctx.cov["obimultiplex_command_runs"] = d.get("command_runs", 0)
    ctx.cov["records_compared_with_the_command_output"] = d.get("command_records_compared", 0)
    ctx.cov["sheets_through_ExtractMultiBarcodeSliceWorker"] = d.get("sheet/through_worker_and_command", 0)
    ctx.cov["param_cases_in_coq"] = d.get("corr/params", 0)
    ctx.cov["param_cases_with_one_primer_lines"] = d.get("corr/params/with_one_primer_lines", 0)
    ctx.cov["routing_cases_in_coq"] = d.get("corr/route", 0)
    ctx.cov["reads_carrying_annotations_of_a_previous_demultiplexing"] = d.get("read/carrying_annotations/of_a_previous_demultiplexing", 0)
    ctx.cov["rejected_sheet_shapes"] = sorted(k.split(":", 1)[1] for k in d if k.startswith("sheet/not a library:"))
    mid = len(sheets) // 2
    while sheets[mid][0].get("malformed"):
        mid -= 1
    lib, txt, rs = sheets[mid]
    ctx.samples = [dict(sheet=txt, read=rs[0]["read"], kind=rs[0]["kind"], implementation=obs[mid].get("reads", [[]])[0] if obs[mid]["kind"] == "ok" else obs[mid]),
                   dict(unit=units[-1], implementation=obs[-1])]
    if mism and not ctx.violations:
        import os
        nsrch = int(os.environ.get("VERIF_C12_SEARCH", "600"))     # (mutation testing under load: a smaller search batch)
        more_s, more_u = gen_all(ctx, nsrch, 6, nsrch)
        evaluate(ctx, more_s, more_u, [], "search", corr=False)
        if not ctx.violations:
            k, ci, ri = mism[0]
            if k in ("demux", "route"):
                first = dict(sheet=sheets[ci][1], read=sheets[ci][2][ri]["read"], cli=sheets[ci][0].get("cli"), implementation=obs[ci]["reads"][ri])
            elif k == "params":
                first = dict(sheet=sheets[ci][1], cli=sheets[ci][0].get("cli"), implementation=obs[ci].get("lib"))
            else:
                first = dict(unit=units[ci], implementation=obs[len(sheets) + ci])
            broken.append(dict(kind="correspondence", name="corr:C12/%s" % k, first_diverging_case=first, n_diverging=len(mism)))
    elif mism:
        ctx.cov["note"] = "model and implementation diverge on %d cases (violations reported by the direct oracle)" % len(mism)


def replay(ctx, rp):
    c = rp.get("case") or {}
    if "declared" in c:
        obs, mism, nv = evaluate(ctx, [(c["declared"], c["sheet"], [c["rd"]])], [], [], "replay", report=False)
        print("replay: direct-oracle failures: %d, model mismatches: %d" % (nv, len(mism)))
        o = obs[0]
    elif "sheet" in c:
        o = ctx.vh_robust("c12", [dict(op="demux", sheet=c["sheet"], reads=c.get("reads", []))])[0]
    else:
        o = ctx.vh_robust("c12", [c])[0]
    print("replay:", json.dumps(c)[:600], "->", json.dumps(o)[:3000])
    print("expected:", json.dumps(rp.get("expected"), default=str)[:1500])
