"""C12 — demultiplexing assigns the declared sample, the exact barcode, on either strand
(pkg/obingslibrary, pkg/obiformats/ngsfilter_read.go)."""
import json, re, itertools

PROPS = ["C12/Props.v"]
META = dict(
    text="Rocq theorems (43, all closed under the global context) over an executable model of pkg/obingslibrary (Hamming, two-row Levenshtein, Closest*Tag fold over "
         "the Go map, fixed / delimited / RESCUE tag windows, SampleIdentifier, the +i/-i pairing automaton of ExtractMultiBarcode with its stable sort of the hits) and of "
         "FilterBestMatch: the nearest-tag fold returns the UNIQUE nearest declared tag for every iteration order (any permutation; [perms] enumerates exactly the "
         "permutations and one correspondence case checks them all) and has, by design, no upper bound on the distance (theorem); the two-row DP is the Wagner-Fischer edit "
         "distance; SAFETY (a sample only when both extracted tags identify declared tags under the declared mode and the pair is declared with that sample, otherwise the "
         "error flag) for ANY list of primer hits; every record is cut exactly at the spans of its own hit pair (any matcher: substitution windows or re-aligned indel "
         "spans) and the amplicons of a chimeric read are independent; canonical read and strand symmetry for fixed-length, delimited AND rescue tags (rescue: delimiter "
         "runs shortened within tag_indels, observed tags longer / shorter than declared within tag_indels; lookForRescueTag characterised: returns the tag on that shape, "
         "and always either nothing or a factor of the fragment within tag_indels of the declared length), for the specification matcher and for any matcher producing "
         "the two intended hits (primer indels). The model is tied to the code on every run: sheets in both formats are parsed by the real ReadNGSFilter, reads built from "
         "them (both strands, primer substitutions and indels, tag errors, rescue layouts, chimeras of every status pattern, nested / crossed / partial sites, near-identical "
         "primers) go through the real ExtractMultiBarcode 2-4 times on freshly parsed libraries (the records must not depend on the Go map orders), Closest*Tag is run on "
         "rebuilt markers until every iteration order of the tags has been observed (the order is read off the calls to the distance function), the same inputs are evaluated "
         "by vm_compute in Coq, and a direct Python oracle states the parse, matched-primer (IUPAC edit distance in indel mode), canonical-read, strand-symmetry, safety, "
         "rescue and determinism clauses on the implementation's output.",
    note="Trusted: Coq kernel + vm_compute, harness, generators, verif hooks (VerifSamples, VerifLookFor*Tag, VerifPrimerMatches = copy of the hit-collection loop of "
         "ExtractMultiBarcode; a divergence between the copy and the real loop shows up as a correspondence mismatch). Primer hits of the model are the specification "
         "matcher (mismatch count per window with IUPAC pattern letters, then the transcription of FilterBestMatch) for substitution-only primers; for sheets with "
         "@indels the matcher is a PARAMETER: the model receives the spans reported by the library (C Manber automaton + LocatePattern re-alignment = property C10) and the "
         "theorems quantify over any hit list. Rescue canonical theorem needs both sides in rescue mode (mixed fixed/rescue sides: oracle + correspondence only). "
         "Fixed in round 2 (known_findings.d/C12.json): primers shared between markers were accepted (CheckPrimerUnicity ignored); records depended on the iteration order "
         "of library.Markers when two markers hit the same position (now: markers in primer order + stable sort, which is what the model does, so begin ties are inside "
         "the correspondence). By design, stated as a theorem and exhibited in the corpus: a tag at any distance is assigned when one declared tag is strictly nearest.")
TRUSTED = ["primer hits of the model = specification matcher (mismatch count <= budget per window, IUPAC pattern letters) + FilterBestMatch transcription for substitution-only primers; "
           "with @indels the hits are a parameter of the model (spans exported by the verif hook VerifPrimerMatches); the C Manber automaton and LocatePattern are property C10",
           "verif hook VerifPrimerMatches is a copy of the collection loop of ExtractMultiBarcode (compared with the real loop through the records on every run)",
           "csv / mimetype detection of the sheet reader are only exercised (parse clause of the direct oracle), not modelled",
           "reads over a/c/g/t (BioSequence.ReverseComplement modelled on IUPAC letters only)",
           "iteration orders of Go maps: every order of <= 5 sample pairs is forced by rebuilding the marker (observed through the distance callback); marker-map orders are sampled by 2-4 re-parses per sheet"]

IUPAC = dict(a="a", c="c", g="g", t="t", r="ag", y="ct", m="ac", k="gt", s="cg", w="at", b="cgt", d="agt", h="act", v="acg", n="acgt")
COMP = dict(a="t", c="g", g="c", t="a", r="y", y="r", m="k", k="m", s="s", w="w", b="v", v="b", d="h", h="d", n="n")
MODES = dict(strict=0, hamming=1, indel=2)


def rc(s):
    return "".join(COMP[c] for c in reversed(s))


def mism(pat, w):
    return sum(1 for p, b in zip(pat, w) if b not in IUPAC[p])


def hamming(a, b):
    if len(a) != len(b):
        return max(len(a), len(b))
    return sum(1 for x, y in zip(a, b) if x != y)


def lev(a, b):
    """full-matrix edit distance (independent of the two-row implementation)"""
    D = [[0] * (len(b) + 1) for _ in range(len(a) + 1)]
    for i in range(len(a) + 1):
        D[i][0] = i
    for j in range(len(b) + 1):
        D[0][j] = j
    for i in range(1, len(a) + 1):
        for j in range(1, len(b) + 1):
            D[i][j] = min(D[i - 1][j] + 1, D[i][j - 1] + 1, D[i - 1][j - 1] + (a[i - 1] != b[j - 1]))
    return D[len(a)][len(b)]


DIST = dict(hamming=hamming, indel=lev, lev=lev)


def edit_iupac(pat, w):
    """edit distance between an IUPAC pattern and a word (a letter of the word matches a pattern letter whose set contains it)"""
    prev = list(range(len(w) + 1))
    for i in range(1, len(pat) + 1):
        cur = [i] + [0] * len(w)
        ok = IUPAC[pat[i - 1]]
        for j in range(1, len(w) + 1):
            cur[j] = min(prev[j] + 1, cur[j - 1] + 1, prev[j - 1] + (w[j - 1] not in ok))
        prev = cur
    return prev[len(w)]


def unique_nearest(tags, t, dist):
    """the statement: the unique declared tag at minimal distance, '' when there is a tie (or no tag)"""
    tags = sorted(set(tags))
    if not tags:
        return "", None
    ds = [dist(x, t) for x in tags]
    m = min(ds)
    best = [x for x, d in zip(tags, ds) if d == m]
    return (best[0] if len(best) == 1 else ""), m


def rescue_expectation(s, d, tl, border, indel):
    """C12_rescue_tag_spec as a regular expression: on  pre x d^k1 tag d^k2 junk  (x != d, tag and junk without d, 1 <= k1 <= border,
    max(1, border - indel) <= k2 <= border, |len(tag) - tl| <= indel < tl) the rescued tag is tag. None: outside that shape."""
    m = re.match("^(.*[^%s])(%s+)([^%s]+)(%s+)([^%s]*)$" % (d, d, d, d, d), s, re.S)
    if not m or indel >= tl:
        return None
    k1, tag, k2 = len(m.group(2)), m.group(3), len(m.group(4))
    if 1 <= k1 <= border and max(1, border - indel) <= k2 <= border and abs(len(tag) - tl) <= indel:
        return tag
    return None


def look_for_tag_spec(s, d):
    m = re.search("%s([^%s]*)%s+[^%s]*$" % (d, d, d, d), s)
    return m.group(1) if m else ""


# ----------------------------------------------------------------------------- generators
def rseq(rng, n, alpha="acgt"):
    return "".join(rng.choice(alpha) for _ in range(n))


def gen_primer(rng, others):
    for _ in range(200):
        n = rng.choice([14, 16, 18, 20, 22, 25])
        p = rseq(rng, n)
        if rng.random() < 0.2:
            i = rng.randrange(n)
            p = p[:i] + rng.choice("rymkswn") + p[i + 1:]
        # avoid quasi-palindromes / near-duplicates (they give spurious hits; those are still generated by 'hard' reads)
        ok = True
        for q in others + [p]:
            for a, b in ((p, q), (p, rc(q)), (rc(p), q)):
                if a is b:
                    continue
                la, lb = len(a), len(b)
                for off in range(-la + 6, lb - 5):
                    ov = [(a[i], b[i + off]) for i in range(la) if 0 <= i + off < lb]
                    if len(ov) >= 10 and sum(1 for x, y in ov if not (set(IUPAC[x]) & set(IUPAC[y]))) <= 5 - (min(la, lb) - len(ov)) // 2 and min(la, lb) - len(ov) <= 3:
                        ok = False
        if ok:
            return p
    return p


def gen_sheet(rng, force=None):
    """returns the declared library (python dict) and the sheet text"""
    fmt = rng.choice(["old", "csv", "csv"]) if not force else force
    nm = rng.choice([1, 1, 2, 3])
    primers = []
    markers = []
    glob = dict(fsp=0, rsp=0, fmode="strict", rmode="strict", ferr=2, rerr=2, fdelim=0, rdelim=0, ftind=0, rtind=0, find=False, rind=False)
    params = []
    if fmt == "csv":
        k = rng.random()
        if k < 0.5:
            sp = rng.choice([0, 1, 2, 3])
            if rng.random() < 0.6:
                params.append(("spacer", [str(sp)])); glob["fsp"] = glob["rsp"] = sp
            else:
                sp2 = rng.choice([0, 1, 2, 5])
                params.append(("forward_spacer", [str(sp)])); params.append(("reverse_spacer", [str(sp2)]))
                glob["fsp"], glob["rsp"] = sp, sp2
        if rng.random() < 0.7:
            m = rng.choice(["strict", "hamming", "indel", "hamming", "indel"])
            params.append(("matching", [m])); glob["fmode"] = glob["rmode"] = m
        if rng.random() < 0.5:
            e = rng.choice([0, 1, 2, 3])
            if rng.random() < 0.6:
                params.append(("primer_mismatches", [str(e)])); glob["ferr"] = glob["rerr"] = e
            else:
                e2 = rng.choice([0, 1, 2, 3])
                params.append(("forward_mismatches", [str(e)])); params.append(("reverse_mismatches", [str(e2)]))
                glob["ferr"], glob["rerr"] = e, e2
        if rng.random() < 0.35 and (glob["fsp"] >= 1 and glob["rsp"] >= 1):
            d = rng.choice("acgt")
            k2 = rng.random()
            if k2 < 0.6:
                params.append(("tag_delimiter", [d.upper() if rng.random() < 0.2 else d])); glob["fdelim"] = glob["rdelim"] = ord(d)
            elif k2 < 0.8:                      # one delimiter per side
                d2 = rng.choice("acgt")
                params.append(("forward_tag_delimiter", [d])); params.append(("reverse_tag_delimiter", [d2]))
                glob["fdelim"], glob["rdelim"] = ord(d), ord(d2)
            elif k2 < 0.9:                      # delimited on one side only, fixed on the other
                params.append(("forward_tag_delimiter", [d])); glob["fdelim"] = ord(d)
            else:
                params.append(("reverse_tag_delimiter", [d])); glob["rdelim"] = ord(d)
            if rng.random() < 0.4:
                ti = rng.choice([1, 2])
                k3 = rng.random()
                if k3 < 0.6:
                    params.append(("tag_indels", [str(ti)])); glob["ftind"] = glob["rtind"] = ti
                elif k3 < 0.8:
                    params.append(("forward_tag_indels", [str(ti)])); glob["ftind"] = ti
                else:
                    params.append(("reverse_tag_indels", [str(ti)])); glob["rtind"] = ti
        if rng.random() < 0.15:
            params.append(("indels", ["true"])); glob["find"] = glob["rind"] = True
    used = set()
    for mi in range(nm):
        f = gen_primer(rng, primers); primers.append(f)
        r = gen_primer(rng, primers); primers.append(r)
        ftl, rtl = rng.choice([(0, 0), (4, 4), (8, 8), (4, 4), (8, 8), (4, 0), (0, 8), (4, 8), (8, 4)])
        m = dict(glob, fwd=f, rev=r, ftl=ftl, rtl=rtl)
        alpha_f = "".join(c for c in "acgt" if ord(c) != m["fdelim"])
        alpha_r = "".join(c for c in "acgt" if ord(c) != m["rdelim"])
        ns = 1 if (ftl == 0 and rtl == 0) else rng.choice([1, 2, 3, 4, 6])
        ftags = [rseq(rng, ftl, alpha_f) for _ in range(3)] if ftl else [""]
        rtags = [rseq(rng, rtl, alpha_r) for _ in range(3)] if rtl else [""]
        if ftl and rng.random() < 0.5:          # close tags: one substitution apart (ties for hamming / indel)
            t = ftags[0]; i = rng.randrange(ftl); ftags[1] = t[:i] + rng.choice(alpha_f) + t[i + 1:]
        if rtl and rng.random() < 0.5:
            t = rtags[0]; i = rng.randrange(rtl); rtags[1] = t[:i] + rng.choice(alpha_r) + t[i + 1:]
        if ftl and rtl and ftl == rtl and rng.random() < 0.3 and not (m["rdelim"] and any(chr(m["rdelim"]) in t for t in ftags)):
            rtags = list(ftags)                 # same tags on both sides (never containing the reverse delimiter)
        pairs = []
        for _ in range(ns * 3):
            p = (rng.choice(ftags), rng.choice(rtags))
            if p not in pairs:
                pairs.append(p)
            if len(pairs) == ns:
                break
        m["samples"] = []
        for (a, b) in pairs:
            sname = "s%d_%d" % (mi, len(m["samples"])) if rng.random() < 0.8 else "shared"
            m["samples"].append(dict(f=a, r=b, sample=sname, exp="exp%d" % rng.randrange(2)))
        markers.append(m)
    # two markers whose forward (or reverse) primers differ by one base: both patterns hit the same site of a read
    near = False
    if nm >= 2 and rng.random() < 0.15:
        a, b = markers[0], markers[1]
        side = rng.choice(["fwd", "rev"])
        p0 = a[side]; i = rng.randrange(2, len(p0) - 2)
        p1 = p0[:i] + rng.choice([c for c in "acgt" if c != p0[i]]) + p0[i + 1:]
        if p1 not in primers:
            b[side] = p1; near = True
    # per-primer parameters (csv only)
    if fmt == "csv" and rng.random() < 0.3:
        m = rng.choice(markers)
        side = rng.choice("fr")
        pr = m["fwd"] if side == "f" else m["rev"]
        what = rng.choice(["spacer", "primer_mismatches"])
        if what == "spacer" and not m["fdelim"]:
            v = rng.choice([0, 1, 4]); params.append(("spacer", [pr.upper() if rng.random() < 0.3 else pr, str(v)])); m[side + "sp"] = v
        elif what == "primer_mismatches":
            v = rng.choice([0, 1, 3]); params.append(("primer_mismatches", [pr, str(v)])); m[side + "err"] = v
    lines = []

    def tagtxt(a, b):
        if a == b and a and rng.random() < 0.5:
            return a
        return "%s:%s" % (a or "-", b or "-")
    up = rng.random() < 0.2
    if fmt == "old":
        if rng.random() < 0.3:
            lines.append("# a comment line")
        for m in markers:
            for s in m["samples"]:
                t = tagtxt(s["f"], s["r"])
                l = "%s %s %s %s %s F @ k=%d;" % (s["exp"], s["sample"], t.upper() if up else t, m["fwd"].upper() if up else m["fwd"], m["rev"], rng.randrange(9))
                lines.append(l if rng.random() < 0.8 else l.replace(" ", "\t"))
        if rng.random() < 0.3:
            lines.insert(rng.randrange(len(lines) + 1), "")
    else:
        for (k, v) in params:
            lines.append(",".join(["@param", k] + v))
        extra = rng.random() < 0.5
        cols = ["experiment", "sample", "sample_tag", "forward_primer", "reverse_primer"] + (["extra"] if extra else [])
        perm = list(range(len(cols)))
        if rng.random() < 0.4:
            rng.shuffle(perm)
        lines.append(",".join(cols[i] for i in perm))
        rows = []
        for m in markers:
            for s in m["samples"]:
                t = tagtxt(s["f"], s["r"])
                row = [s["exp"], s["sample"], t.upper() if up else t, m["fwd"].upper() if up else m["fwd"], m["rev"]] + (["x%d" % rng.randrange(5)] if extra else [])
                rows.append(",".join(row[i] for i in perm))
        if rng.random() < 0.3:
            rng.shuffle(rows)
        lines += rows
        if len(rows) < 2 and False:
            pass
    markers.sort(key=lambda m: (m["fwd"], m["rev"]))
    for m in markers:
        m["samples"].sort(key=lambda s: (s["f"], s["r"]))
    return dict(markers=markers, fmt=fmt, near_identical_primers=near), "\n".join(lines) + "\n"


def gen_shared_primer(rng):
    """a sheet in which one primer serves two markers (or both sides of one marker): the library's own CheckPrimerUnicity calls this
    an error - accepted, the two markers compete for the same priming site and which one wins changes from run to run"""
    f1 = gen_primer(rng, []); r1 = gen_primer(rng, [f1]); r2 = gen_primer(rng, [f1, r1]); f2 = gen_primer(rng, [f1, r1, r2])
    kind = rng.choice(["same_forward", "same_reverse", "forward_is_reverse_of_other", "forward_equals_reverse"])
    if kind == "same_forward":
        ms = [(f1, r1), (f1, r2)]
    elif kind == "same_reverse":
        ms = [(f1, r1), (f2, r1)]
    elif kind == "forward_is_reverse_of_other":
        ms = [(f1, r1), (r1, r2)]
    else:
        ms = [(f1, f1)]
    t = [rseq(rng, 4) for _ in range(4)]
    fmt = rng.choice(["old", "csv"])
    rows = [("e", "s%d" % i, "%s:%s" % (t[2 * i], t[2 * i + 1]), a, b) for i, (a, b) in enumerate(ms)]
    if fmt == "old":
        txt = "".join("%s %s %s %s %s F @\n" % r for r in rows)
    else:
        txt = "experiment,sample,sample_tag,forward_primer,reverse_primer\n" + "".join(",".join(r) + "\n" for r in rows)
    a, b = ms[-1]
    rd = rseq(rng, 7) + t[2 * (len(ms) - 1)] + a + rseq(rng, 25) + rc(b) + rc(t[2 * (len(ms) - 1) + 1]) + rseq(rng, 5)
    lib = dict(fmt=fmt, markers=[], malformed="a primer used by two markers / on both sides (%s)" % kind)
    return lib, txt, [dict(read=rd, kind="malformed", amps=[]), dict(read=rc(rd), kind="malformed", amps=[])]


def gen_malformed(rng):
    """a sheet whose tags do not all have the same length within one marker (the library's own CheckTagLength calls this an
    error): the reader must reject it - accepted, it leaves a tag length of -1 behind and the first primed read panics"""
    f, r = gen_primer(rng, []), None
    r = gen_primer(rng, [f])
    side = rng.choice("fr")
    la, lb = rng.choice([(4, 8), (8, 4), (4, 5), (6, 4)])
    t1 = (rseq(rng, la), rseq(rng, 4)) if side == "f" else (rseq(rng, 4), rseq(rng, la))
    t2 = (rseq(rng, lb), rseq(rng, 4)) if side == "f" else (rseq(rng, 4), rseq(rng, lb))
    fmt = rng.choice(["old", "csv"])
    if fmt == "old":
        txt = "e s1 %s:%s %s %s F @\ne s2 %s:%s %s %s F @\n" % (t1[0], t1[1], f, r, t2[0], t2[1], f, r)
    else:
        txt = "experiment,sample,sample_tag,forward_primer,reverse_primer\ne,s1,%s:%s,%s,%s\ne,s2,%s:%s,%s,%s\n" % (t1[0], t1[1], f, r, t2[0], t2[1], f, r)
    bar = rseq(rng, 20)
    rd = rseq(rng, 12) + t1[0] + f + bar + rc(r) + rc(t1[1]) + rseq(rng, 12)
    lib = dict(fmt=fmt, markers=[], malformed="tags of different lengths in one marker")
    return lib, txt, [dict(read=rd, kind="malformed", amps=[]), dict(read=rc(rd), kind="malformed", amps=[])]


def mutate_primer(rng, p, k):
    """k substitutions incompatible with the pattern letter (letters whose IUPAC set is everything are skipped)"""
    pos = [i for i in range(len(p)) if len(IUPAC[p[i]]) < 4]
    rng.shuffle(pos)
    out = list("".join(rng.choice(IUPAC[c]) for c in p))
    for i in pos[:k]:
        out[i] = rng.choice([b for b in "acgt" if b not in IUPAC[p[i]]])
    return "".join(out)


def mutate_primer_indel(rng, p, k):
    """an occurrence of primer p with k edit operations (at least one insertion or deletion when k > 0), all in the interior of
    the primer so that the priming site keeps its two ends"""
    out = list("".join(rng.choice(IUPAC[c]) for c in p))
    ops = [rng.choice(["ins", "del"])] + [rng.choice(["ins", "del", "sub"]) for _ in range(k - 1)] if k > 0 else []
    for op in ops:
        i = rng.randrange(4, max(5, len(out) - 4))
        if op == "ins":
            out.insert(i, rng.choice("acgt"))
        elif op == "del":
            del out[i]
        else:
            out[i] = rng.choice([b for b in "acgt" if b != out[i]])
    return "".join(out)


def mutate_tag(rng, t, kind, alpha):
    if not t:
        return t
    i = rng.randrange(len(t))
    if kind == "sub":
        return t[:i] + rng.choice([b for b in alpha if b != t[i]]) + t[i + 1:]
    if kind == "del":
        return t[:i] + t[i + 1:]
    if kind == "ins":
        return t[:i] + rng.choice(alpha) + t[i:]
    if kind == "rot":                              # same length, 2 indels away, up to len(t) substitutions away
        return t[1:] + t[0]
    return t


def amplicon(rng, m, s, kf=0, kr=0, tagmut=None, barlen=None, pindel=False):
    """one amplicon in forward orientation; returns (text, info).
    A side in RESCUE mode (tag delimiter + tag indels) is laid out as  x d^k1 tag d^k2 primer  with x != d, 1 <= k1 <= spacer,
    max(1, spacer - tag_indels) <= k2 <= spacer (info['rescue_ok']); a fraction of the amplicons leaves that shape on purpose.
    pindel: the kf / kr primer errors include at least one inserted / deleted base (sheets with @indels)."""
    af = "".join(c for c in "acgt" if ord(c) != m["fdelim"])
    ar = "".join(c for c in "acgt" if ord(c) != m["rdelim"])
    tf, tr = s["f"], s["r"]
    if tagmut:
        side, kind = tagmut
        if side == "f":
            tf = mutate_tag(rng, tf, kind, af)
        else:
            tr = mutate_tag(rng, tr, kind, ar)
    spf = chr(m["fdelim"]) * m["fsp"] if m["fdelim"] else rseq(rng, m["fsp"])
    spr = chr(m["rdelim"]) * m["rsp"] if m["rdelim"] else rseq(rng, m["rsp"])
    if pindel:
        pf = mutate_primer_indel(rng, m["fwd"], kf)
        pr = mutate_primer_indel(rng, m["rev"], kr)
    else:
        pf = mutate_primer(rng, m["fwd"], kf)
        pr = mutate_primer(rng, m["rev"], kr)
    bar = rseq(rng, barlen if barlen is not None else rng.choice([1, 5, 20, 30, 45]))
    left = (spf if m["fdelim"] and tf else "") + tf + spf
    right = rc(spr) + rc(tr) + (rc(spr) if m["rdelim"] and tr else "")
    rescue_ok = True

    def rescue_side(d, sp, ind, tag, alpha):
        """x d^k1 tag d^k2 ; returns (text, within the shape of the rescue theorem)"""
        d = chr(d)
        if rng.random() < 0.85:
            return rng.choice(alpha) + d * rng.randint(1, sp) + tag + d * rng.randint(max(1, sp - ind), sp), True
        k = rng.random()
        if k < 0.3:                                 # too many delimiters lost next to the primer
            return rng.choice(alpha) + d * sp + tag + d * max(0, sp - ind - 1), False
        if k < 0.6:                                 # longer delimiter runs than declared
            return rng.choice(alpha) + d * (sp + rng.choice([0, 1, 2])) + tag + d * (sp + rng.choice([1, 2])), False
        if k < 0.8:                                 # no base before the outer run / no outer run
            return d * rng.choice([0, sp]) + tag + d * sp, False
        return d + d * sp + tag + d * sp, False     # the base before the outer run is the delimiter itself
    if m["fdelim"] and m["ftind"] and m["ftl"] and tf:
        left, ok = rescue_side(m["fdelim"], m["fsp"], m["ftind"], tf, af); rescue_ok = rescue_ok and ok
    if m["rdelim"] and m["rtind"] and m["rtl"] and tr:
        txt_r, ok = rescue_side(m["rdelim"], m["rsp"], m["rtind"], tr, ar); rescue_ok = rescue_ok and ok
        right = rc(txt_r)
    if m["ftl"] == 0:
        left = spf if not m["fdelim"] else ""
    if m["rtl"] == 0:
        right = rc(spr) if not m["rdelim"] else ""
    txt = left + pf + bar + rc(pr) + right
    info = dict(fwd=m["fwd"], rev=m["rev"], tf=tf if m["ftl"] else "", tr=tr if m["rtl"] else "", pf=pf, pr=pr, bar=bar, kf=kf, kr=kr,
                pf_at=len(left), left=len(left), right=len(right), total=len(txt), rescue_ok=rescue_ok)
    return txt, info


def bad_tags(rng, m):
    """a tag pair meant NOT to identify a sample of marker m (the oracle decides what it really identifies)"""
    fts = sorted({x["f"] for x in m["samples"]}); rts = sorted({x["r"] for x in m["samples"]})
    declared = {(x["f"], x["r"]) for x in m["samples"]}
    free = [(a, b) for a in fts for b in rts if (a, b) not in declared]
    if free and rng.random() < 0.6:
        a, b = rng.choice(free)                  # both tags declared, the combination is not
        return dict(f=a, r=b, sample="?", exp="?")
    af = "".join(c for c in "acgt" if ord(c) != m["fdelim"]); ar = "".join(c for c in "acgt" if ord(c) != m["rdelim"])
    a, b = rng.choice(fts), rng.choice(rts)
    if m["ftl"] and (not m["rtl"] or rng.random() < 0.5):
        a = rseq(rng, m["ftl"], af)
    else:
        b = rseq(rng, m["rtl"], ar)
    return dict(f=a, r=b, sample="?", exp="?")


def gen_reads(rng, lib, n):
    """list of dict(read=..., kind=..., amps=[info with offsets], rcflag)"""
    out = []
    ms = lib["markers"]
    for _ in range(n):
        m = rng.choice(ms)
        s = rng.choice(m["samples"])
        kind = rng.choice(["canon", "canon", "canon", "pmis", "pmis", "pover", "tagerr", "tagerr", "chimera", "chimera", "chimera2", "chimera2", "partial", "noprimer", "short", "cross", "nested"])
        pind = bool(m["find"] or m["rind"])
        fl, fr = rseq(rng, rng.choice([0, 0, 1, 3, 10])), rseq(rng, rng.choice([0, 0, 1, 3, 10]))
        amps = []
        pat2 = None
        if kind == "canon":
            a, inf = amplicon(rng, m, s); body = a; amps = [inf]
        elif kind == "pmis":
            a, inf = amplicon(rng, m, s, kf=rng.randint(0, m["ferr"]), kr=rng.randint(0, m["rerr"]), pindel=pind); body = a; amps = [inf]
        elif kind == "pover":
            kf, kr = rng.choice([(m["ferr"] + rng.choice([1, 2]), 0), (0, m["rerr"] + rng.choice([1, 2])), (m["ferr"] + 1, m["rerr"] + 1)])
            a, inf = amplicon(rng, m, s, kf=kf, kr=kr); body = a; amps = [inf]
        elif kind == "tagerr":
            tm = (rng.choice("fr"), rng.choice(["sub", "sub", "del", "ins", "rot", "rot"]))
            a, inf = amplicon(rng, m, s, tagmut=tm, kf=rng.choice([0, 0, 1]) if m["ferr"] else 0); body = a; amps = [inf]
            inf["tagmut"] = tm
        elif kind == "chimera":
            body = ""
            for _k in range(rng.choice([2, 2, 3])):
                m2 = rng.choice(ms); s2 = rng.choice(m2["samples"])
                a, inf = amplicon(rng, m2, s2)
                flip = rng.random() < 0.4
                inf["flip"] = flip
                inf["off"] = len(fl) + len(body)
                body += (rc(a) if flip else a) + rseq(rng, rng.choice([0, 2, 7]))
                amps.append(inf)
        elif kind == "chimera2":
            # two amplicons of different status in every order: good+bad, bad+good, good+good of different samples, bad+bad
            # (bad = a tag pair that is not declared / a tag that is nobody's unique neighbour); same or different markers
            body = ""
            pattern = rng.choice(["gb", "bg", "gg", "gg", "bb"])
            pat2 = pattern
            prev = None
            for st in pattern:
                m2 = m if rng.random() < 0.6 else rng.choice(ms)
                s2 = rng.choice([x for x in m2["samples"] if x is not prev] or m2["samples"])
                prev = s2
                if st == "b":
                    s2 = bad_tags(rng, m2)
                a, inf = amplicon(rng, m2, s2, kf=rng.choice([0, 0, 1]) if m2["ferr"] else 0, pindel=bool(m2["find"]))
                flip = rng.random() < 0.4
                inf["flip"] = flip
                inf["off"] = len(fl) + len(body)
                inf["status"] = st
                body += (rc(a) if flip else a) + rseq(rng, rng.choice([0, 2, 7]))
                amps.append(inf)
            kind = "chimera"
        elif kind == "partial":
            a, inf = amplicon(rng, m, s)
            cut = rng.choice(["nofwd", "norev", "half"])
            if cut == "nofwd":
                body = a[inf["pf_at"] + len(inf["pf"]):]
            elif cut == "norev":
                body = a[:inf["pf_at"] + len(inf["pf"]) + len(inf["bar"])]
            else:
                body = a[:inf["pf_at"] + len(inf["pf"]) + len(inf["bar"]) + len(inf["pr"]) // 2]
        elif kind == "noprimer":
            body = rseq(rng, rng.choice([0, 1, 10, 60]))
        elif kind == "short":                       # flanks cut inside the tag: the tag window leaves the read
            a, inf = amplicon(rng, m, s)
            c1 = rng.randrange(0, inf["left"] + 1); c2 = rng.randrange(0, inf["right"] + 1)
            body = a[c1:len(a) - c2]; fl = fr = ""
        elif kind == "nested":                      # +j ... +i ... -j : the complementary hit of ANOTHER marker must not close the amplicon
            m2 = rng.choice(ms)
            a, inf = amplicon(rng, m, s); a2, inf2 = amplicon(rng, m2, rng.choice(m2["samples"]))
            body = a2[:inf2["pf_at"] + len(inf2["pf"]) + len(inf2["bar"])] + a[:inf["pf_at"] + len(inf["pf"]) + len(inf["bar"])] + \
                a2[inf2["pf_at"] + len(inf2["pf"]) + len(inf2["bar"]):]
        else:                                       # forward primer of one marker, reverse primer of another
            m2 = rng.choice(ms)
            a, inf = amplicon(rng, m, s); a2, inf2 = amplicon(rng, m2, rng.choice(m2["samples"]))
            body = a[:inf["pf_at"] + len(inf["pf"]) + len(inf["bar"])] + a2[inf2["pf_at"] + len(inf2["pf"]) + len(inf2["bar"]):]
        read = fl + body + fr
        if len(amps) == 1:
            amps[0]["off"] = len(fl); amps[0]["flip"] = False
        if not read:
            read = "a"
        flip = rng.random() < 0.5
        out.append(dict(read=read, kind=kind, amps=amps, marker=(m["fwd"], m["rev"]), pattern=pat2))
        out.append(dict(read=rc(read), kind=kind, amps=amps, marker=(m["fwd"], m["rev"]), pattern=pat2, rc_of=len(out) - 1))
    return out


# ----------------------------------------------------------------------------- specification of hits (independent, brute force)
def all_hits(lib, read):
    """every window of the read within budget of one of the 4 patterns of every marker: (begin, end, mism, marker idx, which)"""
    hits = []
    for mi, m in enumerate(lib["markers"]):
        for which, pat, e in (("f", m["fwd"], m["ferr"]), ("cr", rc(m["rev"]), m["rerr"]), ("r", m["rev"], m["rerr"]), ("cf", rc(m["fwd"]), m["ferr"])):
            L = len(pat)
            for b in range(0, len(read) - L + 1):
                k = mism(pat, read[b:b + L])
                if k <= e:
                    hits.append((b, b + L, k, mi, which))
    return hits


def expected_sample(m, ft, rt):
    """the statement: proposed tag pair under the declared mode, then table lookup. returns (sample dict | None, proposed pair)"""
    def prop(t, mode, tags):
        if t == "":
            return ""
        if mode == "strict":
            return t
        return unique_nearest(tags, t, DIST[mode])[0]
    pf = prop(ft, m["fmode"], [s["f"] for s in m["samples"]])
    pr = prop(rt, m["rmode"], [s["r"] for s in m["samples"]])
    for s in m["samples"]:
        if s["f"] == pf and s["r"] == pr:
            return s, (pf, pr)
    return None, (pf, pr)


def find_marker(lib, fp, rp):
    for i, m in enumerate(lib["markers"]):
        if m["fwd"] == fp and m["rev"] == rp:
            return i, m
    return None, None


def check_safety(lib, res):
    """SAFETY clause on one output record. returns None or a reason string"""
    if res["err"] == "No barcode identified":
        return None if not res["has_sample"] else "sample on an unidentified read"
    _, m = find_marker(lib, res["fp"], res["rp"])
    if m is None:
        return "record names primers that are not a marker of the sheet"
    if not (m["find"] or m["rind"]):
        # "returns the matched primers": the reported matches are matches of the declared primers of that marker, within budget
        if len(res["fm"]) != len(m["fwd"]) or mism(m["fwd"], res["fm"]) != res["fe"] or res["fe"] > m["ferr"]:
            return "forward match %r is not a match of the forward primer within budget (reported %d errors)" % (res["fm"], res["fe"])
        if len(res["rm"]) != len(m["rev"]) or mism(m["rev"], res["rm"]) != res["re"] or res["re"] > m["rerr"]:
            return "reverse match %r is not a match of the reverse primer within budget (reported %d errors)" % (res["rm"], res["re"])
    else:
        # primer indels: the reported span is within the declared number of edit operations of the primer (IUPAC edit distance),
        # and the reported error count is not smaller than that distance
        if not (edit_iupac(m["fwd"], res["fm"]) <= res["fe"] <= m["ferr"]):
            return "forward match %r: edit distance %d to the forward primer, reported %d errors, budget %d" % (res["fm"], edit_iupac(m["fwd"], res["fm"]), res["fe"], m["ferr"])
        if not (edit_iupac(m["rev"], res["rm"]) <= res["re"] <= m["rerr"]):
            return "reverse match %r: edit distance %d to the reverse primer, reported %d errors, budget %d" % (res["rm"], edit_iupac(m["rev"], res["rm"]), res["re"], m["rerr"])
    exp, prop = expected_sample(m, res["ft"], res["rt"])
    if res["has_sample"]:
        if exp is None:
            return "sample %r assigned but the extracted tags (%s,%s) do not identify a sample under %s/%s (proposed %s)" % (
                res["sample"], res["ft"], res["rt"], m["fmode"], m["rmode"], prop)
        if exp["sample"] != res["sample"] or exp["exp"] != res["exp"]:
            return "sample %r assigned, declared sample for tags %s is %r" % (res["sample"], prop, exp["sample"])
        if res["has_err"]:
            return "sample assigned and error flag set"
    else:
        if not res["has_err"]:
            return "no sample and no obimultiplex_error flag"
        if exp is not None:
            return "tags (%s,%s) identify sample %r under the declared mode but the record is flagged: %s" % (res["ft"], res["rt"], exp["sample"], res["err"])
    return None


def order_dependence_key(lib):
    """known-finding key for records that depend on a map iteration order (None: no recorded finding applies)"""
    return None


def check_parse(lib, obs_lib):
    exp = []
    for m in lib["markers"]:
        exp.append(dict(fwd=m["fwd"], rev=m["rev"], ftl=m["ftl"], rtl=m["rtl"], fsp=m["fsp"], rsp=m["rsp"], ferr=m["ferr"], rerr=m["rerr"],
                        find=m["find"], rind=m["rind"], fmode=m["fmode"], rmode=m["rmode"], fdelim=m["fdelim"], rdelim=m["rdelim"],
                        ftind=m["ftind"], rtind=m["rtind"], samples=[dict(f=s["f"], r=s["r"], sample=s["sample"], exp=s["exp"]) for s in m["samples"]]))
    got = [dict(m, samples=m.get("samples") or []) for m in obs_lib]
    if exp != got:
        return dict(expected=exp, got=got)
    return None


def canonical_expectation(lib, rd, hits):
    """If the read is a canonical single-amplicon read (or a chimera of complete amplicons) whose primer hits are exactly the intended
    ones, return the list of expected records; otherwise None (clause not applicable).
    hits: (begin, end, errors, marker index, which) - the specification windows (substitution matcher) or, for sheets with primer
    indels, the spans reported by the library's matcher (the matcher is a parameter of the clause, as in C12_canonical_read_any_matcher).
    Rescue sides (tag delimiter + tag indels): applicable when the amplicon has the shape of C12_canonical_read_rescue."""
    if rd["kind"] not in ("canon", "pmis", "tagerr", "chimera") or not rd["amps"]:
        return None
    is_rc = "rc_of" in rd or bool(rd.get("is_rc"))
    L = len(rd["read"])
    want = []
    recs = []
    kof = {(h[0], h[1], h[3], h[4]): h[2] for h in hits}
    for a in rd["amps"]:
        mi, m = find_marker(lib, a["fwd"], a["rev"])
        resc_f = bool(m["fdelim"] and m["ftind"]); resc_r = bool(m["rdelim"] and m["rtind"])
        if (resc_f or resc_r) and not a.get("rescue_ok"):
            return None                          # outside the shape of the rescue theorem: safety clause only
        if a["kf"] > m["ferr"] or a["kr"] > m["rerr"] or len(a["bar"]) == 0:
            return None
        b1 = a["off"] + a["pf_at"]; e1 = b1 + len(a["pf"]); b2 = e1 + len(a["bar"]); e2 = b2 + len(a["pr"])
        fwd_oriented = True
        if a["flip"]:                            # amplicon inserted reverse-complemented
            lo, hi = a["off"], a["off"] + a["total"]
            b1, e1, b2, e2 = lo + hi - e2, lo + hi - b2, lo + hi - e1, lo + hi - b1
            fwd_oriented = False
        if is_rc:
            b1, e1, b2, e2 = L - e2, L - b2, L - e1, L - b1
            fwd_oriented = not fwd_oriented
        if fwd_oriented:
            w1, w2 = (b1, e1, mi, "f"), (b2, e2, mi, "cr")
        else:
            w1, w2 = (b1, e1, mi, "r"), (b2, e2, mi, "cf")
        want += [w1, w2]
        if w1 not in kof or w2 not in kof:
            return None
        if m["fdelim"] and a["tf"] == "" and m["ftl"]:
            return None
        if m["rdelim"] and a["tr"] == "" and m["rtl"]:
            return None
        if "tagmut" in a:
            sd, kind = a["tagmut"]
            on_rescue_side = resc_f if sd == "f" else resc_r
            if not on_rescue_side and (m["fdelim"] or m["rdelim"] or kind not in ("sub", "rot")):
                return None                      # indel inside a fixed window shifts the window: outside the canonical shape
        ft, rt = a["tf"], a["tr"]
        exp, _ = expected_sample(m, ft, rt)
        kfwd, krev = (kof[w1], kof[w2]) if fwd_oriented else (kof[w2], kof[w1])
        recs.append((b1, dict(seq=a["bar"], dir="forward" if fwd_oriented else "reverse", fp=m["fwd"], rp=m["rev"], fm=a["pf"], rm=a["pr"],
                              fe=kfwd, re=krev, ft=ft, rt=rt,
                              sample=exp["sample"] if exp else None, exp=exp["exp"] if exp else None)))
    got = sorted((h[0], h[1], h[3], h[4]) for h in hits)
    if got != sorted(want):
        return None                              # a spurious extra hit (or a missing one): hypothesis of the canonical clause not met
    recs.sort(key=lambda x: x[0])
    return [r for _, r in recs]


def compare_canonical(exp, got):
    if len(exp) != len(got):
        return "expected %d records, got %d" % (len(exp), len(got))
    for e, g in zip(exp, got):
        for k in ("seq", "dir", "fp", "rp", "fm", "rm", "fe", "re", "ft", "rt"):
            if e[k] != g[k]:
                return "%s: expected %r got %r" % (k, e[k], g[k])
        if e["sample"] is None:
            if g["has_sample"] or not g["has_err"]:
                return "expected an error-flagged record without sample, got sample %r" % g["sample"]
        elif not g["has_sample"] or g["sample"] != e["sample"] or g["exp"] != e["exp"] or g["has_err"]:
            return "expected sample %r, got %r (err=%r)" % (e["sample"], g["sample"] if g["has_sample"] else None, g["err"])
    return None


def mirror(recs):
    out = []
    for r in reversed(recs):
        r = dict(r)
        r["dir"] = dict(forward="reverse", reverse="forward").get(r["dir"], r["dir"])
        r.pop("rank", None)
        out.append(r)
    return out


# ----------------------------------------------------------------------------- Coq rendering
def cs(s):
    return "[" + ";".join(str(ord(c)) for c in s) + "]"


def lib_term(lib, sid):
    ms = []
    for m in lib["markers"]:
        ss = "[" + ";".join("(%s,%s,%d)" % (cs(s["f"]), cs(s["r"]), sid[(s["sample"], s["exp"])]) for s in m["samples"]) + "]"
        ms.append("mkM %s %s %d %d %d %d %d %d %d %d %d %d %d %d %s" % (
            cs(m["fwd"]), cs(m["rev"]), m["ftl"], m["rtl"], m["fsp"], m["rsp"], m["ferr"], m["rerr"], MODES[m["fmode"]], MODES[m["rmode"]],
            m["fdelim"], m["rdelim"], m["ftind"], m["rtind"], ss))
    return "[" + ";".join(ms) + "]"


def res_term(lib, sid, r):
    if r["err"] == "No barcode identified" and not r["fp"]:
        return None
    mi, m = find_marker(lib, r["fp"], r["rp"])
    smp = "(Some %d)" % sid[(r["sample"], r["exp"])] if r["has_sample"] and (r["sample"], r["exp"]) in sid else ("(Some 99999)" if r["has_sample"] else "None")
    return "mkR %s %s %d %s %s %d %d %s %s %s %s" % (cs(r["seq"]), "true" if r["dir"] == "forward" else "false", mi if mi is not None else 999,
                                                     cs(r["fm"]), cs(r["rm"]), r["fe"], r["re"], cs(r["ft"]), cs(r["rt"]), smp, "true" if r["has_err"] else "false")


def demux_term(lib, sid, read, recs):
    if len(recs) == 1 and recs[0]["err"] == "No barcode identified" and not recs[0]["fp"]:
        o = "NoBarcode %s" % cs(recs[0]["seq"])
    else:
        o = "Recs [" + ";".join(res_term(lib, sid, r) for r in recs) + "]"
    return "CDemux %s %s (%s)" % (lib_term(lib, sid), cs(read), o)


WHICH = {(False, True): "f", (True, True): "cr", (False, False): "r", (True, False): "cf"}


def hook_hits(lib, hh):
    """primer matches exported by the library (verif hook) -> (begin, end, errors, marker index, which)"""
    out = []
    for h in hh:
        mi, _ = find_marker(lib, h["fwd"], h["rev"])
        out.append((h["b"], h["e"], h["k"], mi, WHICH[(h["c"], h["dir"])]))
    return out


def hits_term(hits):
    """Gallina list of [hit]: marker rank +-(index+1), orientation flag = PrimerMatch.Forward"""
    ts = []
    for (b, e, k, mi, which) in hits:
        mk = (mi + 1) if which in ("f", "r") else -(mi + 1)
        ts.append("mkH (%d) (%d) (%d) (%d) %s" % (b, e, k, mk, "true" if which in ("f", "cr") else "false"))
    return "[" + ";".join(ts) + "]"


def demux_hits_term(lib, sid, read, hits, recs):
    if len(recs) == 1 and recs[0]["err"] == "No barcode identified" and not recs[0]["fp"]:
        o = "NoBarcode %s" % cs(recs[0]["seq"])
    else:
        o = "Recs [" + ";".join(res_term(lib, sid, r) for r in recs) + "]"
    return "CDemuxH %s %s %s%%Z (%s)" % (lib_term(lib, sid), cs(read), hits_term(hits), o)


IMPORTS = "From Coq Require Import NArith ZArith List. Import ListNotations.\nFrom OBI.C12 Require Import Model.\nOpen Scope N_scope.\n"


# ----------------------------------------------------------------------------- unit operations
def gen_units(rng, n):
    cases = []
    al = "acgt"
    for a, b in [("", ""), ("", "a"), ("a", ""), ("acgt", "acgt"), ("acgt", "cgta"), ("aaaa", "tttt"), ("acgt", "acg"), ("kitten", "sitting"), ("ac", "ca")]:
        cases.append(dict(op="hamming", a=a, b=b)); cases.append(dict(op="lev", a=a, b=b))
    # tie corpus for closest: two tags at distance 1 of the query; duplicates of the same tag in several pairs; unique
    cases.append(dict(op="closest", tags=[["aaaa", "c"], ["aaat", "g"]], a="aaac", side="f", dist="hamming"))
    cases.append(dict(op="closest", tags=[["aaaa", "c"], ["aaaa", "g"], ["tttt", "a"]], a="aaac", side="f", dist="hamming"))
    cases.append(dict(op="closest", tags=[["aaaa", "c"], ["aaat", "g"], ["aaac", "t"]], a="aaac", side="f", dist="lev"))
    cases.append(dict(op="closest", tags=[["c", "aaaa"], ["g", "aaat"], ["t", "aaag"]], a="aaac", side="r", dist="hamming"))
    cases.append(dict(op="closest", tags=[], a="aaac", side="r", dist="hamming"))
    # seed C12-A class: a tie between two declared tags, one of which is shared by several samples - the answer must be "" for EVERY
    # order in which the samples are met (A B A re-armed a 'unique' flag); all orders of the multiset are forced by the harness
    cases.append(dict(op="closest", tags=[["aaaa", "c"], ["aaaa", "g"], ["aaat", "t"]], a="aaac", side="f", dist="hamming"))
    cases.append(dict(op="closest", tags=[["c", "aaaa"], ["g", "aaaa"], ["t", "aaat"], ["a", "aaat"]], a="aaac", side="r", dist="hamming"))
    cases.append(dict(op="closest", tags=[["acgt", "c"], ["acgt", "g"], ["acgt", "t"], ["aggt", "t"], ["tttt", "a"]], a="atgt", side="f", dist="lev"))
    cases.append(dict(op="closest", tags=[["aaaa", "c"], ["aaaa", "g"], ["aaat", "t"], ["aaat", "a"], ["aaag", "a"]], a="aaac", side="f", dist="hamming"))
    for _ in range(n):
        la = rng.choice([0, 1, 3, 4, 4, 8, 8, 9])
        a = rseq(rng, la, al[:rng.choice([2, 4])])
        k = rng.random()
        if k < 0.4:
            b = rseq(rng, la, al)
        elif k < 0.8:
            b = a
            for _k in range(rng.choice([1, 2, 3])):
                b = mutate_tag(rng, b, rng.choice(["sub", "del", "ins"]), al) if b else rseq(rng, 1)
        else:
            b = rseq(rng, rng.choice([0, 1, 4, 7, 12]), al)
        cases.append(dict(op=rng.choice(["hamming", "lev", "lev"]), a=a, b=b))
    for _ in range(n):
        tl = rng.choice([2, 3, 4, 8])
        alpha = al[:rng.choice([2, 3, 4])]
        base = rseq(rng, tl, alpha)
        tags = []
        for _k in range(rng.choice([1, 2, 3, 5, 8])):
            t = base if rng.random() < 0.2 else (mutate_tag(rng, base, "sub", al) if rng.random() < 0.6 else rseq(rng, tl, alpha))
            tags.append([t, rseq(rng, 2, al)])
        side = rng.choice("fr")
        if side == "r":
            tags = [[y, x] for x, y in tags]
        q = mutate_tag(rng, base, rng.choice(["sub", "sub", "del", "ins", "none"]), al)
        cases.append(dict(op="closest", tags=tags, a=q, side=side, dist=rng.choice(["hamming", "lev"])))
    for _ in range(n):
        d = rng.choice(al)
        parts = []
        for _k in range(rng.choice([0, 1, 2, 3, 4])):
            parts.append(rseq(rng, rng.choice([0, 1, 4, 5]), al.replace(d, "")) if rng.random() < 0.7 else d * rng.choice([1, 2, 3]))
        s = "".join(parts)
        tagl, border, indel = rng.choice([4, 5, 8]), rng.choice([1, 2, 3]), rng.choice([1, 2])
        if rng.random() < 0.7:                  # structured: pre d^k1 tag d^k2 junk, tag length and delimiter runs around the declared ones
            nd = al.replace(d, "")
            k2 = max(0, border + rng.choice([-2, -1, 0, 0, 1, 2]))
            if rng.random() < 0.4:              # boundary of the "missing delimiters <= indel" test
                k2 = max(0, border - indel + rng.choice([0, 0, -1]))
            s = rseq(rng, rng.choice([0, 2, 6]), al) + d * max(0, border + rng.choice([-2, -1, 0, 0, 1])) + \
                rseq(rng, max(0, tagl + rng.choice([-3, -2, -1, 0, 0, 1, 2, 3])), nd) + d * k2 + \
                rseq(rng, rng.choice([0, 0, 1, 3]), nd)
        if rng.random() < 0.5:                  # inside the shape of C12_rescue_tag_spec: every admissible run length / tag length
            nd = al.replace(d, "")
            s = rseq(rng, rng.choice([0, 1, 5]), al) + rng.choice(nd) + d * rng.randint(1, border) + \
                rseq(rng, tagl + rng.randint(-indel, indel), nd) + d * rng.randint(max(1, border - indel), border) + rseq(rng, rng.choice([0, 0, 0, 1, 2]), nd)
        cases.append(dict(op="lookfortag", a=s, delim=d))
        cases.append(dict(op="rescue", a=s, delim=d, tagl=tagl, border=border, indel=indel))
    return cases


def unit_expected(c):
    if c["op"] == "hamming":
        return ("int", hamming(c["a"], c["b"]))
    if c["op"] == "lev":
        return ("int", lev(c["a"], c["b"]))
    if c["op"] == "closest":
        tags = [t[0] if c["side"] == "f" else t[1] for t in c["tags"]]
        t, d = unique_nearest(tags, c["a"], DIST[c["dist"]])
        return ("closest", t, d)
    if c["op"] == "lookfortag":
        return ("str", look_for_tag_spec(c["a"], c["delim"]))
    if c["op"] == "rescue":
        return ("rescue", rescue_expectation(c["a"], c["delim"], c["tagl"], c["border"], c["indel"]))
    return None


def unit_term(c, o):
    if c["op"] == "hamming":
        return "CHam %s %s %d" % (cs(c["a"]), cs(c["b"]), o["int"])
    if c["op"] == "lev":
        return "CLev %s %s %d" % (cs(c["a"]), cs(c["b"]), o["int"])
    if c["op"] == "closest":
        tags = "[" + ";".join("(%s,%s)" % (cs(a), cs(b)) for a, b in c["tags"]) + "]"
        d = "None" if not c["tags"] else "(Some %d)" % o["int"]
        return "CClosest %s %s %s %s %s %s" % (tags, cs(c["a"]), "true" if c["side"] == "f" else "false", "false" if c["dist"] == "hamming" else "true", cs(o["str"]), d)
    if c["op"] == "lookfortag":
        return "CLook %s %d %s" % (cs(c["a"]), ord(c["delim"]), cs(o["str"]))
    return "CRescue %s %d %d %d %d %s" % (cs(c["a"]), ord(c["delim"]), c["tagl"], c["border"], c["indel"], cs(o["str"]))


# ----------------------------------------------------------------------------- corpus (hand-written boundary cases, always first)
def corpus():
    P1, P2 = "gcatcgatgcaagtcctg", "ctagatgcgaattcgtcc"
    Q1, Q2 = "ttgacgcatagcgtacca", "ggatcatcgcgaatagtc"
    bar = "gattacagattacagattacacccc"
    out = []
    lib = dict(fmt="old", markers=[dict(fwd=P1, rev=P2, ftl=4, rtl=4, fsp=0, rsp=0, ferr=2, rerr=2, find=False, rind=False, fmode="strict", rmode="strict",
                                          fdelim=0, rdelim=0, ftind=0, rtind=0,
                                          samples=[dict(f="aacc", r="ggtt", sample="s1", exp="e"), dict(f="aacg", r="ggta", sample="s2", exp="e")])])
    sheet = "e s1 aacc:ggtt %s %s F @\ne s2 aacg:ggta %s %s F @\n" % (P1, P2, P1, P2)
    r1 = "tt" + "aacc" + P1 + bar + rc(P2) + rc("ggtt") + "aa"
    r0 = "aacc" + P1 + bar + rc(P2) + rc("ggtt")                      # no flank at all
    r2 = "acc" + P1 + bar + rc(P2) + rc("ggtt")                       # forward tag cut by one base
    r3 = "aacc" + P1 + rc(P2) + rc("ggtt")                            # empty barcode
    r4 = "aacg" + P1 + bar + rc(P2) + rc("ggtt")                      # undeclared tag combination
    reads = [r1, rc(r1), r0, rc(r0), r2, rc(r2), r3, r4, rc(r4), r1 + r0, rc(r1) + r0, P1, "a"]
    rds = [dict(read=r, kind="corpus", amps=[]) for r in reads]
    # fixed: left flank longer than 10000 bases (FilterBestMatch sentinel dropped every hit beyond position 10000)
    import random
    crng = random.Random(12)
    for n in (9990, 10050):
        a, inf = amplicon(crng, lib["markers"][0], lib["markers"][0]["samples"][0], barlen=20)
        fl = rseq(crng, n)
        inf["off"] = n; inf["flip"] = False
        rds.append(dict(read=fl + a + "ac", kind="canon", amps=[inf], tag="fixed:long-left-flank"))
        rds.append(dict(read=rc(fl + a + "ac"), kind="canon", amps=[inf], rc_of=len(rds) - 1))
    # seed C12-B class: chimeric reads whose amplicons have different status, in every order and orientation (an annotation map reused
    # across the amplicons of a read leaks the error flag / the sample of one amplicon into the next)
    m0 = lib["markers"][0]
    undeclared = dict(f="aacg", r="ggtt", sample="?", exp="?")
    for pat in ("gb", "bg", "gg", "bb"):
        for flips in ((False, False), (True, False), (False, True)):
            body, amps, goods = "", [], list(m0["samples"])
            for st, flip in zip(pat, flips):
                smp = goods.pop(0) if st == "g" else undeclared
                a, inf = amplicon(crng, m0, smp, barlen=12)
                inf["flip"] = flip; inf["off"] = 2 + len(body); inf["status"] = st
                body += (rc(a) if flip else a) + "ac"
                amps.append(inf)
            rds.append(dict(read="tt" + body, kind="chimera", amps=amps, pattern=pat, tag="seed:C12-B-class"))
            rds.append(dict(read=rc("tt" + body), kind="chimera", amps=amps, pattern=pat, rc_of=len(rds) - 1))
    out.append((lib, sheet, rds))
    lib2 = dict(fmt="csv", markers=[dict(fwd=P1, rev=P2, ftl=4, rtl=4, fsp=2, rsp=2, ferr=1, rerr=1, find=False, rind=False, fmode="hamming", rmode="hamming",
                                           fdelim=0, rdelim=0, ftind=0, rtind=0,
                                           samples=[dict(f="aaaa", r="cccc", sample="s1", exp="e"), dict(f="aaat", r="cccc", sample="s2", exp="e")]),
                                      dict(fwd=Q1, rev=Q2, ftl=0, rtl=8, fsp=2, rsp=2, ferr=1, rerr=1, find=False, rind=False, fmode="hamming", rmode="hamming",
                                           fdelim=0, rdelim=0, ftind=0, rtind=0, samples=[dict(f="", r="acgtacgt", sample="s3", exp="e")])])
    lib2["markers"].sort(key=lambda m: (m["fwd"], m["rev"]))
    sheet2 = ("@param,spacer,2\n@param,matching,hamming\n@param,primer_mismatches,1\nexperiment,sample,sample_tag,forward_primer,reverse_primer\n"
              "e,s1,aaaa:cccc,%s,%s\ne,s2,aaat:cccc,%s,%s\ne,s3,-:acgtacgt,%s,%s\n" % (P1, P2, P1, P2, Q1, Q2))
    t1 = "g" + "aaac" + "gg" + P1 + bar + rc(P2) + "tt" + rc("cccc") + "a"        # forward tag at distance 1 of BOTH declared tags: tie => error
    t2 = "g" + "aaaa" + "gg" + P1 + bar + rc(P2) + "tt" + rc("cccg") + "a"        # reverse tag at distance 1: unique nearest
    t3 = "gg" + Q1 + bar + rc(Q2) + "tt" + rc("acgtacga")
    reads2 = [t1, rc(t1), t2, rc(t2), t3, rc(t3), t2 + t3, rc(t3) + t2]
    out.append((lib2, sheet2, [dict(read=r, kind="corpus", amps=[]) for r in reads2]))
    # two markers whose forward primers differ by one base (budget 2): a read of either marker is hit by both forward patterns at the
    # same position; the records must still be the same on every run (fixed: markers examined in sorted order, stable sort of the hits)
    P1b = P1[:5] + "t" + P1[6:]
    mk = lambda f, r, t1, t2, sn: dict(fwd=f, rev=r, ftl=4, rtl=4, fsp=0, rsp=0, ferr=2, rerr=2, find=False, rind=False, fmode="strict", rmode="strict",
                                       fdelim=0, rdelim=0, ftind=0, rtind=0, samples=[dict(f=t1, r=t2, sample=sn, exp="e")])
    lib3 = dict(fmt="old", markers=sorted([mk(P1, P2, "aacc", "ggtt", "s1"), mk(P1b, Q2, "acac", "gtgt", "s2")], key=lambda m: (m["fwd"], m["rev"])),
                near_identical_primers=True)
    sheet3 = "e s1 aacc:ggtt %s %s F @\ne s2 acac:gtgt %s %s F @\n" % (P1, P2, P1b, Q2)
    n1 = "tt" + "aacc" + P1 + bar + rc(P2) + rc("ggtt") + "aa"
    n2 = "tt" + "acac" + P1b + bar + rc(Q2) + rc("gtgt") + "aa"
    out.append((lib3, sheet3, [dict(read=r, kind="corpus", amps=[], tag="fixed:near-identical-primers") for r in (n1, rc(n1), n2, rc(n2), n1 + n2, n2 + rc(n1))]))
    # primer indels (@indels true): an inserted base in the forward primer occurrence, a deleted base in the reverse one, both, and a
    # substitution + an insertion; the spans come from the library's matcher, the canonical clause is asserted when they are the intended ones
    lib5 = dict(fmt="csv", markers=[dict(fwd=P1, rev=P2, ftl=4, rtl=4, fsp=0, rsp=0, ferr=2, rerr=2, find=True, rind=True, fmode="strict", rmode="strict",
                                           fdelim=0, rdelim=0, ftind=0, rtind=0,
                                           samples=[dict(f="aacc", r="ggtt", sample="s1", exp="e"), dict(f="aacg", r="ggta", sample="s2", exp="e")])])
    sheet5 = "@param,indels,true\nexperiment,sample,sample_tag,forward_primer,reverse_primer\ne,s1,aacc:ggtt,%s,%s\ne,s2,aacg:ggta,%s,%s\n" % (P1, P2, P1, P2)
    rds5 = []
    for pf, pr in ((P1[:9] + "t" + P1[9:], P2), (P1, P2[:7] + P2[8:]), (P1[:9] + "t" + P1[9:], P2[:7] + P2[8:]), (P1[:5] + "a" + P1[6:11] + "c" + P1[11:], P2)):
        left = "aacc"; right = rc("ggtt")
        txt = left + pf + bar + rc(pr) + right
        inf = dict(fwd=P1, rev=P2, tf="aacc", tr="ggtt", pf=pf, pr=pr, bar=bar, kf=0, kr=0, pf_at=4, left=4, right=4, total=len(txt), rescue_ok=True, off=3, flip=False)
        rds5.append(dict(read="cat" + txt + "ga", kind="pmis", amps=[inf], tag="primer-indels"))
        rds5.append(dict(read=rc("cat" + txt + "ga"), kind="pmis", amps=[inf], rc_of=len(rds5) - 1))
    out.append((lib5, sheet5, rds5))
    # rescue extraction (C12_canonical_read_rescue): delimiter t, spacer 2, one tag indel, matching = indel; delimiter runs shortened,
    # observed tags with a deleted / inserted base (the first read is the Example C12_canonical_rescue_nonvacuous of Props.v)
    lib6 = dict(fmt="csv", markers=[dict(fwd=P1, rev=P2, ftl=4, rtl=4, fsp=2, rsp=2, ferr=2, rerr=2, find=False, rind=False, fmode="indel", rmode="indel",
                                           fdelim=ord("t"), rdelim=ord("t"), ftind=1, rtind=1,
                                           samples=[dict(f="aacc", r="ggaa", sample="s1", exp="e"), dict(f="ccgg", r="ccca", sample="s2", exp="e")])])
    sheet6 = ("@param,spacer,2\n@param,matching,indel\n@param,tag_delimiter,t\n@param,tag_indels,1\nexperiment,sample,sample_tag,forward_primer,reverse_primer\n"
              "e,s1,aacc:ggaa,%s,%s\ne,s2,ccgg:ccca,%s,%s\n" % (P1, P2, P1, P2))
    rds6 = []
    for (k1f, k2f, k1r, k2r, tf6, tr6) in ((2, 1, 1, 2, "aac", "ggaac"), (2, 2, 2, 2, "aacc", "ggaa"), (1, 1, 1, 1, "aacgc", "gga"), (2, 2, 2, 1, "ccgg", "cccaa"), (1, 2, 2, 2, "cgg", "ccca")):
        L6 = "g" + "t" * k1f + tf6 + "t" * k2f
        R6 = rc("g" + "t" * k1r + tr6 + "t" * k2r)
        txt = L6 + P1 + bar + rc(P2) + R6
        inf = dict(fwd=P1, rev=P2, tf=tf6, tr=tr6, pf=P1, pr=P2, bar=bar, kf=0, kr=0, pf_at=len(L6), left=len(L6), right=len(R6), total=len(txt), rescue_ok=True, off=2, flip=False)
        rds6.append(dict(read="gg" + txt + "a", kind="tagerr", amps=[inf], tag="rescue"))
        rds6.append(dict(read=rc("gg" + txt + "a"), kind="tagerr", amps=[inf], rc_of=len(rds6) - 1))
    out.append((lib6, sheet6, rds6))
    # BY DESIGN (C12_nearest_tag_has_no_distance_bound): hamming mode assigns a tag that shares no base with any declared tag
    # as soon as one declared tag is strictly nearer than the others
    lib4 = dict(fmt="csv", markers=[dict(fwd=P1, rev=P2, ftl=4, rtl=4, fsp=0, rsp=0, ferr=2, rerr=2, find=False, rind=False, fmode="hamming", rmode="hamming",
                                           fdelim=0, rdelim=0, ftind=0, rtind=0,
                                           samples=[dict(f="aaaa", r="cccc", sample="s1", exp="e"), dict(f="ggtt", r="cccc", sample="s2", exp="e")])])
    sheet4 = "@param,matching,hamming\nexperiment,sample,sample_tag,forward_primer,reverse_primer\ne,s1,aaaa:cccc,%s,%s\ne,s2,ggtt:cccc,%s,%s\n" % (P1, P2, P1, P2)
    g1 = "g" + "catt" + P1 + bar + rc(P2) + rc("cccc") + "a"     # catt: distance 4 to aaaa, 2 to ggtt -> s2
    g2 = "g" + "cgtc" + P1 + bar + rc(P2) + rc("ttta") + "a"     # reverse tag ttta at distance 4 of the only reverse tag -> still assigned
    out.append((lib4, sheet4, [dict(read=r, kind="corpus", amps=[], tag="by-design:no-distance-bound") for r in (g1, rc(g1), g2, rc(g2))]))
    return out


# ----------------------------------------------------------------------------- evaluation
def evaluate(ctx, sheets, units, broken, label, report=True, corr=True):
    """sheets: list of (lib, sheet text, reads). Runs the real code, the direct oracle and the correspondence."""
    def reps_for(lib):
        # fresh Go maps on every repetition: matters when the sample table is scanned (hamming / indel) or several markers compete
        ms = lib.get("markers", [])
        return 4 if (len(ms) > 1 or any(m["fmode"] != "strict" or m["rmode"] != "strict" for m in ms)) else 2
    cases = [dict(op="demux", sheet=txt, reads=[r["read"] for r in reads], hits=True, reps=reps_for(lib)) for (lib, txt, reads) in sheets] + units
    obs = ctx.vh_robust("c12", cases, timeout=600, one_timeout=20)
    stats = ctx.cov.setdefault("distribution", {})

    def bump(k, n=1):
        stats[k] = stats.get(k, 0) + n
    nviol = [0]
    perkind = {}

    def viol(kind, payload):
        nviol[0] += 1
        perkind[kind] = perkind.get(kind, 0) + 1
        if report and perkind[kind] <= 2 and len(perkind) <= 5:      # at most two replays per clause
            ctx.violation("%s_%s_%d" % (label, kind, nviol[0]), dict(property="C12", kind=kind, **payload))
    terms, term_src = [], []
    for ci, ((lib, txt, reads), o) in enumerate(zip(sheets, obs)):
        if lib.get("malformed"):
            bump("sheet/malformed")
            if o["kind"] != "parse_error":
                viol("malformed", dict(case=dict(sheet=txt, reads=[r["read"] for r in reads]), implementation=dict(kind=o["kind"], err=o.get("err")),
                                       expected="sheet rejected by ReadNGSFilter (%s)" % lib["malformed"]))
            continue
        bump("sheet/" + lib["fmt"]); bump("sheet/markers=%d" % len(lib["markers"]))
        if o["kind"] != "ok":
            viol("parse", dict(case=dict(sheet=txt, reads=[]), implementation=o, expected="sheet accepted"))
            continue
        d = check_parse(lib, o["lib"])
        if d:
            viol("parse", dict(case=dict(sheet=txt, reads=[]), implementation=d["got"], expected=d["expected"]))
            continue
        sid = {}
        for m in lib["markers"]:
            for s in m["samples"]:
                sid.setdefault((s["sample"], s["exp"]), len(sid))
        indel_primers = any(m["find"] or m["rind"] for m in lib["markers"])
        # DETERMINISM of the records (needed for every clause to be a statement about THE output): same sheet, same read, fresh maps
        for u in (o.get("unstable") or [])[:1]:
            ri = u["read"]
            key = order_dependence_key(lib)
            if key and ctx.kf_match(key):
                ctx.known(key, "records depend on the iteration order of a Go map"); bump("known/" + key)
            else:
                viol("order", dict(case=dict(sheet=txt, reads=[reads[ri]["read"]] if ri >= 0 else [], declared=lib, rd=dict({k: v for k, v in reads[max(ri, 0)].items() if k != "rc_of"}, is_rc="rc_of" in reads[max(ri, 0)])),
                                   implementation=dict(first_run=o["reads"][ri] if ri >= 0 else None, another_run=u.get("recs")),
                                   expected="the same records on every run (the sheet was parsed and the read demultiplexed %d times)" % reps_for(lib)))
        bump("reps", reps_for(lib))
        applicable = {}
        for ri, (rd, recs) in enumerate(zip(reads, o["reads"])):
            bump("read/" + rd["kind"])
            if rd.get("pattern"):
                bump("chimera2/" + rd["pattern"])
            rep = dict(case=dict(sheet=txt, reads=[rd["read"]], declared=lib, rd=dict({k: v for k, v in rd.items() if k != "rc_of"}, is_rc="rc_of" in rd or bool(rd.get("is_rc")))), read_kind=rd["kind"], implementation=recs)
            # SAFETY: every record
            for r in recs:
                why = check_safety(lib, r)
                if why:
                    viol("safety", dict(rep, expected=why)); break
                if r["has_sample"]:
                    bump("assigned")
                    bump("mode/%s" % find_marker(lib, r["fp"], r["rp"])[1]["fmode"])
                elif r["fp"]:
                    bump("flagged_amplicon")
                else:
                    bump("no_barcode")
            lhits = hook_hits(lib, o["hits"][ri])              # what the library's matcher found (verif hook)
            hits = all_hits(lib, rd["read"]) if not indel_primers else lhits
            # CANONICAL
            exp = canonical_expectation(lib, rd, hits)
            if exp is not None:
                bump("canonical_asserted" + ("/rc" if ("rc_of" in rd or rd.get("is_rc")) else "/fwd"))
                if indel_primers:
                    bump("canonical_asserted/primer_indels")
                    if any(len(a["pf"]) != len(a["fwd"]) or len(a["pr"]) != len(a["rev"]) for a in rd["amps"]):
                        bump("canonical_asserted/primer_indels/length_changed")
                if any((find_marker(lib, a["fwd"], a["rev"])[1]["ftind"] and find_marker(lib, a["fwd"], a["rev"])[1]["fdelim"]) or
                       (find_marker(lib, a["fwd"], a["rev"])[1]["rtind"] and find_marker(lib, a["fwd"], a["rev"])[1]["rdelim"]) for a in rd["amps"]):
                    bump("canonical_asserted/rescue")
                    if any("tagmut" in a and a["tagmut"][1] in ("del", "ins") for a in rd["amps"]):
                        bump("canonical_asserted/rescue/tag_indel")
                if rd.get("pattern"):
                    bump("canonical_asserted/chimera2/" + rd["pattern"])
                why = compare_canonical(exp, recs)
                if why:
                    viol("canonical", dict(rep, expected=dict(why=why, records=exp)))
                # STRAND SYMMETRY (asserted on the canonical shape; the hypothesis "the primer hits are exactly the two priming sites"
                # must hold on BOTH strands, as in C12_strand_symmetry: the library searches the complemented patterns only behind a direct
                # hit, so with near-identical primers of two markers its hit lists on the two strands are not mirror images)
                applicable[ri] = True
                if "rc_of" in rd and not applicable.get(rd["rc_of"]):
                    bump("strand_not_applicable(hits differ between strands)")
                elif "rc_of" in rd:
                    fw = o["reads"][rd["rc_of"]]
                    key = lambda r: (r["seq"], r["dir"], r["fp"], r["rp"], r["fm"], r["rm"], r["fe"], r["re"], r["ft"], r["rt"], r["has_sample"], r["sample"], r["exp"], r["has_err"])
                    if [key(r) for r in mirror(fw)] != [key(r) for r in recs]:
                        viol("strand", dict(rep, forward_read=reads[rd["rc_of"]]["read"], expected=mirror(fw)))
                    bump("strand_asserted")
            elif rd["kind"] in ("canon", "pmis", "tagerr", "chimera"):
                bump("canonical_not_applicable(spurious-hit/rescue/indel)")
            # correspondence term. Hits of different patterns starting at the same position are examined in the order
            # (marker in primer order; forward, complemented reverse, reverse, complemented forward) - fixed in round 2, part of the model
            begins = {}
            for h in hits:
                if h[0] in begins and begins[h[0]] != (h[3], h[4]):
                    bump("corr/with_begin_tie"); break
                begins[h[0]] = (h[3], h[4])
            rank = dict(f=0, cr=1, r=2, cf=3)
            lhits = sorted(lhits, key=lambda h: (h[3], rank[h[4]]))
            if indel_primers:
                # the matcher is a parameter: the model gets the spans the library's matcher reported
                terms.append(demux_hits_term(lib, sid, rd["read"], lhits, recs)); term_src.append(("demux", ci, ri)); bump("corr/demux_hits(primer_indels)")
            else:
                terms.append(demux_term(lib, sid, rd["read"], recs)); term_src.append(("demux", ci, ri))
                if ri % 4 == 0:                     # same case with the library's own hits (ties the hit export hook to the matcher model)
                    terms.append(demux_hits_term(lib, sid, rd["read"], lhits, recs)); term_src.append(("demux", ci, ri)); bump("corr/demux_hits")
    for ui, (c, o) in enumerate(zip(units, obs[len(sheets):])):
        bump("unit/" + c["op"])
        if o["kind"] in ("crash", "panic", "fatal"):
            viol("unit", dict(case=c, implementation=o, expected="a value")); continue
        e = unit_expected(c)
        ok = True
        if e and e[0] == "int":
            ok = o["int"] == e[1]
        elif e and e[0] == "str":
            ok = o["str"] == e[1]
        elif e and e[0] == "closest":
            # EVERY iteration order of the sample map that was observed must give the unique nearest tag
            ords = o.get("orders") or []
            ok = o["stable"] and all(x["tag"] == e[1] and (e[2] is None or x["dist"] == e[2]) for x in ords) and (bool(ords) or not c["tags"])
            bump("closest/orders_observed", o.get("n_orders", 0))
            if o.get("target_orders", -1) > 0:
                bump("closest/all_orders_seen" if o["n_orders"] >= o["target_orders"] else "closest/some_orders_not_seen")
            if not ok:
                bad = [x for x in ords if x["tag"] != e[1] or (e[2] is not None and x["dist"] != e[2])][:3]
                viol("unit", dict(case=c, implementation=dict(kind="closest", stable=o["stable"], n_orders=o.get("n_orders"), failing_orders=bad, first=ords[:1]), expected=e))
                continue
            elif c["tags"]:
                side_tags = [t[0] if c["side"] == "f" else t[1] for t in c["tags"]]
                # one term per observed order (at most 5) : model folded in that very order = code
                for x in ords[:(5 if ctx.quick else 2)]:
                    terms.append("CClosest %s %s true %s %s %s" % ("[" + ";".join("(%s,[])" % cs(t) for t in x["order"]) + "]", cs(c["a"]),
                                                               "false" if c["dist"] == "hamming" else "true", cs(x["tag"]), "(Some %d)" % x["dist"]))
                    term_src.append(("unit", ui, 0))
                if 0 < len(side_tags) <= 6:         # every permutation of the declared tags, inside Coq
                    terms.append("CClosestAll %s %s %s %s %s" % ("[" + ";".join(cs(t) for t in side_tags) + "]", cs(c["a"]),
                                                               "false" if c["dist"] == "hamming" else "true", cs(o["str"]), "(Some %d)" % o["int"]))
                    term_src.append(("unit", ui, 0)); bump("closest/all_permutations_in_coq")
                continue
        elif e and e[0] == "rescue":
            # C12_rescue_tag_spec (inside the shape) and C12_rescue_tag_sound (always): "" or a factor of the fragment within tag_indels of the declared length
            got = o["str"]
            if e[1] is not None:
                bump("rescue/in_theorem_shape")
                if len(e[1]) != c["tagl"]:
                    bump("rescue/in_theorem_shape/tag_length_changed")
                ok = got == e[1]
            if got != "" and c["indel"] <= c["tagl"] and not (got in c["a"] and abs(len(got) - c["tagl"]) <= c["indel"]):
                ok = False
        if not ok:
            viol("unit", dict(case=c, implementation=o, expected=e))
        terms.append(unit_term(c, o)); term_src.append(("unit", ui, 0))
    if not corr:                                     # search for a failing input: the direct oracle only
        return obs, [], nviol[0]
    bad, err = ctx.correspond(label, IMPORTS, terms, shard=120)
    if bad is None:
        broken.append(dict(kind="correspondence", detail=err))
        return obs, [], nviol[0]
    mism_src = [term_src[i] for i in bad]
    return obs, mism_src, nviol[0]


def gen_all(ctx, nsheets, nreads, nunits):
    rng = ctx.rng
    sheets = list(corpus())
    for _ in range(nsheets):
        lib, txt = gen_sheet(rng)
        sheets.append((lib, txt, gen_reads(rng, lib, nreads)))
    for _ in range(max(4, nsheets // 15)):           # malformed stream
        sheets.append(gen_malformed(rng))
        sheets.append(gen_shared_primer(rng))
    return sheets, gen_units(rng, nunits)


def run(ctx, broken):
    ns, nr, nu = (70, 5, 100) if ctx.quick else (1500, 8, 2000)
    sheets, units = gen_all(ctx, ns, nr, nu)
    obs, mism, nv = evaluate(ctx, sheets, units, broken, "main")
    nreads = sum(len(r) for _, _, r in sheets)
    ctx.cov["evaluations"] = nreads + len(units)
    d = ctx.cov["distribution"]
    ctx.cov["distinct_nontrivial"] = len({(txt, r["read"]) for _, txt, rs in sheets for r in rs if r["kind"] not in ("noprimer",)}) + \
        len({json.dumps(c, sort_keys=True) for c in units if c.get("a")})
    ctx.cov["rule"] = ("a demux case = (sheet, read); non-trivial = the read was built around at least one priming site of the sheet (all kinds but 'noprimer'); "
                       "unit cases (hamming/levenshtein/closest/lookForTag/rescue) non-trivial = non-empty query; distinct = distinct (sheet text, read) / distinct unit case")
    ctx.cov["canonical_clause_asserted"] = d.get("canonical_asserted/fwd", 0) + d.get("canonical_asserted/rc", 0)
    ctx.cov["strand_clause_asserted"] = d.get("strand_asserted", 0)
    ctx.cov["model_vs_impl_mismatches"] = len(mism)
    ctx.cov["rescue_canonical_asserted"] = d.get("canonical_asserted/rescue", 0)
    ctx.cov["rescue_unit_cases_in_theorem_shape"] = d.get("rescue/in_theorem_shape", 0)
    ctx.cov["primer_indel_canonical_asserted"] = d.get("canonical_asserted/primer_indels", 0)
    ctx.cov["primer_indel_correspondence_cases"] = d.get("corr/demux_hits(primer_indels)", 0)
    ctx.cov["begin_tie_cases_in_correspondence"] = d.get("corr/with_begin_tie", 0)
    ctx.cov["closest_iteration_orders_forced"] = d.get("closest/orders_observed", 0)
    ctx.cov["closest_cases_with_every_order_seen"] = d.get("closest/all_orders_seen", 0)
    ctx.cov["closest_cases_not_every_order_seen"] = d.get("closest/some_orders_not_seen", 0)
    ctx.cov["chimeras_by_status_pattern"] = {k.split("/")[-1]: v for k, v in d.items() if k.startswith("canonical_asserted/chimera2/")}
    ctx.cov["demultiplexing_repetitions_on_fresh_maps"] = d.get("reps", 0)
    mid = len(sheets) // 2
    while sheets[mid][0].get("malformed"):
        mid -= 1
    lib, txt, rs = sheets[mid]
    ctx.samples = [dict(sheet=txt, read=rs[0]["read"], kind=rs[0]["kind"], implementation=obs[mid].get("reads", [[]])[0] if obs[mid]["kind"] == "ok" else obs[mid]),
                   dict(unit=units[-1], implementation=obs[-1])]
    if mism and not ctx.violations:
        import os
        nsrch = int(os.environ.get("VERIF_C12_SEARCH", "600"))     # (mutation testing under load: a smaller search batch)
        more_s, more_u = gen_all(ctx, nsrch, 6, nsrch)
        evaluate(ctx, more_s, more_u, [], "search", corr=False)
        if not ctx.violations:
            k, ci, ri = mism[0]
            first = dict(sheet=sheets[ci][1], read=sheets[ci][2][ri]["read"], implementation=obs[ci]["reads"][ri]) if k == "demux" else dict(unit=units[ci], implementation=obs[len(sheets) + ci])
            broken.append(dict(kind="correspondence", name="corr:C12/%s" % k, first_diverging_case=first, n_diverging=len(mism)))
    elif mism:
        ctx.cov["note"] = "model and implementation diverge on %d cases (violations reported by the direct oracle)" % len(mism)


def replay(ctx, rp):
    c = rp.get("case") or {}
    if "declared" in c:
        obs, mism, nv = evaluate(ctx, [(c["declared"], c["sheet"], [c["rd"]])], [], [], "replay", report=False)
        print("replay: direct-oracle failures: %d, model mismatches: %d" % (nv, len(mism)))
        o = obs[0]
    elif "sheet" in c:
        o = ctx.vh_robust("c12", [dict(op="demux", sheet=c["sheet"], reads=c.get("reads", []))])[0]
    else:
        o = ctx.vh_robust("c12", [c])[0]
    print("replay:", json.dumps(c)[:600], "->", json.dumps(o)[:3000])
    print("expected:", json.dumps(rp.get("expected"), default=str)[:1500])
