"""C09 — LCS and one-difference kernels are exact within their error bound (pkg/obialign)."""
import itertools, os, time

PROPS = ["C09/Props.v"]
META = dict(
    text="Rocq theorems over an executable transcription of pkg/obialign's packed-word banded LCS kernel (FastLCSEGFScoreByte: two "
         "rows of anti-diagonals, uint64 cells, the stale scratch buffer as an input), of _samenuc/_iupac and of D1Or0. The banded "
         "kernel is proved exact as a refinement in four layers, each a theorem for ALL inputs: (i) C09_band_matrix - the two-row "
         "program returns the corner cell of a full matrix restricted to the band, both modes, ANY buffer content, hence "
         "C09_buffer_independent (no stale word is read before it is written); (ii) C09_band_cells - every in-band cell is a sound "
         "packed pair not better than the unbanded lexicographic DP and equals it wherever the optimum has few enough differences; "
         "(iii) C09_band_geometry - that condition keeps optimal paths strictly inside the band and holds at the corner whenever the "
         "reference is within the bound; (iv) C09_band_exact - for all pairs with |a|+|b| <= 30000, all bounds and all buffers "
         "FastLCSScore returns the reference pair within the bound (or with bound -1) and otherwise 'not found' or a beyond-bound "
         "pair; C09_band_symmetric - FastLCSScore is symmetric for all inputs. Also for all inputs: packed word order "
         "(C09_pack_order), _samenuc = IUPAC set intersection on the table of the build under test (C09_iupac_compat; _iupac, "
         "wsize, dwsize, the constant cells and encode/decode samples are dumped from the current build into C09/Gen/Tables.v "
         "before every run and re-proved, C09_pack_consts), the reference = LCS length + shortest alignment (C09_ref_is_lcs, "
         "inductive definitions), D1Or0 = 0 / 1 / -1 exactly against an inductive single-edit relation with reproducing position and "
         "symbols and symmetry (C09_d1or0_exact) and against a recursive Levenshtein distance (C09_d1or0_lev). End-gap-free mode "
         "(FastLCSEGFScore): reference recursion lcs_ref_egf, optimal for an inductive definition of alignments with free ends "
         "(C09_egf_ref_optimal); the same layers (ii)-(iv) with a score-based completeness condition (C09_egf_cells) give "
         "C09_egf_exact for all pairs with |a|+|b| <= 30000, all bounds, all buffers (first two results). On every run the real "
         "FastLCSScore, FastLCSEGFScore and "
         "D1Or0 run with fresh and reused buffers on all ordered pairs over {a,c,g,t} up to length 4 (thorough: 6) x all bounds, "
         "D1Or0 on all ordered pairs up to length 5 (thorough: 6) against the Levenshtein classes incl. position, symbols and symmetry, random IUPAC pairs up to 400 "
         "bases, and runs shaped like the call sites (obiclean all-pairs with bound = step, long runs of 300+ calls through one "
         "buffer over families of 50-500 bases with bounds 1-10, the shrinking-bound candidate loop of obitag) against independent "
         "oracles (full matrix; certified band; bit-parallel LCS), and the Coq model and the two Coq references are evaluated by "
         "vm_compute on the same small cases (same stale buffer words). Round 3: FastLCSEGFScoreByte is also called directly on raw "
         "bytes (upper / mixed case - the only way to reach the case folding of _samenuc, BioSequence stores lower case -, every pair of "
         "letters of either case, bytes around the letter ranges and above 127) in both modes with scratch buffers of chosen capacity "
         "(one word short of, equal to, above 2*width), length (0 .. capacity) and stale content (zeros, all-ones, the largest in-band "
         "word), judged by the full-matrix oracle on the case-folded sequences and by the model from the same buffer; pairs with length "
         "ratio > 3 in both argument orders with no bound and bounds around the length difference, and plain sequences against copies "
         "carrying compatible-but-different IUPAC codes (u for t, ambiguity codes) at the bounds 0, 1, 2, are generated at every size; "
         "decodeValues and the caller-less accessors _isout / _lpath run on chosen words against the layout. New theorems for all inputs: "
         "C09_samenuc_all_bytes (_samenuc on every pair of byte values), C09_case_insensitive (kernel and reference do not see the case), "
         "C09_pack_accessors, and the relation between the two kernels the callers rely on when they switch to D1Or0 at the bounds 0 and "
         "1: C09_shortcut_sound (IUPAC sequences: D1Or0 never under-estimates), C09_shortcut_exact / C09_shortcut_kernel_plain (sequences "
         "over a,c,g,t: D1Or0's verdict d gives exactly FastLCSScore's answer (L-d, L) within the bound and 'beyond' otherwise), "
         "C09_shortcut_ambiguity_witness (the agreement fails on ambiguity codes); the bounds the doc comment misdescribes: C09_bound0_spec "
         "(bound 0 = same length and symbol-by-symbol IUPAC match), C09_bound1_spec / C09_ref_one_difference (bound 1 = that, or one "
         "substituted / deleted / inserted symbol with everything else matching: inductive definition, no DP), C09_negative_bound (every "
         "bound below -1 answers 'not found'); and C09_no_panic: the kernel rewritten with checked slice accesses (None = Go's index out of "
         "range) always answers Some of what the model answers - no access out of range for any sequences, bound, mode, buffer content "
         "and capacity, and the default 0 of the model's unchecked reads is never used; C09_d1or0_no_panic: the same for D1Or0 written with its two index "
         "loops and checked reads (it equals the list-level model lcp / sfx of C09_d1or0_exact).",
    note="Trusted: Coq kernel + vm_compute; harness and generators; the Python oracles. Side condition of C09_band_cells/_exact: "
         "|a|+|b| <= 30000 (no field of the 16-bit packed word wraps; the code has the limit implicitly; same for C09_egf_cells/_exact). "
         "The full-matrix Python oracles that judge the long sequences are tied to the two Coq references (lcs_ref, lcs_ref_egf) by "
         "correspondence cases on every run (sequences up to 6 symbols: the references are plain exponential recursions). "
         "FastLCSEGFScore has no caller in the code base. Beyond the bound the property accepts 'not found' and any beyond-bound pair alike, so the correspondence "
         "compares answers after that projection (Corr.v). The third result of FastLCSEGFScore (end position) is modelled (and "
         "proved buffer-independent) but neither specified nor compared with the code: the property does not speak about it and it "
         "depends on the order in which equally good cells are met. "
         "Outside the property (leads of round 3): (1) obitag / obitag2 / obirefidx call D1Or0 instead of FastLCSScore once their bound has "
         "shrunk to 0 or 1; on a reference carrying an ambiguity code the byte comparison of D1Or0 counts one difference where FastLCSScore "
         "counts none (acgtacgtac / acgtncgtac, bound 1: FastLCSScore (10,10), D1Or0 1; reproduced on every run in coverage."
         "outside_property_shortcut and proved as C09_shortcut_ambiguity_witness): each kernel does what the property says of it, the "
         "inconsistency is in the callers' choice (obitag's property); C09_shortcut_kernel_plain proves the shortcut exact on a,c,g,t. "
         "(2) the doc comment of FastLCSScore / FastLCSEGFScore says 'if maxError > 0 ... otherwise no error checking' but only -1 means no "
         "bound: 0 is a real bound (as the property wants) and a bound below -1 answers 'not found' (generated: bounds -2, -7). "
         "(3) the band is about four times wider than the bound needs and the in-band flag of interior cells is never cleared: "
         "C09_band_cells holds for any band parameter, so this costs time, not exactness; a stale or zero word that is read would be "
         "toxic (_incpath(0) wraps to the largest word) - C09_buffer_independent proves none is read and the adversarial buffers test it. "
         "Not exercised: nothing of the three anchored kernel files (fastlcs.go, fastlcsegf.go, is_d0_or_d1.go: every statement is "
         "executed by the quick tier) - _isout and _lpath have no caller in the code base and are run through the hook verif3_c09.go. "
         "The two anchored call sites (obiclean/graph.go extendSimilarityGraph, obitag/obitag.go FindClosests) are not executed by this "
         "check, because they are the harnessed core of the obiclean and obitag properties: here their call patterns (all pairs with "
         "bound = step through one buffer per worker; the shrinking bound with the D1Or0 shortcut at 0 and 1, also against references "
         "carrying ambiguity codes) are replayed by the harness against the real kernels and every single call is judged.")
TRUSTED = ["field widths of the packed word (wsize = 16, re-proved against the build on every run): C09_band_exact assumes |a|+|b| <= 30000 "
           "so that no field overflows and _notavail/_out (length 30000) stay worse than every real cell",
           "hook pkg/obialign/verif2_c09.go returns the real _iupac / wsize / dwsize / _empty / _out / _notavail / encodeValues / decodeValues",
           "hook pkg/obialign/verif3_c09.go calls the real _isout / _lpath"]

# IUPAC nucleotide codes as sets of bases (NC-IUB 1984), written independently of the code's table
IUPAC_SETS = dict(a="a", c="c", g="g", t="t", u="t", r="ag", y="ct", s="cg", w="at", k="gt", m="ac",
                  b="cgt", d="agt", h="act", v="acg", n="acgt")
IUPAC = {k: sum({"a": 1, "c": 2, "g": 4, "t": 8}[x] for x in v) for k, v in IUPAC_SETS.items()}
for _c in "efijlopqxz":          # letters that are no nucleotide code: compatible with nothing (not even themselves)
    IUPAC[_c] = 0
ALPHA_IUPAC = "acgtrymkswbdhvnu"
KEY = 1 << 20


def same(x, y):
    """IUPAC compatibility as the property means it (sets of bases intersect); other symbols match only themselves."""
    if x in IUPAC and y in IUPAC:
        return (IUPAC[x] & IUPAC[y]) > 0
    return x == y


def dp(a, b, egf=False):
    """Full-matrix DP: maximum number of compatible matches, then the shortest alignment achieving it.
    egf: horizontal moves (gaps facing the longer sequence's ends) are free in the first and the last row."""
    if len(a) < len(b):
        a, b = b, a
    la, lb = len(a), len(b)
    if egf:
        prev = [0] * (la + 1)
    else:
        prev = [-j for j in range(la + 1)]
    cache = {}
    for i in range(1, lb + 1):
        cb = b[i - 1]
        mrow = cache.get(cb)
        if mrow is None:
            mrow = cache[cb] = [KEY - 1 if same(ca, cb) else -1 for ca in a]
        lc = 0 if (egf and i == lb) else 1
        cur = [-i] + [0] * la
        left = -i
        for j in range(1, la + 1):
            v = prev[j - 1] + mrow[j - 1]
            u = prev[j] - 1
            if u > v:
                v = u
            u = left - lc
            if u > v:
                v = u
            cur[j] = v
            left = v
        prev = cur
    v = prev[la]
    s = (v + KEY - 1) // KEY
    return s, s * KEY - v


def lev(a, b):
    prev = list(range(len(b) + 1))
    for i in range(1, len(a) + 1):
        cur = [i] + [0] * len(b)
        for j in range(1, len(b) + 1):
            cur[j] = min(prev[j] + 1, cur[j - 1] + 1, prev[j - 1] + (a[i - 1] != b[j - 1]))
        prev = cur
    return prev[len(b)]


def dist1(a, b):
    """0 if equal, 1 if the edit distance is exactly one, 2 otherwise (direct definition, linear)."""
    if a == b:
        return 0
    if len(a) == len(b):
        return 1 if sum(x != y for x, y in zip(a, b)) == 1 else 2
    if len(a) > len(b):
        a, b = b, a
    if len(b) - len(a) != 1:
        return 2
    return 1 if any(b[:k] + b[k + 1:] == a for k in range(len(b))) else 2


def check_d1(a, b, d, nolev=False):
    """None if the D1Or0 answer d = [verdict, pos, a1, a2] is what the property demands, else a reason."""
    e = dist1(a, b)
    if not nolev and len(a) <= 12 and len(b) <= 12:
        assert min(lev(a, b), 2) == e
    v, pos, a1, a2 = d
    if v == -99:
        return "panic"
    if e == 0:
        return None if v == 0 else "identical sequences: verdict %d" % v
    if e == 2:
        return None if v == -1 else "edit distance > 1: verdict %d" % v
    if v != 1:
        return "edit distance 1: verdict %d" % v
    c1, c2 = chr(a1), chr(a2)
    # the kind of edit follows from the lengths ('-' may also be a symbol of the sequences)
    if len(a) == len(b):
        ok = 0 <= pos < len(a) and a[pos] == c1 and b[pos] == c2 and c1 != c2 and a[:pos] + c2 + a[pos + 1:] == b
    elif len(a) > len(b):
        ok = c2 == "-" and 0 <= pos < len(a) and a[pos] == c1 and a[:pos] + a[pos + 1:] == b
    else:
        ok = c1 == "-" and 0 <= pos < len(b) and b[pos] == c2 and a[:pos] + c2 + a[pos:] == b
    return None if ok else "position/symbols (%d,%r,%r) do not reproduce the edit" % (pos, c1, c2)


def check_lcs(ref, m, s, l, extra=0):
    """The LCS clause. ref = (s*, l*) of the full DP; m the bound; (s,l) the answer ((-1,-1) = not found)."""
    rs, rl = ref
    if s == -99:
        return "panic"
    if m == -1 or rl - rs <= m:
        return None if (s, l) == (rs, rl) else "within bound: expected %s got %s" % ((rs, rl), (s, l))
    if (s, l) == (-1, -1):
        return None
    if s < 0 or l < 0:
        return "malformed answer %s" % ((s, l),)
    if l - s <= m:
        return "spurious within-bound answer %s (optimum %s has %d differences > %d)" % ((s, l), (rs, rl), rl - rs, m)
    return None


def dp_banded(a, b, W):
    """Exact (matches, shortest length) by a DP restricted to the diagonals -W .. delta+W (a the longer sequence), with a
    certificate: a path leaving that band has at least 2W+2+delta gaps, hence at most |b|-W-1 matching columns; if the band
    optimum has at least |b|-W matches it is the global lexicographic optimum. Returns None when the certificate fails."""
    if len(a) < len(b):
        a, b = b, a
    la, lb = len(a), len(b)
    delta = la - lb
    NEG = -(1 << 60)
    # row i holds columns j in [i-W, i+delta+W] clipped to [0, la]; value = s*KEY - l
    lo_prev, prev = 0, [-j for j in range(0, min(la, delta + W) + 1)]
    for i in range(1, lb + 1):
        lo = max(0, i - W)
        hi = min(la, i + delta + W)
        cb = b[i - 1]
        cur = [NEG] * (hi - lo + 1)
        hi_prev = lo_prev + len(prev) - 1
        for j in range(lo, hi + 1):
            v = NEG
            if j == 0:
                v = -i
            else:
                if lo_prev <= j - 1 <= hi_prev:
                    d = prev[j - 1 - lo_prev]
                    if d > NEG:
                        v = d + (KEY - 1 if same(a[j - 1], cb) else -1)
                if lo_prev <= j <= hi_prev:
                    u = prev[j - lo_prev] - 1
                    if u > v:
                        v = u
                if j - 1 >= lo:
                    u = cur[j - 1 - lo] - 1
                    if u > v:
                        v = u
            cur[j - lo] = v
        lo_prev, prev = lo, cur
    v = prev[la - lo_prev]
    s = (v + KEY - 1) // KEY
    if s < lb - W:
        return None
    return s, s * KEY - v


def ref_pair(job):
    """exact reference of one pair: certified band first (cheap for similar sequences), full matrix otherwise"""
    a, b = job
    W = 24
    while W <= 96:
        r = dp_banded(a, b, W)
        if r is not None:
            return r
        W *= 2
    return dp(a, b)


def lcs_len_bitpar(a, b):
    """Length of a longest IUPAC-compatible common subsequence, bit-parallel (Hyyro 2004) on Python integers."""
    if not a or not b:
        return 0
    m = len(a)
    full = (1 << m) - 1
    masks = {}
    v = full
    for c in b:
        mc = masks.get(c)
        if mc is None:
            mc = 0
            for k, x in enumerate(a):
                if same(x, c):
                    mc |= 1 << k
            masks[c] = mc
        u = v & mc
        v = ((v + u) | (v - u)) & full
    return m - bin(v).count("1")


# ------------------------------------------------------------------ regenerated tables (DESIGN 2.3-B; pattern of C07)
VERIF = os.path.dirname(os.path.dirname(os.path.dirname(os.path.abspath(__file__))))
TABLES_V = os.path.join(VERIF, "coq", "theories", "C09", "Gen", "Tables.v")
CODES16 = "acgturyswkmbdhvn"


def tables_source(t):
    def nl(l):
        return "[" + "; ".join(str(x) for x in l) + "]"
    enc = "; ".join("(%d, %d, %s, %d)" % (e[0], e[1], "true" if e[2] else "false", e[3]) for e in t["enc"])
    dec = "; ".join("(%d, (%d, %d, %s))" % (e[0], e[1], e[2], "true" if e[3] else "false") for e in t["dec"])
    acc = "; ".join("(%d, %s, %d)" % (e[0], "true" if e[1] else "false", e[2]) for e in t.get("acc", []))
    return ("(** GENERATED by tools/props/c09.py regen() from the CURRENT build (vh c09, case {\"kind\":\"tables\"}; hook\n"
            "    pkg/obialign/verif2_c09.go). Do not edit.\n"
            "    iupac_tab    : obialign._iupac (one set of bases per letter a..z);\n"
            "    wsize_gen, dwsize_gen : the constants wsize, dwsize of fastlcs.go;\n"
            "    empty_gen, out_gen, notavail_gen : the words _empty, _out, _notavail;\n"
            "    enc_samples  : (score, length, out, encodeValues(score, length, out));\n"
            "    dec_samples  : (word, decodeValues(word));\n"
            "    acc_samples  : (word, _isout(word), _lpath(word)) (hook verif3_c09.go). *)\n"
            "From Coq Require Import NArith List.\nImport ListNotations.\nOpen Scope N_scope.\n\n"
            "Definition iupac_tab : list N := %s.\n\nDefinition wsize_gen : N := %d.\nDefinition dwsize_gen : N := %d.\n\n"
            "Definition empty_gen : N := %d.\nDefinition out_gen : N := %d.\nDefinition notavail_gen : N := %d.\n\n"
            "Definition enc_samples : list (N * N * bool * N) := [%s].\n\n"
            "Definition dec_samples : list (N * (N * N * bool)) := [%s].\n\n"
            "Definition acc_samples : list (N * bool * N) := [%s].\n" % (
                nl(t["iupac"]), t["wsize"], t["dwsize"], t["empty"], t["out"], t["notavail"], enc, dec, acc))


def dump_tables(ctx):
    obs, err = ctx.vh("c09", [dict(kind="tables")], timeout=60)
    if obs is None:
        raise RuntimeError("vh c09 tables: %s" % err)
    return obs[0]


def regen(ctx):
    """Called by check.py before the Coq build: rewrite C09/Gen/Tables.v from the current code (write-if-changed), so that
    C09_iupac_compat and C09_pack_consts are re-proved over the tables of the build under test."""
    vh, err = ctx.build_harness()
    if vh is None:
        raise RuntimeError("harness build failed: %s" % err)
    t = dump_tables(ctx)
    src = tables_source(t)
    os.makedirs(os.path.dirname(TABLES_V), exist_ok=True)
    old = open(TABLES_V).read() if os.path.exists(TABLES_V) else None
    if old != src:
        with open(TABLES_V, "w") as f:
            f.write(src)
        ctx.cov["tables_regenerated"] = "changed"
    else:
        ctx.cov["tables_regenerated"] = "unchanged"
    ctx._c09_tables = t


def table_failures(t):
    """Executable statement of the table theorems on the dumped tables: [(what, x, y)] with x, y the symbols to replay."""
    bad = []
    tab = t["iupac"]
    for x in CODES16:
        for y in CODES16:
            got = (tab[ord(x) - 97] & tab[ord(y) - 97]) > 0 if len(tab) == 26 else None
            want = bool(set(IUPAC_SETS[x]) & set(IUPAC_SETS[y]))
            if got != want:
                bad.append(("_iupac: %r and %r are %scompatible in the table, the IUPAC sets %s / %s say %s" % (
                    x, y, "" if got else "not ", IUPAC_SETS[x], IUPAC_SETS[y], "compatible" if want else "not compatible"), x, y))
    if (t["wsize"], t["dwsize"]) != (16, 32):
        bad.append(("packing constants wsize=%s dwsize=%s (model: 16, 32)" % (t["wsize"], t["dwsize"]), "#", "#"))
    return bad


def replay_tables(ctx, t):
    """The table theorems are finite: compute the failing symbol pairs from the dumped tables and replay them on the code."""
    seen = set()
    for what, x, y in table_failures(t):
        if (x, y) in seen or (y, x) in seen or len(seen) >= 3:
            continue
        seen.add((x, y))
        if x == "#":
            # narrower fields overflow earlier: identical sequences just longer than the score field can count
            n = (1 << min(t["wsize"], t["dwsize"] - t["wsize"], 16)) + 1000 if min(t["wsize"], t["dwsize"] - t["wsize"]) < 16 else 2000
            case = dict(a="acgt" * (n // 4), b="acgt" * (n // 4), ms=[0, 1])
            obs = ctx.vh_robust("c09", [case], timeout=120)
            ref = (len(case["a"]), len(case["a"]))
            wrong = [r for r in obs[0].get("r", []) if (r[1], r[2]) != ref or (r[3], r[4]) != ref]
            ctx.violation("table_consts", dict(property="C09", kind="table-obligation", why=what, symbols=[x, y],
                                               case=dict(a=case["a"], b=case["b"], ms=case["ms"]),
                                               implementation=dict(r=obs[0].get("r"), d=obs[0].get("d")),
                                               expected=dict(lcs=ref[0], alilength=ref[1]), tables=t), no_input=not wrong)
            continue
        case = dict(a="ac" + x + "gt", b="ac" + y + "gt", ms=[-1, 0])
        obs = ctx.vh_robust("c09", [case], timeout=60)
        ref = dp(case["a"], case["b"])
        ctx.violation("table_%s_%s" % (x, y), dict(property="C09", kind="table-obligation", why=what, symbols=[x, y], case=case,
                                                  implementation=dict(r=obs[0].get("r"), d=obs[0].get("d")),
                                                  expected=dict(lcs=ref[0], alilength=ref[1]), tables=t))


# ------------------------------------------------------------------ generators
def all_seqs(n, alpha="acgt"):
    for k in range(n + 1):
        for t in itertools.product(alpha, repeat=k):
            yield "".join(t)


def mutate(rng, a, nmut, alpha):
    b = list(a)
    for _ in range(nmut):
        k = rng.random()
        if k < 0.4 and b:
            b[rng.randrange(len(b))] = rng.choice(alpha)
        elif k < 0.7 and b:
            del b[rng.randrange(len(b))]
        else:
            b.insert(rng.randrange(len(b) + 1), rng.choice(alpha))
    return "".join(b)


def tandem_pair(rng, maxlen):
    """A tandem repeat against its own shift: the longest common subsequence lies on a far diagonal (2*shift
    gaps) while the main diagonal has almost as many matches with fewer differences - the pairs on which a band
    that is too narrow gives a spurious within-bound answer."""
    p = rng.choice([1, 2, 2, 3, 4])
    unit = "".join(rng.choice("acgt") for _ in range(p))
    sh = p * rng.choice([1, 1, 2, 3])
    r = max(1, (min(maxlen, rng.choice([6, 10, 16, 30, maxlen])) - sh) // p)
    w = unit * r
    j1 = "".join(rng.choice("acgt") for _ in range(sh))
    j2 = "".join(rng.choice("acgt") for _ in range(sh))
    if rng.random() < 0.5:
        j2 = (unit * sh)[:sh - 1] + rng.choice("acgt")      # continues the repeat but for the last symbol
    a, b = j1 + w, w + j2
    if rng.random() < 0.3:
        b = mutate(rng, b, 1, "acgt")
    return a[:maxlen + 20], b[:maxlen + 20]


def rand_pair(rng, maxlen):
    if rng.random() < 0.15 and maxlen >= 4:
        a, b = tandem_pair(rng, maxlen)
        return (a, b) if rng.random() < 0.5 else (b, a)
    alpha = "acgt" if rng.random() < 0.4 else ("acgt" * 4 + ALPHA_IUPAC)
    if rng.random() < 0.03:
        alpha += "-.*"
    la = rng.choice([0, 1, 2, 3]) if rng.random() < 0.05 else rng.randrange(1, maxlen + 1)
    a = "".join(rng.choice(alpha) for _ in range(la))
    k = rng.random()
    if k < 0.15:
        b = "".join(rng.choice(alpha) for _ in range(max(0, la + rng.randrange(-20, 21))))
    elif k < 0.3:      # rotation / block swap: the optimum needs a far diagonal
        c = rng.randrange(0, la + 1) if rng.random() < 0.4 else min(la, rng.randrange(1, 11))
        b = a[c:] + a[:c]
        b = mutate(rng, b, rng.randrange(0, 4), alpha)
    else:
        b = mutate(rng, a, rng.choice([0, 1, 1, 2, 2, 3, 4, 5, 8, 12, 20, 30]), alpha)
    # length differences -20..20
    d = len(b) - len(a)
    if d > 20:
        b = b[:len(a) + 20]
    if d < -20:
        b = b + a[len(b):len(a) - 20]
    if rng.random() < 0.5:
        a, b = b, a
    return a, b


def ratio_pair(rng, maxlen):
    """Extreme length ratio: the long sequence is more than three times the short one (0..maxlen/4 symbols); the short one
    is a scattered subsequence of the long one, a mutated window of it, or unrelated. Either argument order (the default
    bound of an unbounded call and the band geometry must not depend on which argument is the long one)."""
    ls = rng.choice([0, 1, 1, 2, 3]) if rng.random() < 0.4 else rng.randrange(0, max(2, maxlen // 4))
    ll = rng.randrange(3 * ls + 1, max(3 * ls + 2, maxlen + 1))
    alpha = "acgt" if rng.random() < 0.6 else ("acgt" * 4 + ALPHA_IUPAC)
    long_ = "".join(rng.choice(alpha) for _ in range(ll))
    k = rng.random()
    if k < 0.4:
        idx = sorted(rng.sample(range(ll), min(ls, ll)))
        short = "".join(long_[i] for i in idx)
    elif k < 0.8:
        st = rng.randrange(0, ll - ls + 1)
        short = mutate(rng, long_[st:st + ls], rng.choice([0, 0, 1, 2]), alpha)[:max(0, (ll - 1) // 3)]
    else:
        short = "".join(rng.choice(alpha) for _ in range(ls))
    return (short, long_) if rng.random() < 0.5 else (long_, short)


AMBIG_FOR = {x: [c for c, v in IUPAC_SETS.items() if x in v and c != x] for x in "acgt"}      # codes compatible with a base


def iupac_pair(rng, maxlen):
    """A plain sequence against a copy in which some bases are replaced by a DIFFERENT but compatible IUPAC code (u for t,
    an ambiguity code containing the base), plus 0..2 true edits: the LCS kernel sees 0..2 differences where a byte
    comparison (D1Or0) sees more - judged at the bounds 0, 1, 2."""
    la = rng.randrange(1, maxlen + 1)
    a = [rng.choice("acgt") for _ in range(la)]
    b = list(a)
    for k in rng.sample(range(la), min(la, rng.choice([1, 1, 2, 3, 5]))):
        b[k] = rng.choice(AMBIG_FOR[a[k]])
        if rng.random() < 0.2:      # both sides ambiguous, still compatible
            a[k] = rng.choice([c for c in AMBIG_FOR[a[k]] if same(c, b[k])])
    b = mutate(rng, "".join(b), rng.choice([0, 0, 1, 1, 2]), "acgt")
    a = "".join(a)
    return (a, b) if rng.random() < 0.5 else (b, a)


def bounds_small(rng, a, b, ref):
    e = ref[1] - ref[0]
    d = abs(len(a) - len(b))
    return sorted({-1, 0, 1, 2, e, d} | ({-2, -7} if rng.random() < 0.1 else set()))


def bounds_for(rng, a, b, ref, n_extra=3):
    e = ref[1] - ref[0]
    d = abs(len(a) - len(b))
    ms = {-1, 0, 1, e - 1, e, e + 1, d - 1, d, d + 1, (e + 1) // 2, e // 2, 2 * e, e - 2}
    for _ in range(n_extra):
        ms.add(rng.randrange(0, 26))
    return sorted(m for m in ms if m >= -1)


CORPUS = [("", ""), ("a", ""), ("", "a"), ("a", "a"), ("a", "c"), ("ac", "ca"), ("acgt", "tgca"), ("aaaa", "aaaaa"),
          ("acgtacgt", "cgtacgta"), ("n", "a"), ("r", "y"), ("r", "a"), ("acgtn", "acgtr"), ("w", "s"), ("u", "t"),
          ("ggggacgt", "acgtcccc"), ("acacacac", "cacacaca"), ("aaaaaaaac", "caaaaaaaa"), ("a-c", "a-c"), ("a-c", "a.c"),
          ("ab", "b"), ("ba", "b"), ("aab", "ab"), ("aa", "a"), ("abc", "abd"), ("abc", "kbc"), ("abc", "akc"), ("v", "c"), ("v", "t"), ("acvt", "acct"),
          ("acgtacgtacgtacgtacgt", "acgtacgtaacgtacgtacgt"), ("acgtacgtacgtacgtacgt", "tacgtacgtacgtacgtacg")]


CORPUS += [(x, y) for x in ALPHA_IUPAC for y in ALPHA_IUPAC if x < y]      # every pair of IUPAC codes

# round 3: extreme length ratios (the short one first and second; the mirror is added by with_sym), compatible-but-different
# IUPAC symbols at the bounds 0 / 1, u against t inside a sequence
CORPUS_RATIO = [("", "acgtacgtac"), ("a", "acgtacgtacgt"), ("t", "acgacgacgacg"), ("ac", "acgtgacgtaacgt"), ("ac", "ggggggggtttt"),
                ("acg", "tacgtacgtacgta"), ("acgt", "acgtacgtacgtacgtacgt"), ("gt", "acacacacacacgt"), ("n", "acgtacgtac"),
                ("ca", "acgtacgtacgtacgt"), ("aaa", "aaaaaaaaaaaaaaaa"), ("acgtac", "acgtacgtacgtacgtacgtacgtacgtacgtacgt")]
CORPUS_IUPAC01 = [("acgtacgt", "acgnacgt"), ("acgtacgt", "acgtacgu"), ("ucgtacgt", "tcgtacgu"), ("acgtacgt", "rcgtacgy"),
                  ("acgtacgt", "acntacg"), ("acgtacgt", "acgtnacgt"), ("acgnacgt", "acgracgt"), ("aaaa", "nnnn"), ("acgt", "mssk"),
                  ("acgtacgt", "acgbacgt"), ("acgtacgt", "ncgtacgn"), ("acgtacgtt", "ncgtacgn"), ("acgwacgt", "acgsacgt")]


# ------------------------------------------------------------------ Coq rendering
def nlist(s):
    return "[" + ";".join(str(ord(c)) for c in s) + "]"


def wlist(l):
    return "[" + ";".join(str(x) for x in l) + "]"


IMPORTS = ("From Coq Require Import NArith ZArith List. Import ListNotations. Open Scope N_scope.\n"
           "From OBI.C09 Require Import Model Corr.")


def zt(x):
    return "(%d)%%Z" % x


def used_words(a, b, m, egf, pre):
    """The kernel looks only at the first 2*width words of a scratch buffer whose capacity is at least 2*width and
    replaces a smaller one by zeros: hand the model just that part (the model makes the same case distinction)."""
    la, lb = max(len(a), len(b)), min(len(a), len(b))
    if m == -1:
        m = 2 * la
    delta = la - lb
    if egf:
        m += delta
    if delta > m:
        return []
    extra = m - delta + 1
    width = 2 * (1 + delta + 2 * extra) - 1
    return pre[:2 * width] if len(pre) >= 2 * width else []


def coq_terms(c, o):
    """Terms for one dumped case: per bound the reused-buffer LCS and EGF calls (from the observed stale buffer),
    the fresh ones, and the D1Or0 answer."""
    ts = []
    a, b = nlist(c["a"]), nlist(c["b"])
    for k, r in enumerate(o["r"]):
        m, s, l, s2, l2, es, el, ee, es2, el2, ee2 = r
        pre1 = used_words(c["a"], c["b"], m, False, o["pre"][2 * k])
        pre2 = used_words(c["a"], c["b"], m, True, o["pre"][2 * k + 1])
        ts.append("CL %s %s %s false [] %s %s %s" % (a, b, zt(m), zt(s), zt(l), zt(0)))
        ts.append("CL %s %s %s false %s %s %s %s" % (a, b, zt(m), wlist(pre1), zt(s2), zt(l2), zt(0)))
        ts.append("CL %s %s %s true [] %s %s %s" % (a, b, zt(m), zt(es), zt(el), zt(ee)))
        ts.append("CL %s %s %s true %s %s %s %s" % (a, b, zt(m), wlist(pre2), zt(es2), zt(el2), zt(ee2)))
    d = o["d"]
    ts.append("CD %s %s %s %s %d %d" % (a, b, zt(d[0]), zt(d[1]), d[2], d[3]))
    if len(c["a"]) <= 6 and len(c["b"]) <= 6:      # the Coq references (plain recursion, exponential) against the Python oracle
        r, er = dp(c["a"], c["b"]), dp(c["a"], c["b"], egf=True)
        ts.append("CR %s %s false %s %s" % (a, b, zt(r[0]), zt(r[1])))
        ts.append("CR %s %s true %s %s" % (a, b, zt(er[0]), zt(er[1])))
    return ts


# ------------------------------------------------------------------ byte-level entry point, scratch buffers, accessors (round 3)
M64 = (1 << 64) - 1
BEST_WORD = (1 << 32) | (0xFFFF << 16) | 0xFFFE          # in band, score 65535, length 0: wins every max() if it is ever read
PATTERNS = [[0], [M64], [BEST_WORD], [1 << 32], [0xFFFFFFFF], [0, M64], [BEST_WORD, 0, 1], [(1 << 32) | 0xFFFE, 0xFFFE]]


def fold(bs):
    """what _samenuc compares: ASCII upper case folded to lower case, every other byte value unchanged (latin-1 string)"""
    return "".join(chr(x | 32) if 65 <= x <= 90 else chr(x) for x in bs)


def band_width(la, lb, m, egf):
    """number of words of one row of the kernel (None: the call answers before touching the buffer)"""
    la, lb = max(la, lb), min(la, lb)
    if m == -1:
        m = 2 * la
    delta = la - lb
    if egf:
        m += delta
    if delta > m:
        return None
    extra = m - delta + 1
    return 2 * (1 + delta + 2 * extra) - 1


def buf_specs(rng, la, lb, ms, n):
    """n scratch buffers around the capacity limit 2*width of one of the calls: one word short (replaced by the kernel),
    exact, one more, the 3*width the kernel allocates itself, larger; length 0, width or the whole capacity; stale content
    from PATTERNS."""
    out = []
    for _ in range(n):
        w = band_width(la, lb, rng.choice(ms), rng.random() < 0.5)
        if w is None:
            cap = rng.randrange(0, 40)
        else:
            cap = rng.choice([2 * w - 1, 2 * w, 2 * w, 2 * w + 1, 3 * w, 2 * w + rng.randrange(0, 50), max(0, w - 1), w])
        ln = rng.choice([0, cap, cap, min(cap, w or 0)])
        out.append(dict(len=ln, cap=cap, pat=rng.choice(PATTERNS)))
    return out


SPECIAL_BYTES = [0, 45, 46, 42, 64, 91, 96, 123, 127, 128, 193, 225, 255, 32, 10]     # '@' '[' '`' '{' around the letter ranges, high bytes


def recase(rng, s):
    """the bytes of s with random upper-casing of its letters and now and then a byte that is no letter"""
    out = []
    for ch in s:
        x = ord(ch)
        if 97 <= x <= 122 and rng.random() < 0.5:
            x -= 32
        out.append(x)
    if out and rng.random() < 0.25:
        for _ in range(rng.choice([1, 1, 2])):
            out[rng.randrange(len(out))] = rng.choice(SPECIAL_BYTES)
    return out


BYTE_CORPUS = [("ACGT", "acgt"), ("AcGt", "aCgT"), ("N", "a"), ("R", "g"), ("R", "c"), ("V", "C"), ("V", "T"), ("U", "t"), ("Z", "Z"), ("Z", "z"),
               ("z", "z"), ("@", "@"), ("@", "`"), ("[", "["), ("[", "{"), ("`", "`"), ("{", "{"), ("A", "a"), ("A", "A"), ("a", "A"),
               ("\x80", "\x80"), ("\xc1", "\xe1"), ("\xc1", "\xc1"), ("\x00", "\x00"), ("\x00", "a"), ("\xff", "\xff"), ("A\x00C", "a\x00c"),
               ("ACGTACGTAC", "acgtacgtac"), ("ACGTNACGT", "acgtacgt"), ("AC-GT", "ac-gt"), ("AC-GT", "AC.GT"), ("acGTacgtAC", "ACgtaCGgtac"),
               ("A", "ACGTACGTACGT"), ("acgtacgtacgt", "G"), ("", "ACGT"), ("ACGU", "acgt"), ("MRWSYK", "acgtac"), ("Aa", "aA")]


def gen_byte(rng, quick):
    """cases of kind 'byte' + which of them go to the Coq model"""
    cases = []
    for a, b in BYTE_CORPUS:
        ba, bb = [ord(c) for c in a], [ord(c) for c in b]
        ref = dp(fold(ba), fold(bb))
        ms = bounds_small(rng, ba, bb, ref)
        cases.append(dict(kind="byte", ba=ba, bb=bb, ms=ms, bufs=buf_specs(rng, len(ba), len(bb), ms, 2), cls="byte:corpus", coq=True))
    # every pair of letters, either case, as one-symbol sequences (nil buffer only)
    letters = list(range(65, 91)) + list(range(97, 123))
    coq_pick = set(rng.sample(range(len(letters) ** 2), 150))
    for i, x in enumerate(letters):
        for j, y in enumerate(letters):
            cases.append(dict(kind="byte", ba=[x], bb=[y], ms=[-1, 0], bufs=[], cls="byte:letter-pairs",
                              coq=(i * len(letters) + j in coq_pick) or (x | 32) == (y | 32)))
    for k in range(150 if quick else 3000):
        r = rng.random()
        small = k < (60 if quick else 400)
        mx = rng.choice([4, 8, 12]) if small else rng.choice([20, 40, 80])
        if r < 0.5:
            a, b = rand_pair(rng, mx)
        elif r < 0.75:
            a, b = iupac_pair(rng, mx)
        else:
            a, b = ratio_pair(rng, mx if small else 60)
        ba, bb = recase(rng, a), recase(rng, b)
        ref = dp(fold(ba), fold(bb))
        ms = bounds_small(rng, ba, bb, ref) if small else bounds_for(rng, ba, bb, ref, 1)
        if small and len(ms) > 3:
            ms = sorted(rng.sample(ms, 3))
        cases.append(dict(kind="byte", ba=ba, bb=bb, ms=ms, bufs=buf_specs(rng, len(ba), len(bb), ms, 2 if small else 3),
                          cls="byte:random-small" if small else "byte:random", coq=small))
    return cases


def eval_byte(ctx, cases, obs, stats, label="byte"):
    """Direct oracle of the byte-level calls: every call (nil buffer or any described buffer) must give the reference pair of
    the case-folded sequences within the bound and nothing within the bound beyond it; the three results must not depend
    on the scratch buffer."""
    nviol = 0
    for i, (c, o) in enumerate(zip(cases, obs)):
        w = None
        if o.get("kind") == "crash":
            w = "harness crash"
        else:
            fa, fb = fold(c["ba"]), fold(c["bb"])
            refs = (dp(fa, fb), dp(fa, fb, egf=True))
            nil = {}
            for m, ie, k, s, l, e in o["r"]:
                stats["evals"] += 1
                if k == -1:
                    nil[(m, ie)] = (s, l, e)
                elif (s, l, e) != nil.get((m, ie)):
                    w = w or "%s bound %d: nil buffer %s, buffer %s gives %s" % (("FastLCSScore", "FastLCSEGFScore")[ie], m, nil.get((m, ie)), c["bufs"][k], (s, l, e))
                x = check_lcs(refs[ie], m, s, l)
                if x:
                    w = w or "%s (bytes) bound %d, buffer %s: %s" % (("FastLCSScore", "FastLCSEGFScore")[ie], m, "nil" if k == -1 else c["bufs"][k], x)
                kind = c["cls"] + (":within" if (m == -1 or refs[0][1] - refs[0][0] <= m) else ":beyond")
                if ie == 0 and k == -1:
                    stats["dist"][kind] = stats["dist"].get(kind, 0) + 1
        if w:
            nviol += 1
            if nviol <= 2:
                ctx.violation("%s_%d" % (label, i), dict(property="C09", kind="byte-call", what=w,
                                                         case=dict(kind="byte", ba=c["ba"], bb=c["bb"], ms=c["ms"], bufs=c["bufs"]),
                                                         folded=dict(a=fold(c["ba"]), b=fold(c["bb"])),
                                                         implementation=dict(r=o.get("r")),
                                                         expected=None if o.get("kind") == "crash" else dict(lcs=dict(lcs=refs[0][0], alilength=refs[0][1]),
                                                                                                           egf=dict(lcs=refs[1][0], alilength=refs[1][1]))))
    return nviol


def byte_terms(c, o):
    ts = []
    a, b = wlist(c["ba"]), wlist(c["bb"])
    for m, ie, k, s, l, e in o["r"]:
        if k == -1:
            init = "[]"
        else:
            bs = c["bufs"][k]
            if bs["cap"] > 1500:
                continue
            init = "(fillbuf %d %s)" % (max(bs["cap"], bs["len"]), wlist(bs["pat"]))
        ts.append("CL %s %s %s %s %s %s %s %s" % (a, b, zt(m), "true" if ie else "false", init, zt(s), zt(l), zt(e)))
    return ts


def py_decode(w):
    """fields of a packed word, written from the layout (bit 32 = in band; bits 16..31 score; bits 0..15 = -length-2)"""
    return (w >> 16) & 0xFFFF, (0xFFFE - (w & 0xFFFF)) % 65536, ((w >> 32) & 1) == 0


def gen_words(rng, quick):
    ws = [0, 1, M64, M64 - 1, 1 << 32, (1 << 32) - 1, (1 << 32) + 1, 0xFFFF, 0xFFFE, 0x10000, 0xFFFF0000, BEST_WORD, 1 << 33, (1 << 33) - 1, 1 << 63]
    for _ in range(200 if quick else 5000):
        k = rng.random()
        if k < 0.5:
            sc, ln, out = rng.randrange(65536), rng.randrange(65535), rng.random() < 0.5
            w = (sc << 16) | ((0xFFFE - ln) & 0xFFFF) | (0 if out else 1 << 32)
            w = (w + rng.choice([0, 0, 1, -1, 1 << 16, -(1 << 16)])) & M64
        elif k < 0.8:
            w = rng.getrandbits(64)
        else:
            w = rng.getrandbits(34)
        ws.append(w)
    return ws


def eval_words(ctx, ws, obs, stats):
    nviol = 0
    terms = []
    if obs.get("kind") == "crash":
        ctx.violation("words_crash", dict(property="C09", kind="words", what="harness crash", case=dict(kind="words", ws=ws[:5])))
        return 1, terms
    for w, r in zip(ws, obs["r"]):
        stats["evals"] += 1
        s, l, o = py_decode(w)
        got = (r[1], r[2], bool(r[3]), bool(r[4]), r[5])
        terms.append("CW %d %d %d %s %s %d" % (w, r[1], r[2], "true" if r[3] else "false", "true" if r[4] else "false", r[5]))
        if got != (s, l, o, o, l):
            nviol += 1
            if nviol <= 2:
                ctx.violation("words_%d" % w, dict(property="C09", kind="words", what="decodeValues / _isout / _lpath of the packed word %d" % w,
                                                   case=dict(kind="words", ws=[w]), implementation=dict(score=r[1], length=r[2], out=bool(r[3]), isout=bool(r[4]), lpath=r[5]),
                                                   expected=dict(score=s, length=l, out=o, isout=o, lpath=l)))
    stats["dist"]["words"] = len(ws)
    return nviol, terms


# ------------------------------------------------------------------ evaluation
def oracle(ctx, cases, obs, label, stats):
    """Direct oracle on every observation; cases come in (a,b),(b,a) neighbours when c['sym'] is set."""
    nviol = 0

    reported = set()

    def viol(i, what, **kw):
        nonlocal nviol
        if i in reported:
            return
        reported.add(i)
        nviol += 1
        if nviol <= 3:
            ctx.violation("%s_oracle_%d" % (label, i), dict(property="C09", kind="direct-oracle", what=what,
                                                          case=dict(a=cases[i]["a"], b=cases[i]["b"], ms=cases[i]["ms"]),
                                                          implementation=dict(r=obs[i].get("r"), d=obs[i].get("d")), **kw))
    refs = {}
    for i, (c, o) in enumerate(zip(cases, obs)):
        if o.get("kind") == "crash":
            viol(i, "harness crash")
            continue
        a, b = c["a"], c["b"]
        key = (a, b) if len(a) >= len(b) else (b, a)
        ref = refs.get(("l",) + key)
        if ref is None:
            ref = refs[("l",) + key] = dp(a, b)
            refs[("l", key[1], key[0])] = ref
        eref = refs.get(("e", a, b))
        if eref is None:
            eref = refs[("e", a, b)] = dp(a, b, egf=True)
        delta = abs(len(a) - len(b))
        for r in o["r"]:
            m, s, l, s2, l2, es, el, ee, es2, el2, ee2 = r
            stats["evals"] += 4
            if (s, l) != (s2, l2):
                viol(i, "FastLCSScore: fresh buffer %s, reused buffer %s (bound %d)" % ((s, l), (s2, l2), m))
            if (es, el, ee) != (es2, el2, ee2):
                viol(i, "FastLCSEGFScore: fresh buffer %s, reused buffer %s (bound %d)" % ((es, el, ee), (es2, el2, ee2), m))
            w = check_lcs(ref, m, s, l) or check_lcs(ref, m, s2, l2)
            if w:
                viol(i, "FastLCSScore bound %d: %s" % (m, w), expected=dict(lcs=ref[0], alilength=ref[1]))
            w = check_lcs(eref, m, es, el) or check_lcs(eref, m, es2, el2)
            if w:
                viol(i, "FastLCSEGFScore bound %d: %s" % (m, w), expected=dict(lcs=eref[0], alilength=eref[1]))
            k = "within" if (m == -1 or ref[1] - ref[0] <= m) else ("notfound" if s == -1 else "beyond-pair")
            stats["dist"][k] = stats["dist"].get(k, 0) + 1
        w = check_d1(a, b, o["d"])
        stats["evals"] += 1
        stats["dist"]["d1=%d" % o["d"][0]] = stats["dist"].get("d1=%d" % o["d"][0], 0) + 1
        if w:
            viol(i, "D1Or0: " + w, expected=dict(distance_class=dist1(a, b)))
    # symmetry (the partner of case i is c['sym'])
    for i, c in enumerate(cases):
        j = c.get("sym")
        if j is None or j < i or obs[i].get("kind") == "crash" or obs[j].get("kind") == "crash":
            continue
        oi, oj = obs[i], obs[j]
        for ri, rj in zip(oi["r"], oj["r"]):
            if ri[0:5] != rj[0:5]:
                viol(i, "FastLCSScore not symmetric at bound %d: %s vs %s" % (ri[0], ri[1:5], rj[1:5]))
            if len(c["a"]) != len(c["b"]) and ri[5:7] != rj[5:7]:
                viol(i, "FastLCSEGFScore not symmetric at bound %d: %s vs %s" % (ri[0], ri[5:8], rj[5:8]))
        di, dj = oi["d"], oj["d"]
        if di[0] != dj[0] or (di[0] == 1 and (di[1], di[2], di[3]) != (dj[1], dj[3], dj[2])):
            viol(i, "D1Or0 not symmetric: %s vs %s" % (di, dj))
    return nviol


# ------------------------------------------------------------------ call-site shaped runs (obiclean, obirefidx, obitag)
def amplicon(rng, L):
    s = [rng.choice("acgt") for _ in range(L)]
    if rng.random() < 0.3:      # a homopolymer / microsatellite stretch, as in real markers
        k = rng.randrange(0, max(1, L - 12))
        unit = rng.choice(["a", "t", "ac", "tg", "gat"])
        s[k:k + 12] = list((unit * 12)[:12])
    if rng.random() < 0.2:
        s[rng.randrange(L)] = rng.choice("nryswkm")
    return "".join(s)


def family(rng, L, n):
    """n variants of one amplicon of length ~L: a tree of mutated copies (0..12 edits from their parent)"""
    seqs = [amplicon(rng, L)]
    while len(seqs) < n:
        seqs.append(mutate(rng, rng.choice(seqs), rng.choice([0, 1, 1, 1, 2, 2, 3, 4, 5, 8, 12]), "acgt"))
    return seqs


def gen_uses(rng, quick):
    cases = []
    # obiclean.extendSimilarityGraph: every pair i < j of one sample's variants, bound = step, one buffer per worker
    for _ in range(6 if quick else 40):
        seqs = family(rng, rng.randrange(50, 501), 12 if quick else 16)
        step = rng.randrange(1, 11)
        cases.append(dict(kind="run", seqs=seqs, calls=[[i, j, step] for i in range(len(seqs)) for j in range(i + 1, len(seqs))]))
    # obirefidx / obicleandb / obilandmark: long runs through ONE buffer over sequences of very different lengths and bounds
    for _ in range(2 if quick else 10):
        fams = [family(rng, L, 8) for L in (rng.randrange(50, 120), rng.randrange(120, 300), rng.randrange(300, 501), rng.randrange(50, 501))]
        seqs = [x for f in fams for x in f]
        calls = []
        for _ in range(300 if quick else 1500):
            f = rng.randrange(len(fams))
            i = 8 * f + rng.randrange(8)
            j = 8 * f + rng.randrange(8) if rng.random() < 0.9 else rng.randrange(len(seqs))
            m = rng.randrange(1, 11)
            if rng.random() < 0.05 and max(len(seqs[i]), len(seqs[j])) <= 130:
                m = -1
            calls.append([i, j, m])
        cases.append(dict(kind="run", seqs=seqs, calls=calls))
    # near the limit |a| + |b| <= 30000 of C09_band_exact / of the 16-bit fields: long similar sequences, small bounds
    for _ in range(1 if quick else 6):
        L = 14985 + rng.randrange(0, 10)
        a = "".join(rng.choice("acgt") for _ in range(L))
        seqs = [a, mutate(rng, a, 2, "acgt"), mutate(rng, a, 4, "acgt")]
        cases.append(dict(kind="run", seqs=seqs, calls=[[0, 1, 2], [1, 0, 3], [0, 2, 3], [2, 1, 6]] if not quick else [[0, 1, 2], [2, 0, 4]]))
    # obitag.FindClosests: one query against candidates, the bound shrinking to the best score seen so far
    for _ in range(10 if quick else 80):
        L = rng.randrange(50, 501)
        q = amplicon(rng, L)
        refs = [mutate(rng, q, k, "acgt") for k in sorted([rng.choice([0, 1, 2, 3, 4, 5, 6, 8, 10, 12, 15, 20, 25, 30]) for _ in range(18)], reverse=True)]
        other = family(rng, L + rng.randrange(-20, 21), 4)
        for o in other:
            refs.insert(rng.randrange(1, len(refs) + 1), o)
        if rng.random() < 0.35:     # references carrying ambiguity codes compatible with the query (u for t, r for a or g, n, ...):
            for k in rng.sample(range(len(refs)), min(len(refs), 6)):      # no difference for the LCS kernel, one per code for D1Or0
                r = list(refs[k])
                for pos in rng.sample(range(len(r)), min(len(r), rng.choice([1, 1, 2, 3]))):
                    if r[pos] in AMBIG_FOR:
                        r[pos] = rng.choice(AMBIG_FOR[r[pos]])
                refs[k] = "".join(r)
        if rng.random() < 0.5:      # candidates in no particular order
            head, tail = refs[:1], refs[1:]
            rng.shuffle(tail)
            refs = head + tail
        cases.append(dict(kind="tag", seqs=[q] + refs))
    return cases


def uses_calls(cases, obs):
    """[(case index, a, b, m, s, l, d)] : every kernel call of the runs; s = l = -2 marks a D1Or0-only call"""
    out = []
    for k, (c, o) in enumerate(zip(cases, obs)):
        if o.get("kind") == "crash":
            out.append((k, None, None, 0, -99, -99, -99))
            continue
        for r in o["r"]:
            if c["kind"] == "run":
                i, j, m, s, l, d = r
                out.append((k, c["seqs"][i], c["seqs"][j], m, s, l, d))
            else:
                j, m, s, l, d = r
                out.append((k, c["seqs"][0], c["seqs"][j], m, s, l, d))
    return out


def eval_uses(ctx, cases, obs, stats):
    calls = uses_calls(cases, obs)
    need = {}
    pre = []
    for (k, a, b, m, s, l, d) in calls:
        if a is None or s == -2:
            pre.append(None)
            continue
        ll = lcs_len_bitpar(a, b)
        pre.append(ll)
        if m == -1 or max(len(a), len(b)) - ll <= m:
            need[(a, b) if len(a) >= len(b) else (b, a)] = None
    keys = sorted(need)
    if keys:
        import multiprocessing
        with multiprocessing.Pool(min(8, os.cpu_count() or 2)) as pool:
            for key, r in zip(keys, pool.map(ref_pair, keys, chunksize=8)):
                need[key] = r
    nviol = 0
    dist = stats["dist"]
    for (k, a, b, m, s, l, d), ll in zip(calls, pre):
        stats["evals"] += 1
        w = None
        if a is None:
            w = "harness crash"
        elif s == -2:
            e = dist1(a, b)
            dist["use:d1"] = dist.get("use:d1", 0) + 1
            if d != {0: 0, 1: 1, 2: -1}[e]:
                w = "D1Or0 verdict %d, distance class %d" % (d, e)
        else:
            if d != -2 and d != {0: 0, 1: 1, 2: -1}[dist1(a, b)]:
                w = "D1Or0 verdict %d, distance class %d" % (d, dist1(a, b))
            ref = need.get((a, b) if len(a) >= len(b) else (b, a))
            if ref is not None:
                if ref[0] != ll:
                    raise RuntimeError("oracle self-check: bit-parallel LCS %d, DP %s for %r %r" % (ll, ref, a, b))
                w = w or check_lcs(ref, m, s, l)
                kind = "use:within" if (m == -1 or ref[1] - ref[0] <= m) else "use:beyond(exact)"
            else:       # max(|a|,|b|) - LCS > m: every alignment has more than m differences
                kind = "use:beyond"
                if s == -99:
                    w = w or "panic"
                elif (s, l) != (-1, -1) and (s < 0 or l < 0 or l - s <= m):
                    w = w or "spurious within-bound answer %s (LCS %d of lengths %d/%d, bound %d)" % ((s, l), ll, len(a), len(b), m)
            dist[kind] = dist.get(kind, 0) + 1
        if w:
            nviol += 1
            if nviol <= 2:
                c = cases[k]
                ctx.violation("uses_%d" % k, dict(property="C09", kind="call-site-run", what=w, call=dict(a=a, b=b, m=m, answer=[s, l], d1=d),
                                                 case=dict(kind=c["kind"], seqs=c["seqs"], calls=c.get("calls"))))
    return nviol


def d1all_chunk(job):
    """D1Or0 on all ordered pairs (a, b), a = sequences lo..hi-1, b every sequence over {a,c,g,t} of length <= n, against the
    definition (dist1, cross-checked with Levenshtein for a <= b) incl. position and symbols."""
    import subprocess, json
    vh_bin, n, lo, hi = job
    seqs = list(all_seqs(n))
    p = subprocess.run([vh_bin, "c09"], input=(json.dumps(dict(kind="d1all", n=n, lo=lo, hi=hi)) + "\n").encode(), capture_output=True, timeout=600)
    if p.returncode != 0:
        return lo, None, [("harness", "", "", repr(p.stderr[-300:]))], {}
    codes = json.loads(p.stdout.decode().splitlines()[0])["codes"]
    bad = []
    dist = {}
    k = 0
    for i in range(lo, min(hi, len(seqs))):
        a = seqs[i]
        for j, b in enumerate(seqs):
            c = codes[k]
            k += 1
            if c < 0:
                bad.append((a, b, [-99, -99, 0, 0], "panic"))
                continue
            d = [(c & 3) - 1, ((c >> 2) & 15) - 1, (c >> 6) & 255, c >> 14]
            if i <= j:
                assert min(lev(a, b), 2) == dist1(a, b)
            w = check_d1(a, b, d, nolev=True)
            dist[d[0]] = dist.get(d[0], 0) + 1
            if w and len(bad) < 3:
                bad.append((a, b, d, w))
    return lo, codes, bad, dist


class _Collect:
    """stand-in for vlib.Ctx inside worker processes: collects the violations"""
    def __init__(self):
        self.v = []

    def violation(self, name, obj, no_input=False):
        self.v.append((name, obj))


def exhaustive_chunk(job):
    """All ordered pairs (a, b), (b, a) with a in the chunk, b any sequence over {a,c,g,t} of length <= n and
    a <= b (so that every unordered pair belongs to exactly one chunk), every bound: real code + oracle."""
    import subprocess, json
    vh_bin, chunk, n, ms, k0 = job
    pm = [(a, b, ms) for a in chunk for b in all_seqs(n) if a <= b]
    cases = with_sym(pm)
    inp = "".join(json.dumps(dict(a=c["a"], b=c["b"], ms=c["ms"])) + "\n" for c in cases).encode()
    col = _Collect()
    st = dict(evals=0, dist={})
    try:
        p = subprocess.run([vh_bin, "c09"], input=inp, capture_output=True, timeout=3000)
        obs = [json.loads(l) for l in p.stdout.decode().splitlines() if l.strip()]
        if p.returncode != 0 or len(obs) != len(cases):
            raise RuntimeError("vh rc=%s, %d observations for %d cases: %s" % (p.returncode, len(obs), len(cases), p.stderr.decode()[-300:]))
    except Exception as e:
        col.violation("exhaustive_crash_%d" % k0, dict(property="C09", kind="harness-crash", what=repr(e), case=dict(a=cases[0]["a"], b=cases[0]["b"], ms=ms)))
        return col.v, st, len(cases), 0
    oracle(col, cases, obs, "exhaustive%d" % k0, st)
    return col.v, st, len(cases), sum(1 for c in cases if nontrivial(c))


def with_sym(pairs_ms):
    """[(a, b, ms)] -> cases, each followed by its mirror (b, a, ms) unless a == b."""
    cases = []
    for a, b, ms in pairs_ms:
        if a == b:
            cases.append(dict(a=a, b=b, ms=ms))
        else:
            k = len(cases)
            cases.append(dict(a=a, b=b, ms=ms, sym=k + 1))
            cases.append(dict(a=b, b=a, ms=ms, sym=k))
    return cases


def nontrivial(c):
    return len(c["a"]) >= 2 and len(c["b"]) >= 2 and c["a"] != c["b"]


def run(ctx, broken):
    rng = ctx.rng
    t0 = time.time()
    timing = {}
    stats = dict(evals=0, dist={})
    n_ex = 4 if ctx.quick else 6
    n_rand_big = 40 if ctx.quick else 500
    n_rand_mid = 400 if ctx.quick else 20000
    n_coq = 30 if ctx.quick else 500
    classes = {}                 # generator classes -> number of generated pairs (before mirroring)
    nontriv = set()
    nontriv_count = [0]          # counted inside the exhaustive chunks (distinct by construction)
    sizes = {}

    def account(cases):
        for c in cases:
            if nontrivial(c):
                nontriv.add((c["a"], c["b"], tuple(c["ms"])))
            k = "len<=%d" % (4 if max(len(c["a"]), len(c["b"])) <= 4 else 8 if max(len(c["a"]), len(c["b"])) <= 8 else
                             50 if max(len(c["a"]), len(c["b"])) <= 50 else 400)
            sizes[k] = sizes.get(k, 0) + 1

    # ---- 0. the finite table obligations on the tables of the build under test (regenerated into C09/Gen/Tables.v by regen)
    tabs = getattr(ctx, "_c09_tables", None) or dump_tables(ctx)
    replay_tables(ctx, tabs)
    ctx.cov["tables"] = dict(iupac=tabs["iupac"], wsize=tabs["wsize"], dwsize=tabs["dwsize"], failing_pairs=len(table_failures(tabs)))

    # ---- 0b. recorded limit of the 16-bit packed fields (known finding lcs-16bit-fields): identical sequences of 65540 symbols
    big = "acgt" * 16385
    bo = ctx.vh_robust("c09", [dict(a=big, b=big, ms=[0])], timeout=180, one_timeout=90)[0]
    br = (bo.get("r") or [[0, -99, -99, -99, -99]])[0]
    ctx.cov["field_overflow_witness"] = dict(length=len(big), bound=0, answer=br[1:3])
    if (br[1], br[2]) != (len(big), len(big)) or (br[3], br[4]) != (len(big), len(big)):
        what = "FastLCSScore on two identical sequences of %d symbols, bound 0, answers %s instead of %s (16-bit score field overflows)" % (
            len(big), (br[1], br[2]), (len(big), len(big)))
        if ctx.kf_match("lcs-16bit-fields"):
            ctx.known("lcs-16bit-fields", what)
        else:
            ctx.violation("field_overflow", dict(property="C09", kind="field-overflow", what=what, case=dict(unit="acgt", repeat=16385, ms=[0]),
                                                 implementation=dict(r=bo.get("r")), expected=dict(lcs=len(big), alilength=len(big))))

    # ---- 1. corpus + small dumped cases: oracle AND correspondence with the Coq model
    pm = []
    for a, b in CORPUS:
        pm.append((a, b, bounds_for(rng, a, b, dp(a, b), 1) if len(a) + len(b) > 2 else [0]))
    for _ in range(n_coq):
        a, b = rand_pair(rng, rng.choice([4, 8, 12]))
        ref = dp(a, b)
        ms = bounds_for(rng, a, b, ref, 1)
        if len(ms) > 3:
            ms = sorted(rng.sample(ms, 3))
        pm.append((a, b, ms))
    classes["corpus"] = len(CORPUS)
    classes["small:mixed"] = n_coq
    # round 3: extreme length ratios / compatible-but-different IUPAC symbols at the bounds 0, 1, 2 (corpus, then random)
    for a, b in CORPUS_RATIO + CORPUS_IUPAC01:
        pm.append((a, b, bounds_small(rng, a, b, dp(a, b))))
    classes["corpus:length-ratio>3"] = len(CORPUS_RATIO)
    classes["corpus:iupac-compatible-at-bounds-0-1"] = len(CORPUS_IUPAC01)
    for k in range(2 * (n_coq // 3)):
        a, b = (ratio_pair if k % 2 else iupac_pair)(rng, rng.choice([8, 12, 16]))
        ms = bounds_small(rng, a, b, dp(a, b))
        if len(ms) > 3:
            ms = sorted(rng.sample(ms, 3))
        pm.append((a, b, ms))
        key = "small:length-ratio>3" if k % 2 else "small:iupac-compatible"
        classes[key] = classes.get(key, 0) + 1
    ccases = with_sym(pm)
    for c in ccases:
        c["dump"] = True
    cobs = ctx.vh_robust("c09", ccases, timeout=300, one_timeout=20)
    oracle(ctx, ccases, cobs, "small", stats)
    account(ccases)
    terms, owner = [], []
    for i, (c, o) in enumerate(zip(ccases, cobs)):
        if o.get("kind") == "crash" or any(r[1] == -99 or r[3] == -99 or r[5] == -99 or r[8] == -99 for r in o["r"]) or o["d"][0] == -99:
            continue
        if any(len(p) > 4000 for p in o.get("pre", [])):
            continue
        for t in coq_terms(c, o):
            terms.append(t)
            owner.append(i)
    mism = []
    if not os.environ.get("C09_NOCOQ"):
        bad, err = ctx.correspond("small", IMPORTS, terms, fn="mismatches_sl", shard=120)
        if bad is None:
            broken.append(dict(kind="correspondence", detail=err))
        else:
            mism = bad
    ctx.cov["model_vs_impl_mismatches"] = len(mism)
    timing["small+coq"] = round(time.time() - t0, 1)

    # ---- 2. exhaustive small pairs over {a,c,g,t}: all ordered pairs, bounds -1..n+1 (chunks in parallel processes)
    seqs = list(all_seqs(n_ex))
    ms = list(range(-1, n_ex + 2))
    per = max(1, len(seqs) // (1 if ctx.quick else 512))
    jobs = [(ctx.vh_bin, seqs[k:k + per], n_ex, ms, k) for k in range(0, len(seqs), per)]
    if len(jobs) == 1:
        results = [exhaustive_chunk(jobs[0])]
    else:
        import multiprocessing
        with multiprocessing.Pool(min(8, os.cpu_count() or 2)) as pool:
            results = pool.map(exhaustive_chunk, jobs, chunksize=1)
    timing["exhaustive_run+oracle"] = round(time.time() - t0, 1)
    n_ex_cases = 0
    for viols, st, ncases, ntriv in results:
        for name, obj in viols[:max(0, 3 - len(ctx.violations))]:
            ctx.violation(name, obj)
        stats["evals"] += st["evals"]
        for k, v in st["dist"].items():
            stats["dist"][k] = stats["dist"].get(k, 0) + v
        n_ex_cases += ncases
        n_nontriv_ex = ntriv
        sizes["exhaustive<=%d" % n_ex] = sizes.get("exhaustive<=%d" % n_ex, 0) + ncases
        nontriv_count[0] += ntriv

    # ---- 3. random pairs with IUPAC codes: mid-size (<= 60) and up to 400 bases
    pm = []
    for _ in range(n_rand_mid):
        a, b = rand_pair(rng, 60)
        ms = bounds_for(rng, a, b, dp(a, b))
        if rng.random() < 0.05:      # a bound far above both lengths (band of thousands of diagonals around a small matrix)
            ms.append(rng.choice([150, 1000]))
            classes["random:bound>>lengths"] = classes.get("random:bound>>lengths", 0) + 1
        pm.append((a, b, ms))
    for _ in range(n_rand_big):
        a, b = rand_pair(rng, 400)
        pm.append((a, b, bounds_for(rng, a, b, dp(a, b))))
    classes["random:mixed<=60"] = n_rand_mid
    classes["random:mixed<=400"] = n_rand_big
    # round 3: the two new classes at mid size and up to 400 bases (the unbounded call on a 400-base sequence fills a band of
    # 3200 diagonals: a few of them are enough)
    for k in range(n_rand_mid // 2):
        a, b = (ratio_pair if k % 2 else iupac_pair)(rng, 60)
        ref = dp(a, b)
        pm.append((a, b, sorted(set(bounds_small(rng, a, b, ref)) | set(bounds_for(rng, a, b, ref, 1)))))
        key = "random:length-ratio>3<=60" if k % 2 else "random:iupac-compatible<=60"
        classes[key] = classes.get(key, 0) + 1
    for k in range(n_rand_big // 2):
        a, b = (ratio_pair if k % 2 else iupac_pair)(rng, 400)
        ref = dp(a, b)
        pm.append((a, b, sorted(set(bounds_small(rng, a, b, ref)) | set(bounds_for(rng, a, b, ref, 1)))))
        key = "random:length-ratio>3<=400" if k % 2 else "random:iupac-compatible<=400"
        classes[key] = classes.get(key, 0) + 1
    rcases = with_sym(pm)
    robs = ctx.vh_robust("c09", [dict(a=c["a"], b=c["b"], ms=c["ms"]) for c in rcases], timeout=1200, one_timeout=30)
    oracle(ctx, rcases, robs, "random", stats)
    account(rcases)

    timing["random"] = round(time.time() - t0, 1)

    # ---- 4. runs shaped like the call sites (obiclean / obirefidx / obitag): 50..500 bases, bounds 1..10, one buffer per run
    ucases = gen_uses(rng, ctx.quick)
    uobs = ctx.vh_robust("c09", ucases, timeout=1200, one_timeout=60)
    eval_uses(ctx, ucases, uobs, stats)
    sizes["call-site runs"] = len(ucases)
    sizes["call-site kernel calls"] = sum(len(o.get("r", [])) for o in uobs)
    for c in ucases:
        nontriv.add((c["kind"], tuple(c["seqs"][:3]), len(c.get("calls") or c["seqs"])))
    timing["uses"] = round(time.time() - t0, 1)

    # ---- 5. D1Or0 on ALL ordered pairs over {a,c,g,t} of length <= 5 against the Levenshtein classes, + symmetry
    #         (thorough: part 2 already runs D1Or0 on all pairs up to length 6)
    n_d1 = 5
    nseq = sum(4 ** k for k in range(n_d1 + 1))
    step = max(1, nseq // (16 if ctx.quick else 64))
    jobs = [(ctx.vh_bin, n_d1, lo, min(nseq, lo + step)) for lo in range(0, nseq, step)]
    import multiprocessing
    with multiprocessing.Pool(min(8, os.cpu_count() or 2)) as pool:
        dres = pool.map(d1all_chunk, jobs, chunksize=1)
    rows = {}
    d1seqs = list(all_seqs(n_d1))
    nd1 = 0
    for lo, codes, bad, dist in dres:
        for a, b, d, w in bad[:max(0, 3 - len(ctx.violations))]:
            ctx.violation("d1all_%s_%s" % (a or "-", b or "-"), dict(property="C09", kind="direct-oracle", what="D1Or0: " + w, case=dict(a=a, b=b, ms=[0]),
                                                              implementation=dict(d=d), expected=dict(distance_class=dist1(a, b) if w != "harness" else None)))
        for k, v in dist.items():
            stats["dist"]["d1all=%d" % k] = stats["dist"].get("d1all=%d" % k, 0) + v
        if codes is not None:
            rows[lo] = codes
            nd1 += len(codes)
    if len(rows) == len(jobs):
        flat = []
        for lo in sorted(rows):
            flat.extend(rows[lo])
        nsym = 0
        for i in range(nseq):
            base = i * nseq
            for j in range(i + 1, nseq):
                c1, c2 = flat[base + j], flat[j * nseq + i]
                if c1 == c2 and (c1 & 3) != 2:
                    continue
                ok = (c1 & 63) == (c2 & 63) and ((c1 & 3) != 2 or ((c1 >> 6) & 255, c1 >> 14) == (c2 >> 14, (c2 >> 6) & 255))
                if not ok and nsym < 2:
                    nsym += 1
                    a, b = d1seqs[i], d1seqs[j]
                    ctx.violation("d1sym_%s_%s" % (a or "-", b or "-"), dict(property="C09", kind="direct-oracle", what="D1Or0 not symmetric", case=dict(a=a, b=b, ms=[0]),
                                                                      implementation=dict(ab=c1, ba=c2)))
    stats["evals"] += nd1
    sizes["d1 exhaustive<=%d" % n_d1] = nd1
    nontriv_count[0] += sum(1 for x in d1seqs if len(x) >= 2) ** 2 - sum(1 for x in d1seqs if len(x) >= 2) if n_d1 > n_ex else 0
    timing["d1all"] = round(time.time() - t0, 1)

    # ---- 6. FastLCSEGFScoreByte called directly on raw bytes (upper / mixed case, bytes that are no letters), both modes,
    #         with scratch buffers of chosen capacity, length and stale content; oracle + correspondence with the model
    bcases = gen_byte(rng, ctx.quick)
    bobs = ctx.vh_robust("c09", [dict(kind="byte", ba=c["ba"], bb=c["bb"], ms=c["ms"], bufs=c["bufs"]) for c in bcases], timeout=600, one_timeout=30)
    eval_byte(ctx, bcases, bobs, stats)
    bterms, bowner = [], []
    for i, (c, o) in enumerate(zip(bcases, bobs)):
        classes[c["cls"]] = classes.get(c["cls"], 0) + 1
        if len(c["ba"]) >= 2 and len(c["bb"]) >= 2 and fold(c["ba"]) != fold(c["bb"]):
            nontriv.add(("byte", tuple(c["ba"]), tuple(c["bb"]), tuple(c["ms"])))
        if c["coq"] and o.get("kind") != "crash" and not any(r[3] == -99 for r in o["r"]):
            for t in byte_terms(c, o):
                bterms.append(t)
                bowner.append(i)
    sizes["byte-level cases"] = len(bcases)
    sizes["byte-level kernel calls"] = sum(len(o.get("r", [])) for o in bobs)
    caps = {}
    for c in bcases:
        for bs in c["bufs"]:
            for m in c["ms"]:
                for egf in (False, True):
                    w = band_width(len(c["ba"]), len(c["bb"]), m, egf)
                    k = "calls with capacity " + ("unused (answer before the buffer)" if w is None else "< 2*width (replaced)" if bs["cap"] < 2 * w
                                                   else "= 2*width" if bs["cap"] == 2 * w else "> 2*width")
                    caps[k] = caps.get(k, 0) + 1
            k = "buffers of length " + ("0" if bs["len"] == 0 else "= capacity" if bs["len"] == bs["cap"] else "in between")
            caps[k] = caps.get(k, 0) + 1
            k = "stale content " + ("zeros" if bs["pat"] == [0] else "all-ones" if bs["pat"] == [M64] else "largest in-band word" if bs["pat"] == [BEST_WORD] else "other patterns")
            caps[k] = caps.get(k, 0) + 1
    # ---- 7. decodeValues and the accessors without a caller (_isout, _lpath) on chosen words
    ws = gen_words(rng, ctx.quick)
    wobs = ctx.vh_robust("c09", [dict(kind="words", ws=ws)], timeout=60)[0]
    _, wterms = eval_words(ctx, ws, wobs, stats)
    bmism = []
    if not os.environ.get("C09_NOCOQ"):
        bad, err = ctx.correspond("bytes", IMPORTS, bterms + wterms, fn="mismatches_sl", shard=150)
        if bad is None:
            broken.append(dict(kind="correspondence", detail=err))
        else:
            bmism = bad
    ctx.cov["model_vs_impl_mismatches_bytes"] = len(bmism)
    if bmism and not ctx.violations:
        k = bmism[0]
        if k < len(bterms):
            c = bcases[bowner[k]]
            first = dict(kind="byte", ba=c["ba"], bb=c["bb"], ms=c["ms"], bufs=c["bufs"])
            impl = dict(r=bobs[bowner[k]].get("r"))
        else:
            first = dict(kind="words", ws=[ws[k - len(bterms)]])
            impl = dict(r=wobs.get("r", [])[k - len(bterms)])
        broken.append(dict(kind="correspondence", name="corr:C09/byte-kernel", first_diverging_case=first, term=(bterms + wterms)[k][:300],
                           implementation=impl, n_diverging=len(bmism)))
    timing["bytes+words+coq"] = round(time.time() - t0, 1)

    # ---- outside the property, recorded for the reader: the D1Or0 shortcut of obitag / obirefidx (bounds 0 and 1) compares bytes,
    #      the LCS kernel compares IUPAC sets: on an ambiguous reference the two paths give different distances
    so = ctx.vh_robust("c09", [dict(a="acgtacgtac", b="acgtncgtac", ms=[1])], timeout=60)[0]
    if so.get("r"):
        ctx.cov["outside_property_shortcut"] = dict(a="acgtacgtac", b="acgtncgtac", bound=1, FastLCSScore=so["r"][0][1:3], D1Or0_verdict=so["d"][0])
    ctx.cov["timing_cumulative_s"] = timing
    ctx.cov["evaluations"] = stats["evals"]
    ctx.cov["distinct_nontrivial"] = len(nontriv) + nontriv_count[0]
    ctx.cov["rule"] = ("a case = (a, b, list of bounds); every bound runs FastLCSScore and FastLCSEGFScore with a fresh and with the shared "
                       "stale buffer, plus D1Or0; every pair is also run mirrored; non-trivial = both sequences have >= 2 symbols and differ; "
                       "distinct = distinct (a, b, bounds); exhaustive part: all ordered pairs over {a,c,g,t} of length <= %d x bounds -1..%d; "
                       "D1Or0-only exhaustive part (counted when it goes beyond the former): all ordered pairs of distinct sequences with >= 2 symbols "
                       "of length <= %d; a call-site run counts as one case" % (n_ex, n_ex + 1, n_d1))
    ctx.cov["distribution"] = dict(sizes=sizes, generator_classes=classes, scratch_buffers=caps, answers=stats["dist"],
                                   coq_terms=len(terms) + len(bterms) + len(wterms))
    ctx.samples = [dict(case=dict(a=c["a"], b=c["b"], ms=c["ms"]), implementation=dict(r=o.get("r"), d=o.get("d")))
                   for c, o in list(zip(ccases, cobs))[:2] + list(zip(rcases, robs))[-2:]]
    if mism and not ctx.violations:
        # the model and the code differ on an observable but the oracle is satisfied there: search harder
        pm = []
        for _ in range(4000 if ctx.quick else 40000):
            a, b = rand_pair(rng, rng.choice([8, 16, 30, 60])) if rng.random() < 0.6 else tandem_pair(rng, rng.choice([8, 16, 30, 60]))
            pm.append((a, b, bounds_for(rng, a, b, dp(a, b))))
        scases = with_sym(pm)
        sobs = ctx.vh_robust("c09", [dict(a=c["a"], b=c["b"], ms=c["ms"]) for c in scases], timeout=1200, one_timeout=30)
        oracle(ctx, scases, sobs, "search", stats)
    if mism and not ctx.violations:
        i = owner[mism[0]]
        broken.append(dict(kind="correspondence", name="corr:C09/kernel", first_diverging_case=dict(a=ccases[i]["a"], b=ccases[i]["b"], ms=ccases[i]["ms"]),
                           term=terms[mism[0]][:300], implementation=dict(r=cobs[i]["r"], d=cobs[i]["d"]), n_diverging=len(mism)))
    elif mism:
        ctx.cov["note"] = "model and implementation diverge on %d terms (violations reported by the direct oracle)" % len(mism)


def replay(ctx, rp):
    if rp.get("kind") == "table-obligation":
        bad = table_failures(dump_tables(ctx))
        print("replay: tables of the current build, symbols %r:" % (rp.get("symbols"),),
              [w for w, x, y in bad if [x, y] == rp.get("symbols")] or "obligations hold", "| failing pairs:", sorted({(x, y) for _, x, y in bad})[:8])
    if rp.get("kind") == "field-overflow":
        c = rp["case"]
        big = c["unit"] * c["repeat"]
        o = ctx.vh_robust("c09", [dict(a=big, b=big, ms=c["ms"])], timeout=180, one_timeout=90)[0]
        print("replay: two identical sequences of %d symbols ->" % len(big), o.get("r"), "expected", (len(big), len(big)))
        return
    if rp.get("kind") == "byte-call" or (rp.get("first_diverging_case") or {}).get("kind") == "byte":
        c = rp.get("case") or rp["first_diverging_case"]
        c = dict(c, cls="replay", coq=True)
        obs = ctx.vh_robust("c09", [dict(kind="byte", ba=c["ba"], bb=c["bb"], ms=c["ms"], bufs=c["bufs"])], timeout=120, one_timeout=60)
        stats = dict(evals=0, dist={})
        n = eval_byte(ctx, [c], obs, stats, "replay")
        fa, fb = fold(c["ba"]), fold(c["bb"])
        print("replay: FastLCSEGFScoreByte on", c["ba"], c["bb"], "(folded %r %r) bounds %s ->" % (fa, fb, c["ms"]), obs[0].get("r"),
              "reference", dp(fa, fb), "egf reference", dp(fa, fb, True), "ORACLE-VIOLATIONS=%d" % n)
        return
    if rp.get("kind") == "words" or (rp.get("first_diverging_case") or {}).get("kind") == "words":
        c = rp.get("case") or rp["first_diverging_case"]
        obs = ctx.vh_robust("c09", [dict(kind="words", ws=c["ws"])], timeout=60)[0]
        stats = dict(evals=0, dist={})
        n, _ = eval_words(ctx, c["ws"], obs, stats)
        print("replay: packed words", c["ws"], "->", obs.get("r"), "expected (score, length, out)", [py_decode(w) for w in c["ws"]], "ORACLE-VIOLATIONS=%d" % n)
        return
    if rp.get("kind") == "call-site-run":
        c = rp["case"]
        case = dict(kind=c["kind"], seqs=c["seqs"])
        if c.get("calls"):
            case["calls"] = c["calls"]
        obs = ctx.vh_robust("c09", [case], timeout=120, one_timeout=60)
        stats = dict(evals=0, dist={})
        n = eval_uses(ctx, [case], obs, stats)
        print("replay: call-site run (%s, %d sequences) -> %d calls, ORACLE-VIOLATIONS=%d" % (c["kind"], len(c["seqs"]), len(obs[0].get("r", [])), n))
        return
    c = rp["case"]
    cases = with_sym([(c["a"], c["b"], c["ms"])])
    for x in cases:
        x["dump"] = True
    obs = ctx.vh_robust("c09", cases, timeout=60, one_timeout=20)
    stats = dict(evals=0, dist={})
    n = oracle(ctx, cases, obs, "replay", stats)
    print("replay:", c, "->", dict(r=obs[0].get("r"), d=obs[0].get("d")), "reference", dp(c["a"], c["b"]), "egf reference", dp(c["a"], c["b"], True),
          "ORACLE-VIOLATIONS=%d" % n)
