"""C09 — LCS and one-difference kernels are exact within their error bound (pkg/obialign)."""
import itertools, os, time

PROPS = ["C09/Props.v"]
META = dict(
    text="Rocq theorems over an executable transcription of pkg/obialign's packed-word banded LCS kernel "
         "(FastLCSEGFScoreByte: two rows of anti-diagonals, uint64 cells, stale scratch buffer as an input), of _samenuc/_iupac "
         "and of D1Or0. Proved for all inputs: the packed word order is the lexicographic order (in band, score, shorter path) and "
         "_incpath/_incscore/_setout act on one field without overflow (C09_pack_order); _samenuc is IUPAC set intersection "
         "(C09_iupac_compat); the full-matrix reference is the length of a longest IUPAC-compatible common subsequence with the "
         "shortest alignment achieving it and is symmetric (C09_ref_is_lcs, C09_ref_symmetric; inductive definitions of common "
         "subsequence and alignment); D1Or0 answers 0 / 1 / -1 exactly, with a position and symbols that reproduce the edit, "
         "symmetrically (C09_d1or0_exact; inductive definition of a single edit). Bounded, by evaluation inside the kernel: the "
         "banded kernel equals the reference within the bound and never gives a spurious within-bound answer for ALL pairs over "
         "{a,c,g,t} of length <= 4 x bounds -1..5 (C09_band_exact_upto_4), and is independent of poisoned reused buffers and "
         "symmetric for length <= 3 (C09_band_buffer_sym_upto_3). On every run the real FastLCSScore, FastLCSEGFScore and D1Or0 run "
         "with fresh and reused scratch buffers on all ordered pairs over {a,c,g,t} up to length 4 (thorough: 6) x all bounds and on "
         "random IUPAC pairs up to 400 bases (length differences -20..20, tandem repeats, rotations) against a full-matrix Python "
         "oracle (exact within the bound, never a spurious within-bound answer, fresh = reused, symmetry, D1Or0 against the "
         "definition), and the Coq model is evaluated by vm_compute on the same small pairs from the same stale buffer words.",
    note="Trusted: Coq kernel + vm_compute; harness and generators; the Python oracle. The band theorem is bounded (name _upto_4): "
         "for longer sequences exactness of the band rests on the comparison of the real code with the oracle on every run. "
         "Beyond the bound the property accepts 'not found' and any beyond-bound pair alike, so the correspondence compares answers "
         "after that projection (Corr.v). End-gap-free mode (FastLCSEGFScore, no caller in the code base) is checked against a "
         "full-matrix oracle with free horizontal moves in the first and last row and is modelled and correspondence-checked, but has "
         "no Coq reference theorem; its third result (end position) is modelled but not compared. Field overflow (sequences of "
         "2^15 symbols and more) is outside the theorems' side conditions.")
TRUSTED = ["field widths of the packed word (wsize = 16): sequences are assumed shorter than 2^15 so that no field overflows "
           "(side condition of the theorems; the code has it implicitly)"]

# IUPAC nucleotide codes as sets of bases (NC-IUB 1984), written independently of the code's table
IUPAC_SETS = dict(a="a", c="c", g="g", t="t", u="t", r="ag", y="ct", s="cg", w="at", k="gt", m="ac",
                  b="cgt", d="agt", h="act", v="acg", n="acgt")
IUPAC = {k: sum({"a": 1, "c": 2, "g": 4, "t": 8}[x] for x in v) for k, v in IUPAC_SETS.items()}
for _c in "efijlopqxz":          # letters that are no nucleotide code: compatible with nothing (not even themselves)
    IUPAC[_c] = 0
ALPHA_IUPAC = "acgtrymkswbdhvnu"
KEY = 1 << 20


def same(x, y):
    """IUPAC compatibility as the property means it (sets of bases intersect); other symbols match only themselves."""
    if x in IUPAC and y in IUPAC:
        return (IUPAC[x] & IUPAC[y]) > 0
    return x == y


def dp(a, b, egf=False):
    """Full-matrix DP: maximum number of compatible matches, then the shortest alignment achieving it.
    egf: horizontal moves (gaps facing the longer sequence's ends) are free in the first and the last row."""
    if len(a) < len(b):
        a, b = b, a
    la, lb = len(a), len(b)
    if egf:
        prev = [0] * (la + 1)
    else:
        prev = [-j for j in range(la + 1)]
    cache = {}
    for i in range(1, lb + 1):
        cb = b[i - 1]
        mrow = cache.get(cb)
        if mrow is None:
            mrow = cache[cb] = [KEY - 1 if same(ca, cb) else -1 for ca in a]
        lc = 0 if (egf and i == lb) else 1
        cur = [-i] + [0] * la
        left = -i
        for j in range(1, la + 1):
            v = prev[j - 1] + mrow[j - 1]
            u = prev[j] - 1
            if u > v:
                v = u
            u = left - lc
            if u > v:
                v = u
            cur[j] = v
            left = v
        prev = cur
    v = prev[la]
    s = (v + KEY - 1) // KEY
    return s, s * KEY - v


def lev(a, b):
    prev = list(range(len(b) + 1))
    for i in range(1, len(a) + 1):
        cur = [i] + [0] * len(b)
        for j in range(1, len(b) + 1):
            cur[j] = min(prev[j] + 1, cur[j - 1] + 1, prev[j - 1] + (a[i - 1] != b[j - 1]))
        prev = cur
    return prev[len(b)]


def dist1(a, b):
    """0 if equal, 1 if the edit distance is exactly one, 2 otherwise (direct definition, linear)."""
    if a == b:
        return 0
    if len(a) == len(b):
        return 1 if sum(x != y for x, y in zip(a, b)) == 1 else 2
    if len(a) > len(b):
        a, b = b, a
    if len(b) - len(a) != 1:
        return 2
    return 1 if any(b[:k] + b[k + 1:] == a for k in range(len(b))) else 2


def check_d1(a, b, d):
    """None if the D1Or0 answer d = [verdict, pos, a1, a2] is what the property demands, else a reason."""
    e = dist1(a, b)
    if len(a) <= 12 and len(b) <= 12:
        assert min(lev(a, b), 2) == e
    v, pos, a1, a2 = d
    if v == -99:
        return "panic"
    if e == 0:
        return None if v == 0 else "identical sequences: verdict %d" % v
    if e == 2:
        return None if v == -1 else "edit distance > 1: verdict %d" % v
    if v != 1:
        return "edit distance 1: verdict %d" % v
    c1, c2 = chr(a1), chr(a2)
    # the kind of edit follows from the lengths ('-' may also be a symbol of the sequences)
    if len(a) == len(b):
        ok = 0 <= pos < len(a) and a[pos] == c1 and b[pos] == c2 and c1 != c2 and a[:pos] + c2 + a[pos + 1:] == b
    elif len(a) > len(b):
        ok = c2 == "-" and 0 <= pos < len(a) and a[pos] == c1 and a[:pos] + a[pos + 1:] == b
    else:
        ok = c1 == "-" and 0 <= pos < len(b) and b[pos] == c2 and a[:pos] + c2 + a[pos:] == b
    return None if ok else "position/symbols (%d,%r,%r) do not reproduce the edit" % (pos, c1, c2)


def check_lcs(ref, m, s, l, extra=0):
    """The LCS clause. ref = (s*, l*) of the full DP; m the bound; (s,l) the answer ((-1,-1) = not found)."""
    rs, rl = ref
    if s == -99:
        return "panic"
    if m == -1 or rl - rs <= m:
        return None if (s, l) == (rs, rl) else "within bound: expected %s got %s" % ((rs, rl), (s, l))
    if (s, l) == (-1, -1):
        return None
    if s < 0 or l < 0:
        return "malformed answer %s" % ((s, l),)
    if l - s <= m:
        return "spurious within-bound answer %s (optimum %s has %d differences > %d)" % ((s, l), (rs, rl), rl - rs, m)
    return None


# ------------------------------------------------------------------ generators
def all_seqs(n, alpha="acgt"):
    for k in range(n + 1):
        for t in itertools.product(alpha, repeat=k):
            yield "".join(t)


def mutate(rng, a, nmut, alpha):
    b = list(a)
    for _ in range(nmut):
        k = rng.random()
        if k < 0.4 and b:
            b[rng.randrange(len(b))] = rng.choice(alpha)
        elif k < 0.7 and b:
            del b[rng.randrange(len(b))]
        else:
            b.insert(rng.randrange(len(b) + 1), rng.choice(alpha))
    return "".join(b)


def tandem_pair(rng, maxlen):
    """A tandem repeat against its own shift: the longest common subsequence lies on a far diagonal (2*shift
    gaps) while the main diagonal has almost as many matches with fewer differences - the pairs on which a band
    that is too narrow gives a spurious within-bound answer."""
    p = rng.choice([1, 2, 2, 3, 4])
    unit = "".join(rng.choice("acgt") for _ in range(p))
    sh = p * rng.choice([1, 1, 2, 3])
    r = max(1, (min(maxlen, rng.choice([6, 10, 16, 30, maxlen])) - sh) // p)
    w = unit * r
    j1 = "".join(rng.choice("acgt") for _ in range(sh))
    j2 = "".join(rng.choice("acgt") for _ in range(sh))
    if rng.random() < 0.5:
        j2 = (unit * sh)[:sh - 1] + rng.choice("acgt")      # continues the repeat but for the last symbol
    a, b = j1 + w, w + j2
    if rng.random() < 0.3:
        b = mutate(rng, b, 1, "acgt")
    return a[:maxlen + 20], b[:maxlen + 20]


def rand_pair(rng, maxlen):
    if rng.random() < 0.15 and maxlen >= 4:
        a, b = tandem_pair(rng, maxlen)
        return (a, b) if rng.random() < 0.5 else (b, a)
    alpha = "acgt" if rng.random() < 0.4 else ("acgt" * 4 + ALPHA_IUPAC)
    if rng.random() < 0.03:
        alpha += "-.*"
    la = rng.choice([0, 1, 2, 3]) if rng.random() < 0.05 else rng.randrange(1, maxlen + 1)
    a = "".join(rng.choice(alpha) for _ in range(la))
    k = rng.random()
    if k < 0.15:
        b = "".join(rng.choice(alpha) for _ in range(max(0, la + rng.randrange(-20, 21))))
    elif k < 0.3:      # rotation / block swap: the optimum needs a far diagonal
        c = rng.randrange(0, la + 1) if rng.random() < 0.4 else min(la, rng.randrange(1, 11))
        b = a[c:] + a[:c]
        b = mutate(rng, b, rng.randrange(0, 4), alpha)
    else:
        b = mutate(rng, a, rng.choice([0, 1, 1, 2, 2, 3, 4, 5, 8, 12, 20, 30]), alpha)
    # length differences -20..20
    d = len(b) - len(a)
    if d > 20:
        b = b[:len(a) + 20]
    if d < -20:
        b = b + a[len(b):len(a) - 20]
    if rng.random() < 0.5:
        a, b = b, a
    return a, b


def bounds_for(rng, a, b, ref, n_extra=3):
    e = ref[1] - ref[0]
    d = abs(len(a) - len(b))
    ms = {-1, 0, 1, e - 1, e, e + 1, d - 1, d, d + 1, (e + 1) // 2, e // 2, 2 * e, e - 2}
    for _ in range(n_extra):
        ms.add(rng.randrange(0, 26))
    return sorted(m for m in ms if m >= -1)


CORPUS = [("", ""), ("a", ""), ("", "a"), ("a", "a"), ("a", "c"), ("ac", "ca"), ("acgt", "tgca"), ("aaaa", "aaaaa"),
          ("acgtacgt", "cgtacgta"), ("n", "a"), ("r", "y"), ("r", "a"), ("acgtn", "acgtr"), ("w", "s"), ("u", "t"),
          ("ggggacgt", "acgtcccc"), ("acacacac", "cacacaca"), ("aaaaaaaac", "caaaaaaaa"), ("a-c", "a-c"), ("a-c", "a.c"),
          ("ab", "b"), ("ba", "b"), ("aab", "ab"), ("aa", "a"), ("abc", "abd"), ("abc", "kbc"), ("abc", "akc"), ("v", "c"), ("v", "t"), ("acvt", "acct"),
          ("acgtacgtacgtacgtacgt", "acgtacgtaacgtacgtacgt"), ("acgtacgtacgtacgtacgt", "tacgtacgtacgtacgtacg")]


CORPUS += [(x, y) for x in ALPHA_IUPAC for y in ALPHA_IUPAC if x < y]      # every pair of IUPAC codes


# ------------------------------------------------------------------ Coq rendering
def nlist(s):
    return "[" + ";".join(str(ord(c)) for c in s) + "]"


def wlist(l):
    return "[" + ";".join(str(x) for x in l) + "]"


IMPORTS = ("From Coq Require Import NArith ZArith List. Import ListNotations. Open Scope N_scope.\n"
           "From OBI.C09 Require Import Model Corr.")


def zt(x):
    return "(%d)%%Z" % x


def used_words(a, b, m, egf, pre):
    """The kernel looks only at the first 2*width words of a scratch buffer whose capacity is at least 2*width and
    replaces a smaller one by zeros: hand the model just that part (the model makes the same case distinction)."""
    la, lb = max(len(a), len(b)), min(len(a), len(b))
    if m == -1:
        m = 2 * la
    delta = la - lb
    if egf:
        m += delta
    if delta > m:
        return []
    extra = m - delta + 1
    width = 2 * (1 + delta + 2 * extra) - 1
    return pre[:2 * width] if len(pre) >= 2 * width else []


def coq_terms(c, o):
    """Terms for one dumped case: per bound the reused-buffer LCS and EGF calls (from the observed stale buffer),
    the fresh ones, and the D1Or0 answer."""
    ts = []
    a, b = nlist(c["a"]), nlist(c["b"])
    for k, r in enumerate(o["r"]):
        m, s, l, s2, l2, es, el, ee, es2, el2, ee2 = r
        pre1 = used_words(c["a"], c["b"], m, False, o["pre"][2 * k])
        pre2 = used_words(c["a"], c["b"], m, True, o["pre"][2 * k + 1])
        ts.append("CL %s %s %s false [] %s %s %s" % (a, b, zt(m), zt(s), zt(l), zt(0)))
        ts.append("CL %s %s %s false %s %s %s %s" % (a, b, zt(m), wlist(pre1), zt(s2), zt(l2), zt(0)))
        ts.append("CL %s %s %s true [] %s %s %s" % (a, b, zt(m), zt(es), zt(el), zt(ee)))
        ts.append("CL %s %s %s true %s %s %s %s" % (a, b, zt(m), wlist(pre2), zt(es2), zt(el2), zt(ee2)))
    d = o["d"]
    ts.append("CD %s %s %s %s %d %d" % (a, b, zt(d[0]), zt(d[1]), d[2], d[3]))
    return ts


# ------------------------------------------------------------------ evaluation
def oracle(ctx, cases, obs, label, stats):
    """Direct oracle on every observation; cases come in (a,b),(b,a) neighbours when c['sym'] is set."""
    nviol = 0

    reported = set()

    def viol(i, what, **kw):
        nonlocal nviol
        if i in reported:
            return
        reported.add(i)
        nviol += 1
        if nviol <= 3:
            ctx.violation("%s_oracle_%d" % (label, i), dict(property="C09", kind="direct-oracle", what=what,
                                                          case=dict(a=cases[i]["a"], b=cases[i]["b"], ms=cases[i]["ms"]),
                                                          implementation=dict(r=obs[i].get("r"), d=obs[i].get("d")), **kw))
    refs = {}
    for i, (c, o) in enumerate(zip(cases, obs)):
        if o.get("kind") == "crash":
            viol(i, "harness crash")
            continue
        a, b = c["a"], c["b"]
        key = (a, b) if len(a) >= len(b) else (b, a)
        ref = refs.get(("l",) + key)
        if ref is None:
            ref = refs[("l",) + key] = dp(a, b)
            refs[("l", key[1], key[0])] = ref
        eref = refs.get(("e", a, b))
        if eref is None:
            eref = refs[("e", a, b)] = dp(a, b, egf=True)
        delta = abs(len(a) - len(b))
        for r in o["r"]:
            m, s, l, s2, l2, es, el, ee, es2, el2, ee2 = r
            stats["evals"] += 4
            if (s, l) != (s2, l2):
                viol(i, "FastLCSScore: fresh buffer %s, reused buffer %s (bound %d)" % ((s, l), (s2, l2), m))
            if (es, el, ee) != (es2, el2, ee2):
                viol(i, "FastLCSEGFScore: fresh buffer %s, reused buffer %s (bound %d)" % ((es, el, ee), (es2, el2, ee2), m))
            w = check_lcs(ref, m, s, l) or check_lcs(ref, m, s2, l2)
            if w:
                viol(i, "FastLCSScore bound %d: %s" % (m, w), expected=dict(lcs=ref[0], alilength=ref[1]))
            w = check_lcs(eref, m, es, el) or check_lcs(eref, m, es2, el2)
            if w:
                viol(i, "FastLCSEGFScore bound %d: %s" % (m, w), expected=dict(lcs=eref[0], alilength=eref[1]))
            k = "within" if (m == -1 or ref[1] - ref[0] <= m) else ("notfound" if s == -1 else "beyond-pair")
            stats["dist"][k] = stats["dist"].get(k, 0) + 1
        w = check_d1(a, b, o["d"])
        stats["evals"] += 1
        stats["dist"]["d1=%d" % o["d"][0]] = stats["dist"].get("d1=%d" % o["d"][0], 0) + 1
        if w:
            viol(i, "D1Or0: " + w, expected=dict(distance_class=dist1(a, b)))
    # symmetry (the partner of case i is c['sym'])
    for i, c in enumerate(cases):
        j = c.get("sym")
        if j is None or j < i or obs[i].get("kind") == "crash" or obs[j].get("kind") == "crash":
            continue
        oi, oj = obs[i], obs[j]
        for ri, rj in zip(oi["r"], oj["r"]):
            if ri[0:5] != rj[0:5]:
                viol(i, "FastLCSScore not symmetric at bound %d: %s vs %s" % (ri[0], ri[1:5], rj[1:5]))
            if len(c["a"]) != len(c["b"]) and ri[5:7] != rj[5:7]:
                viol(i, "FastLCSEGFScore not symmetric at bound %d: %s vs %s" % (ri[0], ri[5:8], rj[5:8]))
        di, dj = oi["d"], oj["d"]
        if di[0] != dj[0] or (di[0] == 1 and (di[1], di[2], di[3]) != (dj[1], dj[3], dj[2])):
            viol(i, "D1Or0 not symmetric: %s vs %s" % (di, dj))
    return nviol


class _Collect:
    """stand-in for vlib.Ctx inside worker processes: collects the violations"""
    def __init__(self):
        self.v = []

    def violation(self, name, obj, no_input=False):
        self.v.append((name, obj))


def exhaustive_chunk(job):
    """All ordered pairs (a, b), (b, a) with a in the chunk, b any sequence over {a,c,g,t} of length <= n and
    a <= b (so that every unordered pair belongs to exactly one chunk), every bound: real code + oracle."""
    import subprocess, json
    vh_bin, chunk, n, ms, k0 = job
    pm = [(a, b, ms) for a in chunk for b in all_seqs(n) if a <= b]
    cases = with_sym(pm)
    inp = "".join(json.dumps(dict(a=c["a"], b=c["b"], ms=c["ms"])) + "\n" for c in cases).encode()
    col = _Collect()
    st = dict(evals=0, dist={})
    try:
        p = subprocess.run([vh_bin, "c09"], input=inp, capture_output=True, timeout=3000)
        obs = [json.loads(l) for l in p.stdout.decode().splitlines() if l.strip()]
        if p.returncode != 0 or len(obs) != len(cases):
            raise RuntimeError("vh rc=%s, %d observations for %d cases: %s" % (p.returncode, len(obs), len(cases), p.stderr.decode()[-300:]))
    except Exception as e:
        col.violation("exhaustive_crash_%d" % k0, dict(property="C09", kind="harness-crash", what=repr(e), case=dict(a=cases[0]["a"], b=cases[0]["b"], ms=ms)))
        return col.v, st, len(cases), 0
    oracle(col, cases, obs, "exhaustive%d" % k0, st)
    return col.v, st, len(cases), sum(1 for c in cases if nontrivial(c))


def with_sym(pairs_ms):
    """[(a, b, ms)] -> cases, each followed by its mirror (b, a, ms) unless a == b."""
    cases = []
    for a, b, ms in pairs_ms:
        if a == b:
            cases.append(dict(a=a, b=b, ms=ms))
        else:
            k = len(cases)
            cases.append(dict(a=a, b=b, ms=ms, sym=k + 1))
            cases.append(dict(a=b, b=a, ms=ms, sym=k))
    return cases


def nontrivial(c):
    return len(c["a"]) >= 2 and len(c["b"]) >= 2 and c["a"] != c["b"]


def run(ctx, broken):
    rng = ctx.rng
    t0 = time.time()
    timing = {}
    stats = dict(evals=0, dist={})
    n_ex = 4 if ctx.quick else 6
    n_rand_big = 40 if ctx.quick else 500
    n_rand_mid = 400 if ctx.quick else 20000
    n_coq = 40 if ctx.quick else 500
    nontriv = set()
    nontriv_count = [0]          # counted inside the exhaustive chunks (distinct by construction)
    sizes = {}

    def account(cases):
        for c in cases:
            if nontrivial(c):
                nontriv.add((c["a"], c["b"], tuple(c["ms"])))
            k = "len<=%d" % (4 if max(len(c["a"]), len(c["b"])) <= 4 else 8 if max(len(c["a"]), len(c["b"])) <= 8 else
                             50 if max(len(c["a"]), len(c["b"])) <= 50 else 400)
            sizes[k] = sizes.get(k, 0) + 1

    # ---- 1. corpus + small dumped cases: oracle AND correspondence with the Coq model
    pm = []
    for a, b in CORPUS:
        pm.append((a, b, bounds_for(rng, a, b, dp(a, b), 1) if len(a) + len(b) > 2 else [0]))
    for _ in range(n_coq):
        a, b = rand_pair(rng, rng.choice([4, 8, 12]))
        ref = dp(a, b)
        ms = bounds_for(rng, a, b, ref, 1)
        if len(ms) > 3:
            ms = sorted(rng.sample(ms, 3))
        pm.append((a, b, ms))
    ccases = with_sym(pm)
    for c in ccases:
        c["dump"] = True
    cobs = ctx.vh_robust("c09", ccases, timeout=300, one_timeout=20)
    oracle(ctx, ccases, cobs, "small", stats)
    account(ccases)
    terms, owner = [], []
    for i, (c, o) in enumerate(zip(ccases, cobs)):
        if o.get("kind") == "crash" or any(r[1] == -99 or r[3] == -99 or r[5] == -99 or r[8] == -99 for r in o["r"]) or o["d"][0] == -99:
            continue
        if any(len(p) > 4000 for p in o.get("pre", [])):
            continue
        for t in coq_terms(c, o):
            terms.append(t)
            owner.append(i)
    mism = []
    if not os.environ.get("C09_NOCOQ"):
        bad, err = ctx.correspond("small", IMPORTS, terms, fn="mismatches_sl", shard=120)
        if bad is None:
            broken.append(dict(kind="correspondence", detail=err))
        else:
            mism = bad
    ctx.cov["model_vs_impl_mismatches"] = len(mism)
    timing["small+coq"] = round(time.time() - t0, 1)

    # ---- 2. exhaustive small pairs over {a,c,g,t}: all ordered pairs, bounds -1..n+1 (chunks in parallel processes)
    seqs = list(all_seqs(n_ex))
    ms = list(range(-1, n_ex + 2))
    per = max(1, len(seqs) // (1 if ctx.quick else 512))
    jobs = [(ctx.vh_bin, seqs[k:k + per], n_ex, ms, k) for k in range(0, len(seqs), per)]
    if len(jobs) == 1:
        results = [exhaustive_chunk(jobs[0])]
    else:
        import multiprocessing
        with multiprocessing.Pool(min(8, os.cpu_count() or 2)) as pool:
            results = pool.map(exhaustive_chunk, jobs, chunksize=1)
    timing["exhaustive_run+oracle"] = round(time.time() - t0, 1)
    n_ex_cases = 0
    for viols, st, ncases, ntriv in results:
        for name, obj in viols[:max(0, 3 - len(ctx.violations))]:
            ctx.violation(name, obj)
        stats["evals"] += st["evals"]
        for k, v in st["dist"].items():
            stats["dist"][k] = stats["dist"].get(k, 0) + v
        n_ex_cases += ncases
        n_nontriv_ex = ntriv
        sizes["exhaustive<=%d" % n_ex] = sizes.get("exhaustive<=%d" % n_ex, 0) + ncases
        nontriv_count[0] += ntriv

    # ---- 3. random pairs with IUPAC codes: mid-size (<= 60) and up to 400 bases
    pm = []
    for _ in range(n_rand_mid):
        a, b = rand_pair(rng, 60)
        pm.append((a, b, bounds_for(rng, a, b, dp(a, b))))
    for _ in range(n_rand_big):
        a, b = rand_pair(rng, 400)
        pm.append((a, b, bounds_for(rng, a, b, dp(a, b))))
    rcases = with_sym(pm)
    robs = ctx.vh_robust("c09", [dict(a=c["a"], b=c["b"], ms=c["ms"]) for c in rcases], timeout=1200, one_timeout=30)
    oracle(ctx, rcases, robs, "random", stats)
    account(rcases)

    timing["random"] = round(time.time() - t0, 1)
    ctx.cov["timing_cumulative_s"] = timing
    ctx.cov["evaluations"] = stats["evals"]
    ctx.cov["distinct_nontrivial"] = len(nontriv) + nontriv_count[0]
    ctx.cov["rule"] = ("a case = (a, b, list of bounds); every bound runs FastLCSScore and FastLCSEGFScore with a fresh and with the shared "
                       "stale buffer, plus D1Or0; every pair is also run mirrored; non-trivial = both sequences have >= 2 symbols and differ; "
                       "distinct = distinct (a, b, bounds); exhaustive part: all ordered pairs over {a,c,g,t} of length <= %d x bounds -1..%d" % (n_ex, n_ex + 1))
    ctx.cov["distribution"] = dict(sizes=sizes, answers=stats["dist"], coq_terms=len(terms))
    ctx.samples = [dict(case=dict(a=c["a"], b=c["b"], ms=c["ms"]), implementation=dict(r=o.get("r"), d=o.get("d")))
                   for c, o in list(zip(ccases, cobs))[:2] + list(zip(rcases, robs))[-2:]]
    if mism and not ctx.violations:
        # the model and the code differ on an observable but the oracle is satisfied there: search harder
        pm = []
        for _ in range(4000 if ctx.quick else 40000):
            a, b = rand_pair(rng, rng.choice([8, 16, 30, 60])) if rng.random() < 0.6 else tandem_pair(rng, rng.choice([8, 16, 30, 60]))
            pm.append((a, b, bounds_for(rng, a, b, dp(a, b))))
        scases = with_sym(pm)
        sobs = ctx.vh_robust("c09", [dict(a=c["a"], b=c["b"], ms=c["ms"]) for c in scases], timeout=1200, one_timeout=30)
        oracle(ctx, scases, sobs, "search", stats)
    if mism and not ctx.violations:
        i = owner[mism[0]]
        broken.append(dict(kind="correspondence", name="corr:C09/kernel", first_diverging_case=dict(a=ccases[i]["a"], b=ccases[i]["b"], ms=ccases[i]["ms"]),
                           term=terms[mism[0]][:300], implementation=dict(r=cobs[i]["r"], d=cobs[i]["d"]), n_diverging=len(mism)))
    elif mism:
        ctx.cov["note"] = "model and implementation diverge on %d terms (violations reported by the direct oracle)" % len(mism)


def replay(ctx, rp):
    c = rp["case"]
    cases = with_sym([(c["a"], c["b"], c["ms"])])
    for x in cases:
        x["dump"] = True
    obs = ctx.vh_robust("c09", cases, timeout=60, one_timeout=20)
    stats = dict(evals=0, dist={})
    n = oracle(ctx, cases, obs, "replay", stats)
    print("replay:", c, "->", dict(r=obs[0].get("r"), d=obs[0].get("d")), "reference", dp(c["a"], c["b"]), "egf reference", dp(c["a"], c["b"], True),
          "ORACLE-VIOLATIONS=%d" % n)
