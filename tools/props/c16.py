"""C16 — obigrep, obiannotate, obidistribute act on each record as their options say.

The BUILT commands (from the working tree, -tags verif) are driven on generated FASTA/FASTQ inputs;
the direct oracle is a reference interpreter of the options written here (independent of the Coq
model); the correspondence renders the option record + the records as Gallina terms and evaluates
the model (impl_pred / impl_annot / distribute) by vm_compute."""
import json, os, re, subprocess, shutil, itertools, hashlib
from concurrent.futures import ThreadPoolExecutor

PROPS = ["C16/Props.v"]
META = dict(
    text="Rocq theorems over a transcription of the obigrep predicate builders (guards, 2e9 sentinels, nil-propagation, -v for EVERY option set, six paired modes, "
         "--approx-pattern with its error budget / strand / indel plumbing), the obiannotate worker chain (ChainWorkers with nil handling, every edit once in the code's order: "
         "clear, set-id, delete, keep, rename incl. the record fields id/sequence, taxon-at-rank, path, rank, scientific name, lca, length, -S, aho-corasick, cut, --pattern; "
         "selection options edit the selected records and pass the others through; untouched attributes/sequence/id unchanged; --cut as a function of the record alone) and the "
         "Distribute/DivideOn/FilterOn+Rebatch loops both at record level and at BATCH level for every batch size and partition (every record in exactly one output chosen by its class "
         "alone; kept/discarded = the selection and exactly its complement; mates kept together at the same rank). On every run the BUILT obigrep/obiannotate/obidistribute/obimultiplex "
         "are driven on generated FASTA/FASTQ inputs with each option alone, every pair, random larger subsets, repeated options (last wins / accumulate), options in shuffled order, "
         "values at the guards (0, 1, 2, 2e9-1, 2e9, 2e9+1), string-typed counts, the six paired modes, worker x batch grids and repeated tiny runs; every output file is compared with a "
         "Python reference interpreter of the options (direct oracle) and with the Coq model evaluated by vm_compute on the same option record and records (correspondence). "
         "Round 3 (coverage driven): --cut with every sign of the two bounds (theorem C16_cut_exact_signed, after the fix of the negative start); edits that fail on a record "
         "(-S / --set-identifier reading a missing attribute: that record is discarded, the others edited; with selection the unselected pass through); the functions of the "
         "expression language (len, contains, ismap, printf, gsub, subspc, int, numeric, bool, ifelse, gc, gcskew, composition, replace) in -p and -S; -r KEY (clade named by the "
         "record's own attribute); boolean / float attribute values; records already carrying the tools' own annotations; the ways records enter and leave the commands (stdin, "
         "several files with and without --no-order, gzip input, -o, -Z, --force-one-cpu) judged by the same oracle; obidistribute --fasta-output / --fastq-output / -O / "
         "--output-json-header / -Z / --append over several runs (theorem C16_distribute_append); obimultiplex without -u and with --keep-errors (theorem "
         "C16_mux_without_unidentified) and on reads that carry the verdict of an earlier run; arguments that cannot be understood (bad regular expression / expression / "
         "paired mode / --cut, missing identifier or taxonomy file, unwritable discarded file, directory name taken by a file) must stop the command; goroutine stress of the "
         "annotation workers (8 workers, batches of 1-3 records, long input; and CLIAnnotationPipeline run IN PROCESS by the harness on 6 000-20 000 synthetic records with "
         "4-16 workers, every output record compared with the reference interpreter) and DivideOn with unequal numbers of full batches on the two sides.",
    note="Trusted/abstract: Go regexp, gval, the apat matcher (IsMatching / BestMatch / ReverseComplement), the taxonomy edits (SetTaxonAtRank, SetPath, SetTaxonomicRank, "
         "SetScientificName, AddLCAWorker) and the Aho-Corasick counter are Section variables of the model; the correspondence instantiates them with a literal/character-class matcher, "
         "a 16-constructor expression subset, an IUPAC Hamming-window / Sellers matcher, a leftmost-best Hamming BestMatch, the 11-node taxonomy (LCA at threshold 1.0) and an "
         "overlapping-occurrence counter, each also checked against the real code by the Python oracle. --pattern with --allows-indels: location chosen by the matcher is not predicted "
         "(presence, strand preference and slot consistency are). readers/writers/file naming (C01-C04); obimultiplex: the barcode worker is not modelled (C12); the reads as it leaves them (observed on the output records, projected on obimultiplex_error) are routed by the model's DivideOn / FilterOn loops and compared with the two files in file order (round 3). Guards stated in the theorems: "
         "records of length >= 1, 1 <= count, both below the 2e9 sentinels; C16_annotate_untouched / _seq_id_untouched are stated for option sets without external edits (no_ext) and, for "
         "the sequence/id, without rename/-S aimed at the fields id/sequence; C16_annotate_untouched_ext covers the option sets WITH external edits under explicit frame hypotheses "
         "(taxonomy edits and the Aho-Corasick counter write only slots of ext_key and keep id/sequence; the four --pattern slots are computed in the model); rename/-S maps with independent keys (Go map order). impl_worker is written as the fold of ChainWorkers over "
         "the 15 optional steps (a step not requested chains the nil worker, which ChainWorkers ignores). Quality strings are not in the model (rename from `qualities` on FASTQ: oracle only). "
         "Observations outside the statement (evidence key observations): --add-lca-in panics on a record without taxid and creates the merged_taxid summary slot; the scientific-name "
         "slot is spelt `scienctific_name`; a string-typed count reads as 1; the help of -D / -I says case insensitive, the code (and OBITools 2) is case sensitive; "
         "seq_length is written before --cut shortens the sequence (the chain order is the code's); --cut=0:N, --cut=N:0 and --aho-corasick MISSING_FILE are accepted and ignored. "
         "Round 3, expression functions gsub / replace / gc / gcskew / composition / numeric / bool and the file-format variants of obidistribute are judged by the oracle only "
         "(no floats / gzip in the model). Known finding gcskew-nan (NaN attribute -> the record is written without any attribute). "
         "Not exercised (anchored code no process of the check executes), because no command of this property can reach it: SequencePredicate.PredicateOnPaired, "
         "SequencePredicate.Xor, NilSeqWorker (no caller in pkg/ or cmd/); SequencePredicate.Or with a nil side (IsSubCladeOf never returns nil); the breakOnError=true branches of "
         "SeqToSliceWorker / SeqToSliceConditionalWorker / CutSequenceWorker and their output-growth branches (every obiannotate worker returns at most one record, breakOnError is "
         "false on every call path); ChainWorkers with a nil `next` or a nil sequence; the from=0,to=0 identity of CutSequenceWorker (CLIHasCut wants both bounds non-zero); the "
         "apat error paths of MatchPatternWorker (pattern already compiled) and its dead `start < 0` clamp; the getters CLIMin/MaxSequenceLength, CLIMin/MaxSequenceCount, "
         "CLIRequiredRanks (no caller); the statement after log.Fatalf in CLIPairedReadMode; IBioSequence.Concat / Pool / FilterEmpty / Consume / Count / FilterAnd / Load / "
         "CompleteFileIterator / Lock-Unlock / IsNil / BatchSize / SetBatchSize, BioSequenceBatch.UnPair, BioSequence(Slice).UnPair, AnnotationClassifier, "
         "PredicateClassifier, SequenceClassifier and the Reset / Clone closures of every classifier (used by obiuniq / obiclean / obichunk / the readers: properties C03, C05, "
         "C06, not by obigrep / obiannotate / obidistribute / obimultiplex; the lead `AnnotationClassifier reset keeps maxcode` concerns obichunk.ISequenceSubChunk only); "
         "IDistribute.Outputs / WriterDispatcher failure branches (unknown code, undecodable key, writer error) and the open-file failure of the paired discarded file; "
         "skipEmptyBatches on a paired stream. ToBeKeptAttributesWorker ignores its argument and reads the global _keepOnly: same list on every call path, not observable.")
TRUSTED = ["Go regexp, gval evaluation, obiapat matcher (IsMatching, BestMatch, ReverseComplement), obitax edits (SetTaxonAtRank, SetPath, SetTaxonomicRank, SetScientificName, AddLCAWorker) and the Aho-Corasick counter are Section variables (re_match, eval_bool, eval_val, approx_match, apat_rc, best_match, at_rank, set_path, set_trank, set_sciname, set_lca, aho_edit) of the model",
           "concrete instances used by the correspondence: literal/'.'/class/^/$ regexps, 16-constructor expressions, IUPAC Hamming-window and Sellers matchers, leftmost-best BestMatch without indels, 11-node taxonomy with LCA at threshold 1.0",
           "the batch-level model takes the input batches in order (SortBatches) and one goroutine per Distribute/DivideOn/Rebatch loop; FilterOn workers are modelled as a per-batch filter that keeps the batch order number"]

SENT = 2000000000
MAX_VIOL = 8
KNOWN_TEXT = {      # round 2: nil-predicate-shortcut and fastq-written-as-fasta are repaired (status fixed): those oracle keys only label the violation
    "gcskew-nan": "obiannotate -S skew=gcskew(sequence) on a sequence without g and c: the value is NaN, the JSON title-line writer cannot encode it "
                  "and the record is written without ANY of its attributes (witness: {k:abc, n:3} ttaatt)"}
CMDS = ["obigrep", "obiannotate", "obidistribute", "obimultiplex"]
MODES = ["forward", "reverse", "and", "or", "andnot", "xor"]

# ------------------------------------------------------------------ data sets

TAX_NODES = [(1, 1, "no rank"), (10, 1, "kingdom"), (11, 1, "kingdom"), (20, 10, "family"), (21, 11, "family"), (30, 20, "genus"),
             (31, 21, "genus"), (40, 30, "species"), (41, 30, "species"), (42, 31, "species"), (50, 20, "species")]      # = Model.tax_nodes
TAX_PARENT = {t: (p, rk) for t, p, rk in TAX_NODES}
TAX_RANKS = ["kingdom", "family", "genus", "species", "no rank"]
TAXDIR = [None]


def write_taxdump(d):
    os.makedirs(d, exist_ok=True)
    open(os.path.join(d, "nodes.dmp"), "w").write("".join("%d\t|\t%d\t|\t%s\t|\t\t|\t0\t|\t1\t|\t1\t|\t1\t|\t0\t|\t1\t|\t1\t|\t0\t|\t\t|\n" % n for n in TAX_NODES))
    open(os.path.join(d, "names.dmp"), "w").write("".join("%d\t|\ttaxon%d\t|\t\t|\tscientific name\t|\n" % (n[0], n[0]) for n in TAX_NODES))
    open(os.path.join(d, "merged.dmp"), "w").write("")
    open(os.path.join(d, "delnodes.dmp"), "w").write("")


def tax_path(x):
    out = []
    while True:
        p, rk = TAX_PARENT[x]
        out.append((x, rk))
        if p == x:
            return out
        x = p


def rec_taxid(r):
    return r["attrs"].get("taxid", 1)


WORDS = ["abc", "xbz", "abd", "AbC", "a1", "b22", "foo", "foobar", "bar", "ab", "zz9"]
DEFS = ["", "", "def one", "second", "foo bar", "a sample of soil", "Abc", "x"]
SKEYS = ["k", "tag", "sample"]
XKEYS = ["flag", "score"]         # boolean / floating point attribute values (fmt.Sprint: true, false, 1.5)
IKEYS = ["n", "x"]


def gen_dataset(rng, n, fastq=False, prefix="s", with_count=True, all_taxid=False):
    recs = []
    lens = [1, 2, 3, 5, 8, 9, 10, 11, 20, 59, 60, 61]
    for i in range(n):
        l = rng.choice(lens) if rng.random() < 0.6 else rng.randrange(1, 45)
        seq = "".join(rng.choice("acgt") for _ in range(l))
        if rng.random() < 0.15:
            seq = rng.choice("acgt") * l
        attrs = {}
        rid_suffix = ""
        if with_count and rng.random() < 0.6:
            attrs["count"] = rng.choice([1, 1, 2, 3, 5, 6, 7, 10, 100])
            if rng.random() < 0.12:
                attrs["count"] = str(attrs["count"])       # string-typed count: BioSequence.Count() reads it as 1
        for k in SKEYS:
            if rng.random() < 0.5:
                attrs[k] = rng.choice(WORDS)
        for k in IKEYS:
            if rng.random() < 0.5:
                attrs[k] = rng.choice([0, 1, 3, 7, 12, 22, 100])
        if all_taxid or rng.random() < 0.6:
            attrs["taxid"] = rng.choice([t for t, _, _ in TAX_NODES])
        if all_taxid and rng.random() < 0.6:
            t = rng.choice([t for t, _, _ in TAX_NODES])
            attrs["parent"] = rng.choice([t, t, str(t), "zz", 999])      # the clade of -r parent: int, decimal string, junk, unknown taxid
        if rng.random() < 0.25:
            attrs["flag"] = rng.choice([True, False])
        if rng.random() < 0.25:
            attrs["score"] = rng.choice([0.5, 1.5, 2.25, 10.75])
        if rng.random() < 0.15:
            # the record went through the tools before: it already carries their annotations
            attrs.update(rng.choice([{"seq_length": 7}, {"pattern": "acgt", "pattern_match": "acgt", "pattern_error": 0, "pattern_location": "1..4"},
                                     {"aho_corasick": 3, "aho_corasick_Fwd": 1, "aho_corasick_Rev": 2}, {"family_taxid": 20, "family_name": "taxon20"},
                                     {"taxonomic_rank": "genus", "scienctific_name": "old name"}]))
            if rng.random() < 0.5:
                rid_suffix = "_sub[2..5]"
        if all_taxid and rng.random() < 0.3:
            attrs["merged_taxid"] = {str(t): rng.choice([1, 1, 2, 5]) for t in rng.sample([t for t, _, _ in TAX_NODES], rng.choice([1, 2, 3]))}
        d = rng.choice(DEFS)
        if d:
            attrs["definition"] = d
        rid = "%s%s_%03d%s" % (prefix, rng.choice(["A", "B", "ab", "x1"]), i, rid_suffix)
        r = dict(id=rid, attrs=attrs, seq=seq)
        if fastq:
            r["qual"] = "".join(chr(33 + rng.randrange(2, 40)) for _ in range(l))
        recs.append(r)
    return recs


def fmt_input(recs):
    out = []
    for r in recs:
        a = {k: v for k, v in r["attrs"].items() if k != "definition"}
        h = r["id"]
        if a:
            h += " " + json.dumps(a, separators=(",", ":"))
        if r["attrs"].get("definition"):
            h += " " + r["attrs"]["definition"]
        if "qual" in r:
            out.append("@%s\n%s\n+\n%s\n" % (h, r["seq"], r["qual"]))
        else:
            out.append(">%s\n%s\n" % (h, r["seq"]))
    return "".join(out)


def canon_val(v):
    if isinstance(v, bool):
        return v
    if isinstance(v, float) and v == v and abs(v) != float("inf") and v == int(v):
        return int(v)
    return v


def parse_output(text, obi=False):
    """FASTA/FASTQ with JSON headers -> list of records (id, attrs, seq[, qual]).
    obi=True: OBI headers (`key=value; key=value;  definition`), flat values only, every value kept as the string written."""
    recs = []
    lines = text.split("\n")
    i = 0
    dec = json.JSONDecoder()

    def header(h):
        h = h.rstrip("\r")
        parts = h.split(" ", 1)
        rid = parts[0]
        attrs = {}
        rest = parts[1].strip() if len(parts) > 1 else ""
        if obi:
            while True:
                m = re.match(r"([A-Za-z_][A-Za-z0-9_]*)=([^;]*);\s*", rest)
                if not m:
                    break
                attrs[m.group(1)] = m.group(2)
                rest = rest[m.end():]
            if rest.strip():
                attrs["definition"] = rest.strip()
            return rid, attrs
        if rest.startswith("{"):
            obj, end = dec.raw_decode(rest)
            attrs = {k: canon_val(v) for k, v in obj.items()}
            rest = rest[end:].strip()
        if rest:
            attrs["definition"] = rest
        return rid, attrs
    while i < len(lines):
        l = lines[i]
        if l.startswith(">"):
            rid, attrs = header(l[1:])
            i += 1
            s = []
            while i < len(lines) and not lines[i].startswith(">"):
                s.append(lines[i].strip())
                i += 1
            recs.append(dict(id=rid, attrs=attrs, seq="".join(s)))
        elif l.startswith("@"):
            rid, attrs = header(l[1:])
            recs.append(dict(id=rid, attrs=attrs, seq=lines[i + 1].strip(), qual=lines[i + 3].rstrip("\n")))
            i += 4
        else:
            i += 1
    return recs


# ------------------------------------------------------------------ pattern / expression sub-languages

SEQ_PATS = ["acg", "^a", "t$", "[ac]g", "a.g", "ACG", "tttt", "^[ct]", "g[acgt]t", "aa", "^acgt", "c$"]
ID_PATS = ["A_0", "^s", "1$", "[AB]_", "x1_.1", "_00", "ab", "^sA", "0[0-4]$"]
DEF_PATS = ["foo", "^def", "one$", "a s", "[Aa]bc", "o.b", "^$", "x", "soil$"]
VAL_PATS = ["ab", "^a", "c$", "[0-9]", "^foo$", "b.", "^1", "2$", "^7$", "A", "o"]


def parse_pat(p):
    """literal / '.' / [class] / ^ / $ subset -> (start, atoms, end); atoms: ('l',c) ('c',chars) ('.',)"""
    start = p.startswith("^")
    if start:
        p = p[1:]
    end = p.endswith("$")
    if end:
        p = p[:-1]
    atoms, i = [], 0
    while i < len(p):
        c = p[i]
        if c == "[":
            j = p.index("]", i)
            body = p[i + 1:j]
            chars = []
            k = 0
            while k < len(body):
                if k + 2 < len(body) and body[k + 1] == "-":
                    chars += [chr(x) for x in range(ord(body[k]), ord(body[k + 2]) + 1)]
                    k += 3
                else:
                    chars.append(body[k])
                    k += 1
            atoms.append(("c", "".join(chars)))
            i = j + 1
        elif c == ".":
            atoms.append((".",))
            i += 1
        else:
            atoms.append(("l", c))
            i += 1
    return start, atoms, end


def pexpr_src(e):
    k = e[0]
    if k == "true":
        return "true"
    if k == "false":
        return "false"
    if k == "lenge":
        return "sequence.Len() >= %d" % e[1]
    if k == "lenle":
        return "sequence.Len() <= %d" % e[1]
    if k == "counteq":
        return "sequence.Count() == %d" % e[1]
    if k == "ideq":
        return 'sequence.Id() == "%s"' % e[1]
    if k == "has":
        return 'contains(annotations,"%s")' % e[1]
    if k == "and":
        return "(%s) && (%s)" % (pexpr_src(e[1]), pexpr_src(e[2]))
    if k == "or":
        return "(%s) || (%s)" % (pexpr_src(e[1]), pexpr_src(e[2]))
    if k == "not":
        return "!(%s)" % pexpr_src(e[1])
    # functions of the embedded language (pkg/obiseq/language.go)
    if k == "nattrge":
        return "len(annotations) >= %d" % e[1]
    if k == "ismap":
        return 'contains(annotations,"%s") && ismap(annotations.%s)' % (e[1], e[1])
    if k == "attrgt":
        return 'contains(annotations,"%s") && annotations.%s > %d' % (e[1], e[1], e[2])
    if k == "iflen":
        return "ifelse(sequence.Len() > %d, true, false)" % e[1]
    if k == "gcge":
        return "gc(sequence) >= %s" % e[1]
    if k == "notin":
        return '!contains(sequence.Id(), "%s")' % e[1]
    raise ValueError(e)


def rec_count(r):
    """BioSequence.Count(): the integer attribute `count`; 1 when absent or not an integer (string-typed counts)."""
    c = r["attrs"].get("count", 1)
    return c if isinstance(c, int) and not isinstance(c, bool) else 1


def pexpr_eval(e, r):
    k = e[0]
    if k == "true":
        return True
    if k == "false":
        return False
    if k == "lenge":
        return len(r["seq"]) >= e[1]
    if k == "lenle":
        return len(r["seq"]) <= e[1]
    if k == "counteq":
        return rec_count(r) == e[1]
    if k == "ideq":
        return r["id"] == e[1]
    if k == "has":
        return e[1] in r["attrs"]
    if k == "and":
        return pexpr_eval(e[1], r) and pexpr_eval(e[2], r)
    if k == "or":
        return pexpr_eval(e[1], r) or pexpr_eval(e[2], r)
    if k == "not":
        return not pexpr_eval(e[1], r)
    if k == "nattrge":
        return len(r["attrs"]) >= e[1]
    if k == "ismap":
        return isinstance(r["attrs"].get(e[1]), dict)
    if k == "attrgt":
        v = r["attrs"].get(e[1])
        return isinstance(v, int) and not isinstance(v, bool) and v > e[2]
    if k == "iflen":
        return len(r["seq"]) > e[1]
    if k == "gcge":
        return gc_ref(r["seq"]) >= float(e[1])
    if k == "notin":
        return True             # contains() of something that is not a map is false
    raise ValueError(e)


def gc_ref(seq):
    return (seq.count("g") + seq.count("c")) / len(seq)


def pexpr_float(e):
    """does the expression use floating point (gc): judged by the oracle only, the Coq model has no floats"""
    return e[0] == "gcge" or any(isinstance(x, tuple) and pexpr_float(x) for x in e[1:])


def gen_pexpr(rng, ds, depth=1):
    k = rng.choice(["lenge", "lenle", "counteq", "ideq", "has", "true", "false", "nattrge", "ismap", "attrgt", "iflen", "gcge", "notin"] + (["and", "or", "not"] * 3 if depth else []))
    if k == "notin":
        return (k, rng.choice(["s", "A", "_"]))
    if k == "nattrge":
        return (k, len(rng.choice(ds)["attrs"]) + rng.choice([0, 0, 1]))
    if k == "ismap":
        return (k, rng.choice(["merged_taxid", "k", "n", "nokey"]))
    if k == "attrgt":
        return (k, rng.choice(IKEYS), rng.choice([0, 1, 3, 7, 12]))
    if k == "iflen":
        return (k, len(rng.choice(ds)["seq"]) + rng.choice([-1, 0]))
    if k == "gcge":
        return (k, rng.choice(["0.25", "0.5", "0.75", "1"]))
    if k in ("lenge", "lenle"):
        return (k, len(rng.choice(ds)["seq"]) + rng.choice([-1, 0, 1]))
    if k == "counteq":
        return (k, rec_count(rng.choice(ds)))
    if k == "ideq":
        return (k, rng.choice(ds)["id"])
    if k == "has":
        return (k, rng.choice(SKEYS + IKEYS + ["count", "definition", "nokey"]))
    if k in ("and", "or"):
        return (k, gen_pexpr(rng, ds, 0), gen_pexpr(rng, ds, 0))
    if k == "not":
        return (k, gen_pexpr(rng, ds, 0))
    return (k,)


def vexpr_src(e):
    k = e[0]
    if k == "int":
        return "%d" % e[1]
    if k == "str":
        return '"%s"' % e[1]
    if k == "lenplus":
        return "sequence.Len()+%d" % e[1]
    if k == "counttimes":
        return "sequence.Count()*%d" % e[1]
    if k == "id":
        return "sequence.Id()"
    if k == "idsuffix":
        return 'sequence.Id()+"%s"' % e[1]
    if k == "attr":
        return "annotations.%s" % e[1]
    if k == "iflen":
        return 'ifelse(sequence.Len() > %d, "%s", "%s")' % (e[1], e[2], e[3])
    if k == "printf":
        return 'printf("%s_%d", sequence.Id(), sequence.Len())'
    if k == "halflen":
        return "int(sequence.Len()/2)"
    if k == "gsubid":
        return 'gsub(sequence.Id(), "%s", "%s")' % (e[1], e[2])
    if k == "replseq":
        return 'replace(sequence.String(), "%s", "%s")' % (e[1], e[2])
    if k == "subspc":
        return 'subspc("%s")' % e[1]
    if k == "gc":
        return "gc(sequence)"
    if k == "gcskew":
        return "gcskew(sequence)"
    if k == "comp":
        return "composition(sequence)"
    if k == "numlen":
        return "numeric(sequence.Len())+0.5"
    if k == "boolcnt":
        return "bool(sequence.Count()-1)"
    raise ValueError(e)


class EvalError(Exception):
    """the expression cannot be evaluated on the record (gval error): the edit fails, the record is discarded with a warning"""


def vexpr_eval(e, r):
    k = e[0]
    if k in ("int", "str"):
        return e[1]
    if k == "lenplus":
        return len(r["seq"]) + e[1]
    if k == "counttimes":
        return rec_count(r) * e[1]
    if k == "id":
        return r["id"]
    if k == "idsuffix":
        return r["id"] + e[1]
    if k == "attr":
        if e[1] not in r["attrs"]:
            raise EvalError("unknown parameter annotations.%s" % e[1])
        return r["attrs"][e[1]]
    if k == "iflen":
        return e[2] if len(r["seq"]) > e[1] else e[3]
    if k == "printf":
        return "%s_%d" % (r["id"], len(r["seq"]))
    if k == "halflen":
        return len(r["seq"]) // 2
    if k == "gsubid":
        return r["id"].replace(e[1], e[2])
    if k == "replseq":
        return r["seq"].replace(e[1], e[2])
    if k == "subspc":
        return e[1].replace(" ", "_")
    if k == "gc":
        return canon_val(gc_ref(r["seq"]))
    if k == "gcskew":
        g, c = r["seq"].count("g"), r["seq"].count("c")
        return canon_val((g - c) / (g + c)) if g + c else float("nan")
    if k == "numlen":
        return len(r["seq"]) + 0.5
    if k == "boolcnt":
        return rec_count(r) != 1
    if k == "comp":
        return dict([(x, r["seq"].count(x)) for x in "acgt"] + [("o", sum(1 for x in r["seq"] if x not in "acgt"))])
    raise ValueError(e)


VEXPR_ORACLE_ONLY = ("gsubid", "replseq", "gc", "gcskew", "comp", "numlen", "boolcnt")     # no counterpart in the Coq expression instance


def gen_vexpr(rng, strings_only=False):
    k = rng.choice(["str", "id", "idsuffix", "printf", "gsubid", "attr"] if strings_only else
                   ["int", "str", "lenplus", "counttimes", "id", "idsuffix", "attr", "attr", "iflen", "printf", "halflen", "gsubid", "replseq", "subspc", "gc", "comp", "numlen", "boolcnt"])
    if k == "attr":
        return (k, rng.choice(SKEYS if strings_only else SKEYS + IKEYS))     # fails on the records that lack the attribute
    if k == "iflen":
        return (k, rng.choice([1, 5, 9, 10, 20]), rng.choice(WORDS), rng.choice(WORDS))
    if k == "gsubid":
        return (k, rng.choice(["_", "A", "s", "0"]), rng.choice(["-", "", "xx"]))
    if k == "replseq":
        return (k, rng.choice(["a", "ac", "t"]), rng.choice(["x", "", "nn"]))
    if k == "subspc":
        return (k, rng.choice(["a b c", "nospace", " x "]))
    if k == "int":
        return (k, rng.choice([0, 1, 2, 42, 1000]))
    if k == "str":
        return (k, rng.choice(WORDS))
    if k in ("lenplus", "counttimes"):
        return (k, rng.choice([0, 1, 2, 10]))
    if k == "idsuffix":
        return (k, rng.choice(["_x", "y", "_2"]))
    return (k,)


# ------------------------------------------------------------------ approximate patterns (--approx-pattern / --pattern)

IUPAC = {'a': 'a', 'c': 'c', 'g': 'g', 't': 't', 'r': 'ag', 'y': 'ct', 'm': 'ac', 'k': 'gt', 's': 'cg', 'w': 'at', 'b': 'cgt', 'd': 'agt', 'h': 'act', 'v': 'acg', 'n': 'acgt'}
IUPAC_COMP = {'a': 't', 'c': 'g', 'g': 'c', 't': 'a', 'r': 'y', 'y': 'r', 'm': 'k', 'k': 'm', 's': 's', 'w': 'w', 'b': 'v', 'v': 'b', 'd': 'h', 'h': 'd', 'n': 'n'}


def pat_rc(p):
    return "".join(IUPAC_COMP[c] for c in reversed(p))


def pm(pc, tc):
    return tc in IUPAC.get(pc, "")


def ham_hits(p, t, e):
    """all (start, errors) of windows of |p| with <= e mismatches"""
    m = len(p)
    out = []
    for i in range(len(t) - m + 1):
        d = sum(0 if pm(a, b) else 1 for a, b in zip(p, t[i:i + m]))
        if d <= e:
            out.append((i, d))
    return out


def sellers(p, t, e):
    m = len(p)
    col = list(range(m + 1))
    if col[m] <= e:
        return True
    for c in t:
        new = [0] * (m + 1)
        for i in range(1, m + 1):
            new[i] = min(col[i - 1] + (0 if pm(p[i - 1], c) else 1), col[i] + 1, new[i - 1] + 1)
        col = new
        if col[m] <= e:
            return True
    return False


def approx_ref(p, t, e, indel, both):
    f = (lambda q: sellers(q, t, e)) if indel else (lambda q: bool(ham_hits(q, t, e)))
    return f(p) or (both and f(pat_rc(p)))


def best_ref(p, t, e):
    """substitutions only: the leftmost window with the fewest mismatches"""
    h = ham_hits(p, t, e)
    if not h:
        return None
    b = min(d for _, d in h)
    i = [i for i, d in h if d == b][0]
    return i, i + len(p), b


def aho_count(pats, t):
    return sum(1 for p in pats for i in range(len(t) - len(p) + 1) if t[i:i + len(p)] == p)


# ------------------------------------------------------------------ reference interpreter (the direct oracle)

def sprint(v):
    if isinstance(v, bool):
        return "true" if v else "false"
    return str(v)


def crit_all(o, r):
    """Conjunction of the criteria that were requested (the statement of the property)."""
    L = len(r["seq"])
    if o.get("minlen") is not None and not L >= o["minlen"]:
        return False
    if o.get("maxlen") is not None and not L <= o["maxlen"]:
        return False
    c = rec_count(r)
    if o.get("mincount") is not None and not c >= o["mincount"]:
        return False
    if o.get("maxcount") is not None and not c <= o["maxcount"]:
        return False
    for p in o.get("seqpats", []):
        if not re.search(p, r["seq"], re.I):
            return False
    for p in o.get("defpats", []):
        if not re.search(p, sprint(r["attrs"].get("definition", ""))):
            return False
    for p in o.get("idpats", []):
        if not re.search(p, r["id"]):
            return False
    for e in o.get("preds", []):
        if not pexpr_eval(e, r):
            return False
    for k in o.get("hasattr", []):
        if k not in r["attrs"]:
            return False
    for k, p in o.get("attrpats", {}).items():
        if k not in r["attrs"] or not re.search(p, sprint(r["attrs"][k])):
            return False
    if o.get("idlist") is not None and r["id"] not in set(x.strip() for x in o["idlist"]):
        return False
    path = tax_path(rec_taxid(r))
    for rk in o.get("ranks", []):
        if not any(k == rk for _, k in path):
            return False
    if o.get("restrict") and not any((slot_taxid(r, t) if isinstance(t, str) else t) in [x for x, _ in path] for t in o["restrict"]):
        return False
    if any(t in [x for x, _ in path] for t in o.get("ignore", [])):
        return False
    for p in o.get("approx", []):
        if not approx_ref(p, r["seq"], o.get("pat_err", 0), bool(o.get("pat_indel")), not o.get("pat_fwd")):
            return False
    return True


def slot_taxid(r, slot):
    """-r SLOT (not a number): the clade is the taxon whose taxid the record carries in its attribute SLOT
    (Taxonomy.IsSubCladeOfSlot: fmt.Sprint of the value, read as a decimal taxid); None when there is none"""
    if slot not in r["attrs"]:
        return None
    v = sprint(r["attrs"][slot])
    if not re.fullmatch(r"[0-9]+", v) or int(v) not in TAX_PARENT:
        return None
    return int(v)


def effective(o):
    """Does the option set make the builders return a non-nil predicate? (used only to recognise the known finding)"""
    return bool((o.get("minlen") is not None and o["minlen"] > 1) or (o.get("maxlen") is not None and o["maxlen"] != SENT) or
                (o.get("mincount") is not None and o["mincount"] > 1) or (o.get("maxcount") is not None and o["maxcount"] != SENT) or
                o.get("seqpats") or o.get("defpats") or o.get("idpats") or o.get("preds") or o.get("hasattr") or o.get("attrpats") or
                (o.get("idlist") is not None and len(o["idlist"]) > 0) or o.get("ranks") or o.get("restrict") or o.get("ignore") or o.get("approx"))


def spec_single(o, r):
    g = crit_all(o, r)
    return (not g) if o.get("invert") else g


def spec_keep(o, r, mate=None):
    f = spec_single(o, r)
    if mate is None:
        return f
    m = o.get("mode", "forward")
    if m == "forward":
        return f
    p = spec_single(o, mate)
    return dict(reverse=p, **{"and": f and p, "or": f or p, "andnot": f and not p, "xor": f != p})[m]


def cut_ref(seq, qual, frm, to):
    """--cut from:to on one record (1-based inclusive from, `to` clamped to the length, negative bounds counted from the end:
    -1 = the last base, a negative `from` beyond the first base is clamped to it).
    Returns (f, t) 0-based half-open or None when the record cannot be cut (discarded with a warning)."""
    L = len(seq)
    f = frm - 1 if frm > 0 else (L + frm if frm < 0 else 0)          # 0-based; -1 = the last base, as for `to`
    t = to if to > 0 else (L + to + 1 if to < 0 else 0)
    if f < 0:
        f = 0
    if t > L:
        t = L
    if f >= t or f >= L:
        return None
    return f, t


def lca_slots(slot):
    """AddLCAWorker slot naming"""
    if not slot.endswith("taxid"):
        slot = slot + "_taxid"
    err = slot.replace("taxid", "error", 1)
    if err == "error":
        err = "lca_error"
    name = slot.replace("taxid", "name", 1)
    if name == "name":
        name = "scientific_name"
    return slot, name, err


def lca_ref(taxids):
    paths = [list(reversed([x for x, _ in tax_path(t)])) for t in taxids]
    out = None
    for lvl in zip(*paths):
        if all(x == lvl[0] for x in lvl):
            out = lvl[0]
        else:
            break
    return out


PATTERN_SLOTS = None


def pattern_slots(name):
    if name not in ("pattern", "", None):
        return "%s_pattern" % name, name
    return "pattern", "pattern"


def spec_annot(o, r, sel=None):
    """Apply every requested edit once, in the documented order, to every SELECTED record; the other records are
    written unchanged. Returns the list of output records (0 or 1)."""
    if sel is not None and not spec_single(sel, r):
        return [dict(r, attrs=dict(r["attrs"]))]
    attrs, qual = dict(r["attrs"]), r.get("qual")
    cur = dict(id=r["id"], attrs=attrs, seq=r["seq"])
    if o.get("clear"):
        attrs.clear()
    if o.get("setid") is not None:
        try:
            cur["id"] = sprint(vexpr_eval(o["setid"], cur))
        except EvalError:
            return []           # the edit cannot be computed on this record: discarded with a warning (as --cut does)

    def get_attr(k):            # BioSequence.GetAttribute
        if k == "id":
            return True, cur["id"]
        if k == "sequence":
            return (len(cur["seq"]) > 0), cur["seq"]
        if k == "qualities":
            return (qual is not None), qual
        return (k in attrs), attrs.get(k)

    def set_attr(k, v):         # BioSequence.SetAttribute: id / sequence are the fields of the record
        if k == "id":
            cur["id"] = sprint(v)
        elif k == "sequence":
            cur["seq"] = sprint(v).lower()
        else:
            attrs[k] = v
    for k in o.get("delete", []):
        attrs.pop(k, None)
    if o.get("keep"):
        for k in list(attrs):
            if k not in o["keep"]:
                del attrs[k]
    for new, old in o.get("rename", {}).items():
        if new == old:
            continue          # an attribute renamed to its own name: nothing changes
        ok, v = get_attr(old)
        if ok:
            set_attr(new, v)
            attrs.pop(old, None)
    taxid = rec_taxid(cur)
    if not isinstance(taxid, int):
        taxid = 1
    for rk in o.get("taxrank", []):
        hit = [x for x, k in tax_path(taxid) if k == rk]
        attrs[rk + "_taxid"] = hit[0] if hit else -1
        attrs[rk + "_name"] = ("taxon%d" % hit[0]) if hit else "NA"
    if o.get("taxpath"):
        attrs["taxonomic_path"] = "|".join("%d@taxon%d@%s" % (x, x, k) for x, k in reversed(tax_path(taxid)))
    if o.get("taxrankname"):
        attrs["taxonomic_rank"] = TAX_PARENT[taxid][1]
    if o.get("sciname"):
        attrs["scienctific_name"] = "taxon%d" % taxid
    if o.get("lca"):
        if "merged_taxid" not in attrs:
            attrs["merged_taxid"] = {str(taxid): rec_count(cur)}        # StatsOn creates the summary slot
        l = lca_ref([int(k) for k in attrs["merged_taxid"]])
        st, sn, se = lca_slots(o["lca"])
        attrs[st], attrs[sn], attrs[se] = l, "taxon%d" % l, 0
    if o.get("length"):
        attrs["seq_length"] = len(cur["seq"])
    try:
        for k, e in o.get("settag", {}).items():
            set_attr(k, vexpr_eval(e, cur))
    except EvalError:
        return []
    if o.get("aho") is not None:
        pats = [x.lower() for x in o["aho"] if len(x) > 0]
        nf, nr = aho_count(pats, cur["seq"]), aho_count(pats, revcomp(cur["seq"]))
        if nf + nr > 0:
            attrs["aho_corasick"], attrs["aho_corasick_Fwd"], attrs["aho_corasick_Rev"] = nf + nr, nf, nr
    if o.get("cut") is not None and o["cut"][0] != 0 and o["cut"][1] != 0:
        ft = cut_ref(cur["seq"], qual, o["cut"][0], o["cut"][1])
        if ft is None:
            return []
        f, t = ft
        cur["seq"] = cur["seq"][f:t]
        if qual is not None:
            qual = qual[f:t]
        cur["id"] = "%s_sub[%d..%d]" % (cur["id"], f + 1, t)
    if o.get("pattern") and not o.get("pat_indel"):
        p, e = o["pattern"], o.get("pat_err", 0)
        slot, name = pattern_slots(o.get("pattern_name"))
        m = best_ref(p, cur["seq"], e)
        if m is not None:
            attrs[slot], attrs[name + "_match"], attrs[name + "_error"] = p, cur["seq"][m[0]:m[1]], m[2]
            attrs[name + "_location"] = "%d..%d" % (m[0] + 1, m[1])
        elif not o.get("pat_fwd"):
            m = best_ref(pat_rc(p), cur["seq"], e)
            if m is not None:
                attrs[slot], attrs[name + "_match"], attrs[name + "_error"] = p, revcomp(cur["seq"][m[0]:m[1]]), m[2]
                attrs[name + "_location"] = "complement(%d..%d)" % (m[0] + 1, m[1])
    if qual is not None:
        cur["qual"] = qual
    return [cur]


def pattern_indel_ok(o, exp, got, untouched=()):
    """--pattern with --allows-indels: the location chosen by the matcher is not predicted; the other edits are compared
    exactly and the pattern slots are checked for presence (exactly on the records with an occurrence within the error
    budget on an allowed strand), strand preference and internal consistency."""
    slot, name = pattern_slots(o.get("pattern_name"))
    keys = [slot, name + "_match", name + "_error", name + "_location"]

    def strip(r):
        return dict(r, attrs={k: v for k, v in r["attrs"].items() if k not in keys})
    if sorted(rec_key(strip(r)) for r in got) != sorted(rec_key(strip(r)) for r in exp):
        return "records differ apart from the pattern slots"
    p, e = o["pattern"], o.get("pat_err", 0)
    for r in got:
        if rec_key(r) in untouched:
            continue            # a record that was not selected: written unchanged
        if slot in r["attrs"] and r["attrs"][slot] != p:
            continue            # slots left by an earlier run with another pattern (no occurrence now): not rewritten
        has = [k in r["attrs"] for k in keys]
        fwd = sellers(p, r["seq"], e)
        rev = (not o.get("pat_fwd")) and sellers(pat_rc(p), r["seq"], e)
        if any(has) != (fwd or rev) or (any(has) and not all(has)):
            return "pattern slots of %s: present=%s, occurrence forward=%s reverse=%s" % (r["id"], has, fwd, rev)
        if any(has):
            loc = str(r["attrs"][name + "_location"])
            if loc.startswith("complement") == fwd:
                return "pattern strand of %s: %s while forward occurrence=%s" % (r["id"], loc, fwd)
            a, b = [int(x) for x in loc.replace("complement(", "").rstrip(")").split("..")]
            sub = r["seq"][a - 1:b]
            if r["attrs"][name + "_match"] != (revcomp(sub) if loc.startswith("complement") else sub) or not (0 <= r["attrs"][name + "_error"] <= e) or r["attrs"][slot] != p:
                return "pattern slots of %s are inconsistent: %s" % (r["id"], {k: r["attrs"][k] for k in keys})
    return None


def route_ref(o, r, idx):
    """obidistribute: name of the output (the %s part, directory) chosen from the record alone (rank for -n)."""
    if o.get("classifier"):
        na = o.get("na", "NA")
        v1, v2 = na, ""
        if r["attrs"]:
            if o["classifier"] in r["attrs"]:
                v1 = sprint(r["attrs"][o["classifier"]])
            if o.get("directory"):
                v2 = sprint(r["attrs"][o["directory"]]) if o["directory"] in r["attrs"] else na
        return (v1, v2)
    if o.get("batches"):
        return (str(idx % o["batches"] + 1), "")
    if o.get("hash"):
        import zlib
        return (str(zlib.crc32(r["seq"].encode()) % o["hash"]), "")
    raise ValueError(o)


# ------------------------------------------------------------------ running the real commands

def order_groups(groups, seed):
    """Shuffle option groups; groups of the same option keep their relative order (slices accumulate, scalars: last wins)."""
    if seed is None:
        return [t for g in groups for t in g]
    if isinstance(seed, (list, tuple)):          # an explicit permutation of the groups
        return [t for i in seed for t in groups[i]] if sorted(seed) == list(range(len(groups))) else [t for g in groups for t in g]
    import random
    rr = random.Random(seed)
    pos = [rr.random() for _ in groups]
    byopt = {}
    for i, g in enumerate(groups):
        byopt.setdefault(g[0], []).append(i)
    for idxs in byopt.values():
        ps = sorted(pos[i] for i in idxs)
        for i, p in zip(idxs, ps):
            pos[i] = p
    return [t for _, g in sorted(zip(pos, groups), key=lambda x: x[0]) for t in g]


def grep_groups(o, work, with_tax=True):
    g = []
    for k, v in o.get("repeat", []):        # earlier occurrences of a scalar option: the last one (in o) wins
        g.append([k, str(v)])
    for opt, k in (("-l", "minlen"), ("-L", "maxlen"), ("-c", "mincount"), ("-C", "maxcount")):
        if o.get(k) is not None:
            g.append([opt, str(o[k])])
    for p in o.get("seqpats", []):
        g.append(["-s", p])
    for p in o.get("defpats", []):
        g.append(["-D", p])
    for p in o.get("idpats", []):
        g.append(["-I", p])
    for e in o.get("preds", []):
        g.append(["-p", pexpr_src(e)])
    for k in o.get("hasattr", []):
        g.append(["-A", k])
    for k, p in o.get("attrpats_over", []):  # overridden occurrences of -a KEY=...: the map keeps the last one
        g.append(["-a", "%s=%s" % (k, p)])
    for k, p in o.get("attrpats", {}).items():
        g.append(["-a", "%s=%s" % (k, p)])
    if o.get("idlist") is not None:
        fn = os.path.join(work, "ids.txt")
        with open(fn, "w") as f:
            f.write("".join(" %s \n" % x if i % 3 == 0 else x + "\n" for i, x in enumerate(o["idlist"])))
        g.append(["--id-list", fn])
    if with_tax and (o.get("ranks") or o.get("restrict") or o.get("ignore")):
        g.append(["-t", TAXDIR[0]])
    for rk in o.get("ranks", []):
        g.append(["--require-rank", rk])
    for t in o.get("restrict", []):
        g.append(["-r", str(t)])
    for t in o.get("ignore", []):
        g.append(["-i", str(t)])
    for p in o.get("approx", []):
        g.append(["--approx-pattern", p])
    if o.get("pat_err") is not None:
        g.append(["--pattern-error", str(o["pat_err"])])
    if o.get("pat_indel"):
        g.append(["--allows-indels"])
    if o.get("pat_fwd"):
        g.append(["--only-forward"])
    if o.get("invert"):
        g.append(["-v"])
    return g


def grep_argv(o, work):
    return order_groups(grep_groups(o, work), o.get("shuffle"))


def needs_tax(o):
    return bool(o.get("taxrank") or o.get("taxpath") or o.get("taxrankname") or o.get("sciname") or o.get("lca"))


def annot_groups(o, work):
    g = []
    if o.get("clear"):
        g.append(["--clear"])
    if o.get("setid") is not None:
        g.append(["--set-identifier", vexpr_src(o["setid"])])
    for k in o.get("delete", []):
        g.append(["--delete-tag", k])
    for k in o.get("keep", []):
        g.append(["-k", k])
    for new, old in o.get("rename_over", []):       # earlier occurrences of -R NEW=... / -S KEY=...: the map keeps the last one
        g.append(["-R", "%s=%s" % (new, old)])
    for new, old in o.get("rename", {}).items():
        g.append(["-R", "%s=%s" % (new, old)])
    if o.get("length"):
        g.append(["--length"])
    for k, e in o.get("settag_over", []):
        g.append(["-S", "%s=%s" % (k, vexpr_src(e))])
    for k, e in o.get("settag", {}).items():
        g.append(["-S", "%s=%s" % (k, vexpr_src(e))])
    if o.get("cut") is not None:
        g.append(["--cut=%d:%d" % tuple(o["cut"])])
    for rk in o.get("taxrank", []):
        g.append(["--with-taxon-at-rank", rk])
    if o.get("taxpath"):
        g.append(["--taxonomic-path"])
    if o.get("taxrankname"):
        g.append(["--taxonomic-rank"])
    if o.get("sciname"):
        g.append(["--scientific-name"])
    if o.get("lca"):
        g.append(["--add-lca-in", o["lca"]])
    if o.get("aho") is not None:
        fn = os.path.join(work, "aho.txt")
        with open(fn, "w") as f:
            f.write("".join(x + "\n" for x in o["aho"]))
        g.append(["--aho-corasick", fn])
    if o.get("pattern"):
        g.append(["--pattern", o["pattern"]])
        if o.get("pattern_name") is not None:
            g.append(["--pattern-name", o["pattern_name"]])
        if o.get("pat_err") is not None:
            g.append(["--pattern-error", str(o["pat_err"])])
        if o.get("pat_indel"):
            g.append(["--allows-indels"])
        if o.get("pat_fwd"):
            g.append(["--only-forward"])
    return g


def annot_argv(o, work, sel=None):
    g = annot_groups(o, work)
    seltax = sel is not None and (sel.get("ranks") or sel.get("restrict") or sel.get("ignore"))
    if needs_tax(o) or seltax:
        g.append(["-t", TAXDIR[0]])
    if sel is not None:
        g += grep_groups(sel, work, with_tax=False)
    return order_groups(g, o.get("shuffle"))


def split_gzip(raw):
    """a file appended to by several runs is a sequence of gzip members: zlib reads them one after the other"""
    import zlib
    out = []
    while raw:
        d = zlib.decompressobj(31)
        d.decompress(raw)
        used = len(raw) - len(d.unused_data)
        out.append(raw[:used])
        raw = d.unused_data
        if used == 0:
            break
    return out


class Runner:
    def __init__(self, ctx, bindir):
        self.ctx, self.bin = ctx, bindir
        from vlib import BUILD
        self.root = os.path.join(BUILD, "c16run_%d" % os.getpid())
        shutil.rmtree(self.root, ignore_errors=True)
        os.makedirs(self.root)
        TAXDIR[0] = os.path.join(BUILD, "c16_taxdump")
        write_taxdump(TAXDIR[0])
        self.n = 0

    def inputs(self, work, case):
        ext = "fastq" if "qual" in case["ds"][0] else "fasta"
        fn = os.path.join(work, "in." + ext)
        open(fn, "w").write(fmt_input(case["ds"]))
        io = case.get("io")
        if io == "gz-in":
            import gzip
            with gzip.open(fn + ".gz", "wb") as f:
                f.write(fmt_input(case["ds"]).encode())
            os.remove(fn)
            fn = fn + ".gz"
        elif io in ("two-files", "no-order"):
            h = len(case["ds"]) // 2
            fn2 = os.path.join(work, "in2." + ext)
            open(fn, "w").write(fmt_input(case["ds"][:h]))
            open(fn2, "w").write(fmt_input(case["ds"][h:]))
            fn = [fn, fn2]
        pfn = None
        if case.get("mates") is not None:
            pfn = os.path.join(work, "rev." + ext)
            open(pfn, "w").write(fmt_input(case["mates"]))
        return fn, pfn, ext

    def run(self, idx, case):
        work = os.path.join(self.root, "c%d" % idx)
        os.makedirs(work, exist_ok=True)
        fn, pfn, ext = self.inputs(work, case)
        o = case["opts"]
        common = ["--max-cpu", str(case.get("cpu", 2)), "--batch-size", str(case.get("batch", 5))]
        io = case.get("io")
        if io == "one-cpu":
            common = ["--force-one-cpu", "--batch-size", str(case.get("batch", 5))]
        files = fn if isinstance(fn, list) else [fn]
        stdin = None
        if io == "stdin":
            files, stdin = [], open(fn, "rb").read()
        res = dict(rc=None)
        try:
            if case["tool"] in ("grep", "annot"):
                argv = [os.path.join(self.bin, "obigrep" if case["tool"] == "grep" else "obiannotate")] + common
                argv += grep_argv(o, work) if case["tool"] == "grep" else annot_argv(o, work, case.get("sel"))
                disc = None
                if o.get("save_discarded"):
                    disc = os.path.join(work, "disc." + ext)
                    argv += ["--save-discarded", disc]
                if pfn:
                    argv += ["--paired-with", pfn, "--paired-mode", o.get("mode", "forward"), "-o", os.path.join(work, "out." + ext)]
                outf = None
                if io == "no-order":
                    argv.append("--no-order")
                if io in ("out-file", "compress-file") and not pfn:
                    outf = os.path.join(work, "res." + ext + (".gz" if io == "compress-file" else ""))
                    argv += ["-o", outf]
                if io in ("compress", "compress-file"):
                    argv.append("-Z")
                if o.get("bad_argv"):
                    argv += o["bad_argv"]
                argv += files
                p = subprocess.run(argv, capture_output=True, timeout=60, input=stdin)
                res["rc"] = p.returncode
                res["argv"] = argv[1:]
                if p.returncode != 0:
                    res["err"] = p.stderr.decode("utf8", "replace")[-600:]
                    return res

                def rd(path):
                    if not os.path.exists(path):
                        return []
                    raw = open(path, "rb").read()
                    if raw[:2] == b"\x1f\x8b":          # -Z compresses every file the command writes
                        import gzip
                        raw = gzip.decompress(raw)
                    return parse_output(raw.decode("utf8", "replace"))
                if pfn:
                    res["out"] = rd(os.path.join(work, "out_R1." + ext))
                    res["out2"] = rd(os.path.join(work, "out_R2." + ext))
                    if disc:
                        res["disc"] = rd(os.path.join(work, "disc_R1." + ext))
                        res["disc2"] = rd(os.path.join(work, "disc_R2." + ext))
                else:
                    raw = p.stdout
                    if outf:
                        raw = open(outf, "rb").read() if os.path.exists(outf) else b""
                    if io in ("compress", "compress-file"):
                        import gzip
                        try:
                            raw = gzip.decompress(raw) if raw else raw
                        except OSError:
                            res["rc"], res["err"] = "not-gzip", "the output requested with -Z is not gzip data"
                            return res
                    res["out"] = parse_output(raw.decode("utf8", "replace"))
                    if disc:
                        res["disc"] = rd(disc)
            elif case["tool"] == "mux":
                ngs = os.path.join(work, "ngs.txt")
                open(ngs, "w").write(case["ngs"])
                unid = os.path.join(work, "unid.fasta")
                argv = [os.path.join(self.bin, "obimultiplex")] + common + ["-t", ngs] + ([] if o.get("no_unid") else ["-u", unid]) + (["--keep-errors"] if o.get("keep_errors") else []) + [fn]
                p = subprocess.run(argv, capture_output=True, timeout=60)
                res["rc"] = p.returncode
                res["argv"] = argv[1:]
                if p.returncode != 0:
                    res["err"] = p.stderr.decode("utf8", "replace")[-600:]
                    return res
                res["out"] = parse_output(p.stdout.decode("utf8", "replace"))
                res["unid"] = parse_output(open(unid).read()) if os.path.exists(unid) else []
            else:   # obidistribute
                outd = os.path.join(work, "o")
                os.makedirs(outd, exist_ok=True)
                argv = [os.path.join(self.bin, "obidistribute")] + common + ["-p", "part_%s." + ext]
                if o.get("out_format"):
                    argv.append("--%s-output" % o["out_format"])
                if o.get("header"):
                    argv.append("-O" if o["header"] == "obi" else "--output-json-header")
                if o.get("compress"):
                    argv.append("-Z")
                if o.get("append"):
                    argv.append("-A")
                if o.get("classifier"):
                    argv += ["-c", o["classifier"]]
                    if o.get("directory"):
                        argv += ["-d", o["directory"]]
                    if o.get("na"):
                        argv += ["--na-value", o["na"]]
                elif o.get("batches"):
                    argv += ["-n", str(o["batches"])]
                else:
                    argv += ["-H", str(o["hash"])]
                if o.get("precreate"):
                    open(os.path.join(outd, o["precreate"]), "w").write("not a directory\n")
                argv += files
                for _ in range(o.get("runs", 1)):        # several runs into the same directory (with / without --append)
                    p = subprocess.run(argv, capture_output=True, timeout=60, cwd=outd, input=stdin)
                    res["rc"] = p.returncode
                    res["argv"] = argv[1:]
                    if p.returncode != 0:
                        res["err"] = p.stderr.decode("utf8", "replace")[-600:]
                        return res
                files = {}
                for root, _, fs in os.walk(outd):
                    for f in fs:
                        rel = os.path.relpath(os.path.join(root, f), outd)
                        raw = open(os.path.join(root, f), "rb").read()
                        if o.get("compress"):
                            import gzip
                            try:
                                raw = b"".join(gzip.decompress(m) for m in split_gzip(raw))
                            except OSError:
                                res["rc"], res["err"] = "not-gzip", "%s is not gzip data" % rel
                                return res
                        files[rel] = parse_output(raw.decode("utf8", "replace"), obi=(o.get("header") == "obi"))
                res["files"] = files
        except subprocess.TimeoutExpired:
            res["rc"] = "timeout"
        finally:
            shutil.rmtree(work, ignore_errors=True)
        return res

    def run_all(self, cases):
        with ThreadPoolExecutor(max_workers=12) as ex:
            results = list(ex.map(lambda ic: self.run(*ic), enumerate(cases)))
        # a run that timed out under load is repeated alone (twice at most) before it is judged
        for i, res in enumerate(results):
            for _ in range(2):
                if results[i]["rc"] == "timeout":
                    self.ctx.cov["timeouts_retried"] = self.ctx.cov.get("timeouts_retried", 0) + 1
                    results[i] = self.run(i, cases[i])
        return results

    def close(self):
        shutil.rmtree(self.root, ignore_errors=True)


# ------------------------------------------------------------------ case generators

def boundary_values(ds):
    lens = sorted({len(r["seq"]) for r in ds})
    cnts = sorted({rec_count(r) for r in ds})
    return lens, cnts


def gen_apat(rng, ds):
    """an IUPAC pattern cut out of a record (mutated: substitutions, ambiguity codes, one indel, other strand) or random"""
    src = rng.choice(ds)["seq"]
    m = rng.choice([4, 5, 6, 8, 10])
    if len(src) >= m and rng.random() < 0.8:
        k = rng.randrange(0, len(src) - m + 1)
        p = list(src[k:k + m])
        for _ in range(rng.choice([0, 0, 1, 2])):
            p[rng.randrange(len(p))] = rng.choice("acgtnryw")
        if rng.random() < 0.3 and len(p) > 4:
            del p[rng.randrange(len(p))]
        if rng.random() < 0.3:
            p.insert(rng.randrange(len(p)), rng.choice("acgt"))
        p = "".join(p)
        if rng.random() < 0.4:
            p = pat_rc(p)
    else:
        p = "".join(rng.choice("acgt") for _ in range(m))
    return p


def gen_single_option(rng, ds, fam):
    lens, cnts = boundary_values(ds)
    L = rng.choice(lens) + rng.choice([-1, 0, 1])
    C = rng.choice(cnts) + rng.choice([-1, 0, 1])
    if fam == "minlen":
        return dict(minlen=rng.choice([0, 1, 2, L, max(lens) + 1, SENT - 1, SENT]))
    if fam == "maxlen":
        return dict(maxlen=max(0, rng.choice([L, min(lens) - 1, max(lens), 1, 0, SENT - 1, SENT, SENT + 1])))
    if fam == "mincount":
        return dict(mincount=max(0, rng.choice([0, 1, 2, C, max(cnts) + 1, SENT])))
    if fam == "maxcount":
        return dict(maxcount=max(0, rng.choice([C, 1, 0, max(cnts), min(cnts), SENT - 1, SENT, SENT + 1])))
    if fam == "seqpats":
        return dict(seqpats=[rng.choice(SEQ_PATS) for _ in range(rng.choice([1, 1, 2, 3]))])
    if fam == "defpats":
        return dict(defpats=[rng.choice(DEF_PATS) for _ in range(rng.choice([1, 1, 2]))])
    if fam == "idpats":
        return dict(idpats=[rng.choice(ID_PATS) for _ in range(rng.choice([1, 1, 2]))])
    if fam == "preds":
        return dict(preds=[gen_pexpr(rng, ds) for _ in range(rng.choice([1, 1, 2, 3]))])
    if fam == "hasattr":
        return dict(hasattr=[rng.choice(SKEYS + IKEYS + XKEYS + ["count", "definition", "taxid", "nokey", "seq_length"]) for _ in range(rng.choice([1, 1, 2, 3, 4]))])
    if fam == "attrpats":
        ks = rng.sample(SKEYS + IKEYS + XKEYS + ["count"], rng.choice([1, 1, 2, 3, 4]))
        o = dict(attrpats={k: rng.choice(VAL_PATS + (["^t", "e$", "[.]5$", "^1"] if k in XKEYS else [])) for k in ks})
        if rng.random() < 0.4:      # the same key given twice: the map keeps the last pattern
            o["attrpats_over"] = [(k, rng.choice(VAL_PATS)) for k in rng.sample(ks, 1)]
        return o
    if fam == "approx":
        pats = [gen_apat(rng, ds) for _ in range(rng.choice([1, 1, 1, 2]))]
        o = dict(approx=pats)
        e = rng.choice([None, 0, 1, 1, 2])
        if e is not None:
            o["pat_err"] = min(e, min(len(p) for p in pats) - 1)
        if rng.random() < 0.45:
            o["pat_indel"] = True
        if rng.random() < 0.4:
            o["pat_fwd"] = True
        return o
    if fam == "idlist":
        ids = [r["id"] for r in ds if rng.random() < 0.4] + ["nosuchid"]
        return dict(idlist=ids)
    if fam == "ranks":
        return dict(ranks=[rng.choice(TAX_RANKS) for _ in range(rng.choice([1, 1, 2]))])
    if fam == "restrict":
        return dict(restrict=[rng.choice(TAX_NODES)[0] if rng.random() < 0.7 else rng.choice(["parent", "n", "k"]) for _ in range(rng.choice([1, 1, 2, 3]))])
    if fam == "ignore":
        return dict(ignore=[rng.choice(TAX_NODES)[0] for _ in range(rng.choice([1, 1, 2]))])
    if fam == "invert":
        return dict(invert=True)
    if fam == "save_discarded":
        return dict(save_discarded=True)
    raise ValueError(fam)


GREP_FAMS = ["minlen", "maxlen", "mincount", "maxcount", "seqpats", "defpats", "idpats", "preds", "hasattr", "attrpats", "idlist", "ranks", "restrict", "ignore",
             "approx", "invert", "save_discarded"]
SCALARS = [("-l", "minlen"), ("-L", "maxlen"), ("-c", "mincount"), ("-C", "maxcount")]


def gen_grep_cases(ctx, datasets, nrandom, npaired, grid):
    rng = ctx.rng
    cases = []

    def mk(o, ds=None, **kw):
        return dict(tool="grep", opts=o, ds=ds if ds is not None else rng.choice(datasets["plain"]), **kw)
    # corpus: witnesses of the defects first
    w = [dict(id="w1", attrs={"count": 6}, seq="acgtacgtac"), dict(id="w2", attrs={"count": 5}, seq="acgt"), dict(id="w3", attrs={}, seq="a")]
    cases.append(mk(dict(maxcount=5), w, tag="fixed:maxcount-guard"))
    cases.append(mk(dict(maxcount=5, maxlen=1000), w))
    cases.append(mk(dict(invert=True), w, tag="known:nil-predicate-shortcut"))
    cases.append(mk(dict(invert=True, minlen=1), w, tag="known:nil-predicate-shortcut"))
    cases.append(mk(dict(minlen=1), w))
    cases.append(mk(dict(), w))
    cases.append(mk(dict(maxlen=SENT), w))
    for k in ("minlen", "maxlen", "mincount", "maxcount"):
        for v in (0, 1, 2, SENT - 1, SENT, SENT + 1):
            cases.append(mk({k: v}, w))
            cases.append(mk({k: v, "invert": True}, w, tag="boundary-invert"))
    for perm in itertools.permutations(range(4)):        # the same four options in every order
        cases.append(mk(dict(minlen=4, maxcount=5, hasattr=["k"], invert=True, shuffle=list(perm)), w + [dict(id="w4", attrs={"k": "x", "count": 2}, seq="acgtacg"), dict(id="w5", attrs={"k": "y", "count": 9}, seq="acgta")], tag="every-order"))
    cases.append(mk(dict(minlen=5, repeat=[("-l", 50)]), w))
    cases.append(mk(dict(maxcount=5, repeat=[("-C", 1), ("-C", 100)]), w))
    cases.append(mk(dict(attrpats={"k": "^x"}, attrpats_over=[("k", "^a")]), tag="repeat-map-key"))
    cases.append(mk(dict(hasattr=["k", "n", "tag", "count"])))
    cases.append(mk(dict(approx=["acgtacgt"], pat_err=0), w))
    cases.append(mk(dict(approx=["acgaacgt"], pat_err=1), w))
    cases.append(mk(dict(approx=["acgaacgt"], pat_err=0), w))
    cases.append(mk(dict(approx=["acgacgt"], pat_err=1), w))
    cases.append(mk(dict(approx=["acgacgt"], pat_err=1, pat_indel=True), w))
    cases.append(mk(dict(approx=["gtacgtac"], pat_fwd=True), w))
    cases.append(mk(dict(approx=["gtacgtacgt"], pat_fwd=True), w))
    cases.append(mk(dict(approx=["gtacgtacgt"]), w))
    cases.append(mk(dict(approx=["acgtacgt", "tttt"]), w))
    sc = [dict(id="t1", attrs={"count": "6"}, seq="acgtacgtac"), dict(id="t2", attrs={"count": 6}, seq="acgt"), dict(id="t3", attrs={"count": "x"}, seq="ac")]
    for o in (dict(mincount=2), dict(maxcount=5), dict(mincount=6, maxcount=6), dict(preds=[("counteq", 1)]), dict(attrpats={"count": "^6$"})):
        cases.append(mk(o, sc, tag="string-typed-count"))
    # nothing kept, everything discarded: main's output ends at once (witness of the discarded-writer exit race, fixed)
    cases.append(mk(dict(minlen=1000, save_discarded=True), w, tag="fixed:discarded-writer-exit-race"))
    cases.append(mk(dict(minlen=1000, save_discarded=True), tag="fixed:discarded-writer-exit-race"))
    # each option alone (several values), every pair
    for fam in GREP_FAMS:
        for _ in range(3):
            ds = rng.choice(datasets["plain"])
            cases.append(mk(gen_single_option(rng, ds, fam), ds))
    for f1, f2 in itertools.combinations(GREP_FAMS, 2):
        ds = rng.choice(datasets["plain"] + datasets["fastq"][:1])
        o = gen_single_option(rng, ds, f1)
        o.update(gen_single_option(rng, ds, f2))
        cases.append(mk(o, ds))
    # random larger subsets, repeated scalar options
    for _ in range(nrandom):
        ds = rng.choice(datasets["plain"] + datasets["fastq"])
        o = {}
        for fam in rng.sample(GREP_FAMS, rng.randrange(3, 8)):
            o.update(gen_single_option(rng, ds, fam))
        rep = [(opt, rng.choice([0, 1, 3, 7, 30, SENT])) for opt, k in SCALARS if o.get(k) is not None and rng.random() < 0.3]
        if rep:
            o["repeat"] = rep           # the same scalar option given earlier on the command line: the last occurrence wins
        if rng.random() < 0.6:
            o["shuffle"] = rng.randrange(1 << 30)      # options in another order
        cases.append(mk(o, ds))
    # paired inputs: the six modes x option families
    for i in range(npaired):
        fwd, rev = rng.choice(datasets["paired"])
        o = {}
        for fam in rng.sample(GREP_FAMS, rng.choice([1, 1, 2, 3])):
            o.update(gen_single_option(rng, fwd + rev, fam))
        o["mode"] = MODES[i % 6]
        cases.append(mk(o, fwd, mates=rev))
    wf = [dict(id="p1", attrs={}, seq="acgtacgt"), dict(id="p2", attrs={}, seq="ac"), dict(id="p3", attrs={}, seq="acgtac"), dict(id="p4", attrs={}, seq="a")]
    wr = [dict(id="p1", attrs={}, seq="ttttt"), dict(id="p2", attrs={}, seq="tttttt"), dict(id="p3", attrs={}, seq="t"), dict(id="p4", attrs={}, seq="tt")]
    for m in MODES:
        cases.append(mk(dict(minlen=4, mode=m), wf, mates=wr))
        cases.append(mk(dict(minlen=4, mode=m, invert=True, save_discarded=True), wf, mates=wr))
        cases.append(mk(dict(mode=m), wf, mates=wr, tag="known:nil-predicate-shortcut" if m in ("andnot", "xor") else None))
    # --max-cpu x --batch-size grid on one option set
    for cpu, batch in grid:
        ds = datasets["plain"][-1]
        o = dict(minlen=8, attrpats={"k": "b"}, save_discarded=True)
        cases.append(mk(o, ds, cpu=cpu, batch=batch))
    # ---- round 3
    # -I / -D are case sensitive (as in OBITools 2; the help text of the options says otherwise: observation), -s is not
    wc = [dict(id="Seq1", attrs={"definition": "Foo bar"}, seq="acgtac"), dict(id="seq2", attrs={"definition": "foo BAR"}, seq="ACGTAC".lower()), dict(id="SEQ3", attrs={}, seq="ttgacc")]
    for o in (dict(idpats=["^s"]), dict(idpats=["^S"]), dict(idpats=["seq"]), dict(defpats=["foo"]), dict(defpats=["Foo"]), dict(defpats=["bar$"]), dict(seqpats=["ACGT"]), dict(seqpats=["acgt"])):
        cases.append(mk(o, wc, tag="pattern-case"))
    # the way the records reach the command and leave it: stdin, several files (ordered or not), compressed input / output, -o
    iods = datasets["plain"][-1]
    for io in IO_MODES:
        cases.append(mk(dict(minlen=8, attrpats={"k": "b"}), iods, io=io, batch=3, tag="io:" + io))
        cases.append(mk(dict(maxlen=20, save_discarded=True, invert=True), iods, io=io, batch=4, tag="io:" + io))
        ds = rng.choice(datasets["plain"] + datasets["fastq"])
        o = {}
        for fam in rng.sample(GREP_FAMS, 2):
            o.update(gen_single_option(rng, ds, fam))
        cases.append(mk(o, ds, io=io, batch=rng.choice([1, 2, 5, 1000]), cpu=rng.choice([1, 2, 4]), tag="io:" + io))
    # DivideOn: both sides longer than a batch, different numbers of full batches on the two sides when the input ends
    big = datasets["plain"][-1]
    for batch in (2, 3, 4, 5, 7):
        for thr in sorted({len(r["seq"]) for r in big})[1:6:2]:
            cases.append(mk(dict(minlen=thr, save_discarded=True), big, cpu=2, batch=batch, tag="divide-unequal-sides"))
    bf, br = datasets["paired"][-1]
    for batch in (2, 3, 5):
        for m in MODES:
            cases.append(mk(dict(minlen=9, save_discarded=True, mode=m), bf, mates=br, cpu=2, batch=batch, tag="divide-unequal-sides"))
    # a criterion that cannot be understood stops the command (a criterion silently ignored would keep the wrong records)
    for bad in (["-s", "a[c"], ["-D", "(("], ["-I", "*a"], ["-a", "k=[z"], ["-p", "sequence.Len( >"], ["--id-list", "/nonexistent/ids.txt"], ["-r", "30"],
                ["-t", TAXDIR[0] or "taxdump", "--require-rank", "nosuchrank"], ["-l", "abc"], ["-a", "k"], ["-t", "/nonexistent", "-r", "30"]):
        cases.append(mk(dict(minlen=2, bad_argv=bad, refuse=True), w, tag="refuse"))
    cases.append(mk(dict(minlen=2, bad_argv=["--paired-mode", "both"], refuse=True, mode="forward"), wf, mates=wr, tag="refuse"))
    cases.append(mk(dict(minlen=2, bad_argv=["--save-discarded", "/nonexistent/dir/d.fasta"], refuse=True), w, tag="refuse"))
    # a predicate that cannot be evaluated on the records (it reads an attribute none of them has): refused, or nothing kept
    cases.append(mk(dict(bad_argv=["-p", "annotations.zz > 3"], refuse="or-empty"), w, tag="refuse"))
    return cases


IO_MODES = ["stdin", "two-files", "no-order", "gz-in", "out-file", "compress", "compress-file", "one-cpu"]


ANNOT_FAMS = ["clear", "setid", "delete", "keep", "rename", "length", "settag", "cut", "taxrank", "taxpath", "taxrankname", "sciname", "lca", "aho", "pattern",
              "rename_special", "settag_special"]
TAX_FAMS = ("taxrank", "taxpath", "taxrankname", "sciname", "lca")
SEQ_DEP = ("aho", "pattern", "cut")       # not combined with an edit that replaces the sequence by an attribute value


def gen_annot_option(rng, ds, fam):
    keys = SKEYS + IKEYS + ["count", "definition"]
    if fam == "clear":
        return dict(clear=True)
    if fam == "setid":
        return dict(setid=gen_vexpr(rng, strings_only=True))
    if fam == "delete":
        return dict(delete=rng.sample(keys + ["nokey"], rng.choice([1, 1, 2, 3])))
    if fam == "keep":
        return dict(keep=rng.sample(keys + ["nokey"], rng.choice([1, 2, 3])))
    if fam == "rename":
        olds = rng.sample(keys, rng.choice([1, 1, 2]))
        if rng.random() < 0.2:
            return dict(rename={k: k for k in olds})           # renamed to its own name: must change nothing
        return dict(rename={"new_%s" % k: k for k in olds})
    if fam == "length":
        return dict(length=True)
    if fam == "settag":
        ks = rng.sample(["a", "b", "c", "d", "k"], rng.choice([1, 2, 3, 4]))
        o = dict(settag={k: gen_vexpr(rng) for k in ks})
        if rng.random() < 0.25:     # the same key given twice: the last expression wins (the overridden one may even fail: it is never evaluated)
            o["settag_over"] = [(ks[0], rng.choice([("int", 7), ("attr", "nokey"), ("str", "old")]))]
        return o
    if fam == "taxrank":
        return dict(taxrank=[rng.choice(TAX_RANKS[:4] + ["order"]) for _ in range(rng.choice([1, 1, 2, 3]))])
    if fam == "taxpath":
        return dict(taxpath=True)
    if fam == "taxrankname":
        return dict(taxrankname=True)
    if fam == "sciname":
        return dict(sciname=True)
    if fam == "lca":
        return dict(lca=rng.choice(["lca", "lca_taxid", "taxid", "x", "my_taxid_b"]))
    if fam == "aho":
        pats = []
        for _ in range(rng.choice([1, 2, 3, 5])):
            src = rng.choice(ds)["seq"]
            m = rng.choice([2, 3, 4, 6])
            p = src[:m] if len(src) >= m else "acg"
            if rng.random() < 0.3:
                p = p.upper()
            if p.lower() not in [x.lower() for x in pats]:
                pats.append(p)
        return dict(aho=pats + ([""] if rng.random() < 0.3 else []))
    if fam == "pattern":
        p = gen_apat(rng, ds)
        o = dict(pattern=p)
        e = rng.choice([None, 0, 1, 1, 2])
        if e is not None:
            o["pat_err"] = min(e, len(p) - 1)
        if rng.random() < 0.3:
            o["pat_indel"] = True
        if rng.random() < 0.4:
            o["pat_fwd"] = True
        if rng.random() < 0.4:
            o["pattern_name"] = rng.choice(["pattern", "foo", "p1"])
        return o
    if fam == "rename_special":
        k = rng.choice(["id<-", "<-id", "seq<-", "<-seq", "<-qual"])
        if k == "id<-":
            return dict(rename={"id": rng.choice(SKEYS + IKEYS + ["count", "nokey"])})
        if k == "<-id":
            return dict(rename={"old_id": "id"})
        if k == "seq<-" and "qual" not in ds[0]:
            return dict(rename={"sequence": rng.choice(SKEYS)})
        if k == "<-seq":
            return dict(rename={"seq_copy": "sequence"})
        return dict(rename={"q": "qualities"})
    if fam == "settag_special":
        if rng.random() < 0.7 or "qual" in ds[0]:
            return dict(settag={"id": gen_vexpr(rng)})
        return dict(settag={"sequence": ("str", rng.choice(["acgt", "ACGTTT", "a"]))})
    if fam == "cut":
        L = len(rng.choice(ds)["seq"])
        frm = rng.choice([1, 2, 3, L, L + 1, max(1, L - 1), -1, -2, -3, -L, -L - 1, -L + 1, -L - 7])
        to = rng.choice([L - 1, L, L + 1, 100, 5, -1, -2, -3, frm, frm + 1])
        if to == 0:
            to = 1
        return dict(cut=[frm, to])
    raise ValueError(fam)


def merge_annot(o, o2):
    """union of two option sets (rename / settag maps are merged; their keys stay independent)"""
    for k, v in o2.items():
        if k in ("rename", "settag") and k in o:
            o[k] = dict(o[k], **v)
        else:
            o[k] = v
    return o


def annot_conflict(o):
    """Go map order is random: rename / -S entries must be independent of each other; an edit that replaces the sequence
    by an attribute value is not combined with the sequence-dependent matchers."""
    ren = o.get("rename", {})
    olds, news = list(ren.values()), list(ren.keys())
    if len(set(olds)) != len(olds) or set(olds) & set(news):
        return True
    st = o.get("settag", {})
    if ("id" in st or "sequence" in st) and len(st) > 1:
        return True             # later -S expressions read sequence.Id() / Len()
    if any(e[0] == "attr" and e[1] in st for e in st.values()):
        return True             # an -S expression reading an attribute another -S writes (Go map order)
    if any(e[0] in ("comp", "gc", "gcskew", "numlen", "boolcnt") for k, e in st.items() if k in ("id", "sequence")):
        return True             # a map / float as identifier: rendering not predicted
    if o.get("lca") and (o.get("clear") or o.get("keep") or {"taxid", "merged_taxid"} & (set(o.get("delete", [])) | set(olds) | set(news))):
        return True             # --add-lca-in on a record without taxid: observation (panic in obitax), outside the statement
    seqset = "sequence" in news or "sequence" in st
    if seqset and (any(o.get(k) for k in ("aho", "pattern")) or o.get("cut") is not None):
        return True
    if ("id" in news or "id" in olds) and o.get("setid") is not None and "id" in news:
        return False
    return False


def annot_ds(rng, datasets, fams, fastq_ok=True):
    if any(f in TAX_FAMS for f in fams):
        return rng.choice(datasets["tax"])
    return rng.choice(datasets["plain"] + (datasets["fastq"][:1] if fastq_ok else []))


def gen_sel(rng, ds):
    o = {}
    for fam in rng.sample([f for f in GREP_FAMS if f not in ("save_discarded", "ranks", "restrict", "ignore", "approx")], rng.choice([1, 1, 2])):
        o.update(gen_single_option(rng, ds, fam))
    return o


def gen_annot_cases(ctx, datasets, nrandom, grid):
    rng = ctx.rng
    cases = []

    def mk(o, ds=None, **kw):
        return dict(tool="annot", opts=o, ds=ds if ds is not None else rng.choice(datasets["plain"]), **kw)
    w = [dict(id="c1", attrs={}, seq="acgtacgtacgtacgtacgt"), dict(id="c2", attrs={"k": "abc"}, seq="acgtac"),
         dict(id="c3", attrs={}, seq="acgtacgtacgtacgtacgtacgtacgtacgt"), dict(id="c4", attrs={"n": 3}, seq="acgtacgtacgt")]
    cases.append(mk(dict(settag={"a": ("int", 1), "b": ("int", 2), "c": ("int", 3)}), w, tag="fixed:settag-chain"))
    cases.append(mk(dict(cut=[3, 10]), w, cpu=1, batch=10, tag="fixed:cut-captured-bounds"))
    cases.append(mk(dict(cut=[3, 100]), w, cpu=1, batch=10, tag="fixed:cut-captured-bounds"))
    cases.append(mk(dict(cut=[3, 100]), list(reversed(w)), cpu=1, batch=10, tag="fixed:cut-captured-bounds"))
    cases.append(mk(dict(cut=[2, -2]), w))
    for ft in ([0, 5], [3, 0], [0, 0], [0, -2]):        # a bound equal to 0: the option is accepted and nothing is cut (observation cut-zero-bound-ignored)
        cases.append(mk(dict(cut=ft, length=True), w, tag="cut-zero-bound"))
    # a negative `from` counts from the end like a negative `to` (witness of the off-by-one of CutSequenceWorker, fixed)
    for ft in ([-3, -1], [-1, -1], [-6, -2], [-100, 3], [-20, 100], [-6, 6], [-7, 1], [-5, 1]):
        cases.append(mk(dict(cut=ft), w, tag="fixed:cut-negative-from"))
    # an edit that cannot be computed on a record (expression reading a missing attribute): that record is discarded with a
    # warning, every other record is edited; with selection options the unselected records pass through
    cases.append(mk(dict(settag={"a": ("attr", "k")}), w, tag="failing-expression"))
    cases.append(mk(dict(settag={"a": ("attr", "k"), "b": ("int", 1)}, length=True), w, tag="failing-expression"))
    cases.append(mk(dict(setid=("attr", "k")), w, tag="failing-expression"))
    cases.append(mk(dict(settag={"a": ("int", 2)}, settag_over=[("a", ("attr", "nokey")), ("a", ("int", 1))]), w, tag="repeat-map-key"))
    cases.append(mk(dict(rename={"kk": "k"}, rename_over=[("kk", "n")]), w, tag="repeat-map-key"))
    # WriteSequence looks for the first non-empty batch to choose FASTQ / FASTA: here the first two batches are emptied by
    # --cut and several batches follow the first non-empty one
    wq2 = [dict(id="q%d" % i, attrs={}, seq="acg", qual="III") for i in range(10)] + [dict(id="long%d" % i, attrs={"n": i}, seq="acgtacgtacgtacgtacgt", qual="I" * 20) for i in range(13)]
    for cpu in (1, 2, 4):
        cases.append(mk(dict(cut=[5, 10]), wq2, cpu=cpu, batch=5, tag="empty-first-batches"))
    cases.append(mk(dict(settag={"a": ("attr", "n")}, cut=[2, 8]), w, sel=dict(minlen=8), tag="failing-expression"))
    cases.append(mk(dict(clear=True, settag={"a": ("attr", "k")}), w, tag="failing-expression"))
    cases.append(mk(dict(rename={"k": "n"}, settag={"a": ("attr", "k")}, delete=["n"]), w, tag="failing-expression"))
    # the functions of the embedded expression language
    cases.append(mk(dict(settag={"a": ("iflen", 12, "long", "short"), "b": ("printf",), "c": ("halflen",), "d": ("subspc", "a b c")}), w, tag="language-functions"))
    cases.append(mk(dict(settag={"a": ("gsubid", "c", "C-"), "b": ("replseq", "ac", "x"), "c": ("gc",), "d": ("comp",)}), w, tag="language-functions"))
    cases.append(mk(dict(settag={"a": ("numlen",), "b": ("boolcnt",), "c": ("gcskew",)}), w + [dict(id="c5", attrs={"count": 4}, seq="ggcat")], tag="language-functions"))
    # gcskew of a sequence without g and c is NaN: the JSON title-line writer cannot encode it and writes NO attribute at all
    cases.append(mk(dict(settag={"skew": ("gcskew",)}), [dict(id="at1", attrs={"k": "abc", "n": 3}, seq="ttaatt"), dict(id="gc1", attrs={"k": "x"}, seq="ggcat")], tag="known:gcskew-nan"))
    wq = [dict(id="q%d" % i, attrs={}, seq="acg", qual="III") for i in range(12)] + [dict(id="long", attrs={}, seq="acgtacgtacgtacgtacgt", qual="I" * 20)]
    for _ in range(4):
        cases.append(mk(dict(cut=[5, 10]), wq, cpu=2, batch=5, tag="fixed:fastq-written-as-fasta"))
    cases.append(mk(dict(), w))
    for perm in itertools.permutations(range(4)):        # the same four edits requested in every order: the chain order is fixed
        cases.append(mk(dict(delete=["n"], rename={"kk": "k"}, length=True, settag={"a": ("lenplus", 1)}, shuffle=list(perm)), w, tag="every-order"))
    # selection options restrict WHICH records are edited; the others are written unchanged
    cases.append(mk(dict(length=True), w, sel=dict(minlen=8), tag="fixed:unselected-records-dropped"))
    cases.append(mk(dict(), w, sel=dict(minlen=8), tag="fixed:selection-without-edit"))
    cases.append(mk(dict(length=True), w, sel=dict(invert=True), tag="fixed:nil-predicate-shortcut"))
    cases.append(mk(dict(settag={"a": ("int", 1)}), w, sel=dict(hasattr=["k"], invert=True)))
    # the special keys id / sequence / qualities of SetAttribute / GetAttribute
    cases.append(mk(dict(rename={"id": "n"}), w, tag="fixed:special-key-type-assertion"))
    cases.append(mk(dict(rename={"id": "k"}), w))
    cases.append(mk(dict(rename={"k": "k"}), w, tag="fixed:rename-to-own-name-deleted-the-attribute"))
    cases.append(mk(dict(rename={"k": "k", "n": "n"}, length=True), w))
    cases.append(mk(dict(rename={"sequence": "k"}), w, tag="fixed:special-key-type-assertion"))
    cases.append(mk(dict(rename={"s": "sequence"}), w))
    cases.append(mk(dict(rename={"i": "id"}), w))
    cases.append(mk(dict(rename={"q": "qualities"}), w))
    cases.append(mk(dict(rename={"q": "qualities"}), wq))
    cases.append(mk(dict(settag={"id": ("int", 1)}), w, tag="fixed:special-key-type-assertion"))
    cases.append(mk(dict(settag={"id": ("lenplus", 0)}), w, tag="fixed:special-key-type-assertion"))
    cases.append(mk(dict(settag={"sequence": ("str", "ACGT")}, length=True), w, tag="fixed:special-key-type-assertion"))
    # --pattern: strand, error budget, indel flag, slot names
    wp = [dict(id="m1", attrs={}, seq="ttttacgtacgtacgtttt"), dict(id="m2", attrs={}, seq="acgtacgtac"), dict(id="m3", attrs={}, seq="aaaacgtacgtacgtaaaa"), dict(id="m4", attrs={}, seq="gg")]
    cases.append(mk(dict(pattern="aaaacgt"), wp))
    cases.append(mk(dict(pattern="aaaacgt", pat_fwd=True), wp, tag="fixed:pattern-only-forward-ignored"))
    cases.append(mk(dict(pattern="acgaacgtac", pat_err=1), wp))
    cases.append(mk(dict(pattern="acgaacgtac", pat_err=0), wp))
    cases.append(mk(dict(pattern="acgacgtac", pat_err=1, pat_indel=True), wp))
    cases.append(mk(dict(pattern="acgacgtac", pat_err=1), wp))
    cases.append(mk(dict(pattern="acgtacgt", pattern_name="foo"), wp))
    cases.append(mk(dict(pattern="acgtacgt", pattern_name="pattern"), wp))
    cases.append(mk(dict(aho=["acg", "GTA", "", "cgtacg"]), wp))
    cases.append(mk(dict(aho=["zzz"]), wp))
    for fam in ANNOT_FAMS:
        for _ in range(3):
            ds = annot_ds(rng, datasets, [fam])
            for _ in range(20):
                o = gen_annot_option(rng, ds, fam)
                if not annot_conflict(o):       # e.g. -S k=42 -S c=annotations.k: the result depends on Go's map order
                    cases.append(mk(o, ds))
                    break
    for f1, f2 in itertools.combinations(ANNOT_FAMS, 2):
        for _ in range(20):
            ds = annot_ds(rng, datasets, [f1, f2], fastq_ok=False)
            o = merge_annot(gen_annot_option(rng, ds, f1), gen_annot_option(rng, ds, f2))
            if not annot_conflict(o):
                cases.append(mk(o, ds))
                break
    for _ in range(nrandom):
        for _ in range(20):
            fams = rng.sample(ANNOT_FAMS, rng.randrange(3, 8))
            ds = annot_ds(rng, datasets, fams) if rng.random() < 0.8 else rng.choice(datasets["fastq"] if not any(f in TAX_FAMS for f in fams) else datasets["tax"])
            o = {}
            for fam in fams:
                merge_annot(o, gen_annot_option(rng, ds, fam))
            if annot_conflict(o):
                continue
            if rng.random() < 0.5:
                o["shuffle"] = rng.randrange(1 << 30)
            kw = {}
            if rng.random() < 0.3:
                kw["sel"] = gen_sel(rng, ds)
            cases.append(mk(o, ds, **kw))
            break
    # selection alone / with one edit, every selection family
    for fam in [f for f in GREP_FAMS if f not in ("save_discarded",)]:
        ds = rng.choice(datasets["tax"])
        cases.append(mk(dict(length=True, settag={"a": ("int", 1)}), ds, sel=gen_single_option(rng, ds, fam)))
        cases.append(mk(dict(), ds, sel=gen_single_option(rng, ds, fam)))
    for cpu, batch in grid:
        ds = datasets["plain"][-1]
        cases.append(mk(dict(settag={"a": ("lenplus", 1), "b": ("str", "foo")}, cut=[2, 9], length=True), ds, cpu=cpu, batch=batch))
        cases.append(mk(dict(length=True), ds, cpu=cpu, batch=batch, sel=dict(minlen=9)))
    # ---- round 3
    # every worker of the chain under several goroutines and many small batches (state shared between the closures of a
    # worker shows up only there): a long input, batch sizes 1-3, 8 workers
    long_ds = [dict(r, id="%s_%d" % (r["id"], j), attrs=dict(r["attrs"])) for j in range(6 if ctx.quick else 40) for r in datasets["plain"][-1]]
    for o in (dict(keep=["k", "n"]), dict(keep=["count"], delete=["k"], length=True), dict(delete=["k", "tag"], rename={"nn": "n"}, settag={"a": ("attr", "sample")}),
              dict(clear=True, settag={"a": ("printf",)}, cut=[-5, -1])):
        for batch in (1, 2, 3):
            cases.append(mk(o, long_ds, cpu=8, batch=batch, tag="workers-stress"))
    for cpu, batch in ((4, 1), (16, 1), (8, 1), (16, 2), (4, 2), (8, 1)):       # the --keep worker again (collect-then-delete loop over the attributes)
        cases.append(mk(dict(keep=rng.sample(["k", "n", "count", "tag", "sample"], 2)), long_ds, cpu=cpu, batch=batch, tag="workers-stress"))
    for io in IO_MODES:
        cases.append(mk(dict(length=True, cut=[2, -2], settag={"a": ("attr", "k")}), datasets["plain"][-1], io=io, batch=3, tag="io:" + io))
        cases.append(mk(dict(keep=["k", "count"], rename={"kk": "k"}), rng.choice(datasets["plain"] + datasets["fastq"]), io=io, batch=rng.choice([1, 2, 5]), sel=dict(minlen=6), tag="io:" + io))
    for bad in (["--cut", "3"], ["--cut=a:5"], ["--cut=3:b"], ["--pattern", "ac[gt"], ["-S", "a=sequence.Len( +"], ["--set-identifier", "(("], ["-S", "a"], ["-R", "a"],
                ["--with-taxon-at-rank", "genus"], ["-s", "a[c"], ["--aho-corasick", "/tmp"]):
        cases.append(mk(dict(length=True, bad_argv=bad, refuse=True), w, tag="refuse"))
    # conversions that cannot succeed (language.go int / numeric / bool): the command stops, or at least writes no record with a made-up value
    for bad in (["-S", 'a=int("abc")'], ["-S", 'a=numeric("abc")'], ["-S", 'a=bool("abc")']):
        cases.append(mk(dict(bad_argv=bad, refuse="or-empty"), w, tag="refuse"))
    return cases


def gen_dist_cases(ctx, datasets, nrandom, grid):
    rng = ctx.rng
    cases = []
    big = datasets["plain"][-1]

    def mk(o, ds=None, **kw):
        return dict(tool="dist", opts=o, ds=ds if ds is not None else rng.choice(datasets["plain"]), **kw)
    for k in SKEYS + IKEYS + ["nokey"]:
        cases.append(mk(dict(classifier=k)))
        cases.append(mk(dict(classifier=k, na="none")))
    cases.append(mk(dict(classifier="k", directory="tag")))
    cases.append(mk(dict(classifier="sample", directory="n")))
    for n in (1, 2, 3, 7):
        cases.append(mk(dict(batches=n)))
        cases.append(mk(dict(hash=n)))
    for _ in range(nrandom):
        k = rng.random()
        if k < 0.5:
            o = dict(classifier=rng.choice(SKEYS + IKEYS))
            if rng.random() < 0.3:
                o["directory"] = rng.choice(SKEYS)
        elif k < 0.75:
            o = dict(batches=rng.randrange(1, 9))
        else:
            o = dict(hash=rng.randrange(1, 9))
        cases.append(mk(o, rng.choice(datasets["plain"] + datasets["fastq"])))
    big = datasets["plain"][-1]
    for batch in (1, 2, 3, 4, 7):
        for key in ("k", "sample"):
            grouped = sorted(big, key=lambda r: str(r["attrs"].get(key, "")))      # long runs of one class: its buffer fills several times in a run
            cases.append(mk(dict(classifier=key), grouped, cpu=rng.choice([1, 2, 4]), batch=batch, tag="runs-over-batch-boundary"))
        cases.append(mk(dict(classifier="nokey"), big, cpu=2, batch=batch, tag="runs-over-batch-boundary"))       # a single class
        cases.append(mk(dict(batches=2), big, cpu=2, batch=batch))
    for cpu, batch in grid:
        cases.append(mk(dict(classifier="k"), datasets["plain"][-1], cpu=cpu, batch=batch))
        cases.append(mk(dict(batches=3), datasets["plain"][-1], cpu=cpu, batch=batch))
    # ---- round 3: boolean / float classifier values, output format options, --append, -Z, stdin / several files
    for k in XKEYS:
        cases.append(mk(dict(classifier=k)))
        cases.append(mk(dict(classifier="k", directory=k)))
    fq = datasets["fastq"][0]
    for base in (dict(classifier="k"), dict(batches=3), dict(hash=4), dict(classifier="sample", directory="tag")):
        cases.append(mk(dict(base, out_format="fasta"), fq, tag="format"))
        cases.append(mk(dict(base, out_format="fastq"), fq, tag="format"))
        cases.append(mk(dict(base, out_format="fasta"), tag="format"))
        cases.append(mk(dict(base, compress=True), rng.choice([fq, big]), batch=rng.choice([1, 3, 5]), tag="compress"))
        cases.append(mk(dict(base, runs=2, append=True), rng.choice([fq, big]), batch=rng.choice([2, 5]), tag="append"))
        cases.append(mk(dict(base, runs=3, append=True, compress=True), tag="append"))
        cases.append(mk(dict(base, runs=2), tag="no-append"))
    for base in (dict(classifier="k"), dict(classifier="n", directory="sample"), dict(batches=2)):
        cases.append(mk(dict(base, header="obi"), rng.choice(datasets["plain"]), tag="header"))
        cases.append(mk(dict(base, header="json"), rng.choice(datasets["plain"]), tag="header"))
    # the value chosen as directory is the name of an existing FILE: the command must stop, not lose the records
    wd = [dict(id="d1", attrs={"k": "a", "tag": "taken"}, seq="acgt"), dict(id="d2", attrs={"k": "b", "tag": "free"}, seq="acgtt")]
    cases.append(mk(dict(classifier="k", directory="tag", precreate="taken", refuse=True), wd, tag="refuse"))
    for io in ("stdin", "two-files", "gz-in", "one-cpu"):
        cases.append(mk(dict(classifier="k"), big, io=io, batch=3, tag="io:" + io))
        cases.append(mk(dict(batches=4), big, io=io, batch=2, tag="io:" + io))
    return cases


# ------------------------------------------------------------------ oracle

def rec_key(r):
    return json.dumps([r["id"], sorted((k, canon_val(v)) for k, v in r["attrs"].items()), r["seq"], r.get("qual")], sort_keys=True, default=str)


def check_grep(case, res):
    """-> (ok, detail, known_key)"""
    o, ds, mates = case["opts"], case["ds"], case.get("mates")
    if o.get("refuse"):
        return refused(case, res)
    if res["rc"] != 0:
        return False, "exit %s: %s" % (res["rc"], res.get("err", "")[-300:]), None
    exp = [spec_keep(o, r, mates[i] if mates else None) for i, r in enumerate(ds)]
    exp_out = [rec_key(r) for r, k in zip(ds, exp) if k]
    exp_disc = [rec_key(r) for r, k in zip(ds, exp) if not k]
    got_out = [rec_key(r) for r in res["out"]]
    problems = []
    if sorted(got_out) != sorted(exp_out):
        problems.append("kept set differs: got ids %s expected ids %s" % ([r["id"] for r in res["out"]], [r["id"] for r, k in zip(ds, exp) if k]))
    if o.get("save_discarded"):
        got_disc = [rec_key(r) for r in res.get("disc", [])]
        if sorted(got_disc) != sorted(exp_disc):
            problems.append("discarded file differs: got ids %s expected ids %s" % ([r["id"] for r in res.get("disc", [])], [r["id"] for r, k in zip(ds, exp) if not k]))
        if sorted(got_out + got_disc) != sorted(rec_key(r) for r in ds):
            problems.append("kept + discarded is not the input")
    if mates:
        # both mates kept or dropped together, same rank in the two files
        pos = {r["id"]: i for i, r in enumerate(ds)}
        r1 = [pos.get(r["id"]) for r in res["out"]]
        exp2 = [rec_key(mates[i]) if i is not None else None for i in r1]
        if [rec_key(r) for r in res.get("out2", [])] != exp2:
            problems.append("R2 is not the mates of R1 rank by rank")
        if o.get("save_discarded"):
            d1 = [pos.get(r["id"]) for r in res.get("disc", [])]
            if [rec_key(r) for r in res.get("disc2", [])] != [rec_key(mates[i]) if i is not None else None for i in d1]:
                problems.append("discarded R2 is not the mates of discarded R1")
    if not problems:
        return True, None, None
    key = None
    if not effective(o) and (o.get("invert") or (mates and o.get("mode") in ("andnot", "xor"))) and \
            sorted(got_out) == sorted(rec_key(r) for r in ds):
        key = "nil-predicate-shortcut"
    return False, "; ".join(problems), key


def refused(case, res):
    """a criterion / edit that cannot be understood (bad regular expression, bad expression, unknown paired mode, missing
    identifier file, malformed --cut ...) must stop the command with a non-zero status: going on would silently ignore a
    requested criterion"""
    if res["rc"] == 0 and case["opts"]["refuse"] == "or-empty" and not res.get("out"):
        return True, None, None
    if res["rc"] in (0, None):
        return False, "the command accepted %s (exit 0, %d records written) instead of refusing it" % (case["opts"].get("bad_argv") or case["opts"], len(res.get("out", []))), None
    if res["rc"] == "timeout":
        return False, "the command hangs on %s" % case["opts"].get("bad_argv"), None
    return True, None, None


def check_annot(case, res):
    o, ds = case["opts"], case["ds"]
    if o.get("refuse"):
        return refused(case, res)
    if res["rc"] != 0:
        return False, "exit %s: %s" % (res["rc"], res.get("err", "")[-300:]), None
    exp = []
    for r in ds:
        exp += spec_annot(o, r, case.get("sel"))
    if o.get("pattern") and o.get("pat_indel"):
        sel = case.get("sel")
        why = pattern_indel_ok(o, exp, res["out"], set(rec_key(r) for r in ds if sel is not None and not spec_single(sel, r)))
        return (why is None), why, None
    got = sorted(rec_key(r) for r in res["out"])
    if got == sorted(rec_key(r) for r in exp):
        return True, None, None
    nan_ids = {r["id"] for r in exp if any(isinstance(v, float) and v != v for v in r["attrs"].values())}
    if nan_ids:
        byid = {r["id"]: r for r in res["out"]}
        rest_ok = sorted(rec_key(r) for r in res["out"] if r["id"] not in nan_ids) == sorted(rec_key(r) for r in exp if r["id"] not in nan_ids)
        if rest_ok and all(i in byid and not byid[i]["attrs"] for i in nan_ids):
            return False, "records whose new attribute is NaN are written without any attribute: %s" % sorted(nan_ids), "gcskew-nan"
    if exp and "qual" in exp[0] and all("qual" not in r for r in res["out"]) and \
            got == sorted(rec_key({k: v for k, v in r.items() if k != "qual"}) for r in exp):
        return False, "FASTQ input written as FASTA: every record and edit is right but the qualities are lost", "fastq-written-as-fasta"
    return False, "output records differ: got %s expected %s" % ([(r["id"], r["attrs"], r["seq"]) for r in res["out"]][:6], [(r["id"], r["attrs"], r["seq"]) for r in exp][:6]), None


def check_dist(case, res):
    o, ds = case["opts"], case["ds"]
    if o.get("refuse"):
        return refused(case, res)
    if res["rc"] != 0:
        return False, "exit %s: %s" % (res["rc"], res.get("err", "")[-300:]), None
    ext = "fastq" if "qual" in ds[0] else "fasta"
    noqual = o.get("out_format") == "fasta"          # --fasta-output: the records without their qualities
    key = (lambda r: rec_key({k: v for k, v in r.items() if k != "qual"})) if noqual else rec_key
    if o.get("header") == "obi":        # OBI title lines: every value compared as the text written (fmt.Sprint)
        key = lambda r: rec_key(dict(r, attrs={k: sprint(v) for k, v in r["attrs"].items()}))
    exp = {}
    times = o.get("runs", 1) if o.get("append") else 1       # --append: every run adds its records; otherwise the last run replaces the files
    for _ in range(times):
        for i, r in enumerate(ds):
            v1, v2 = route_ref(o, r, i)
            name = "part_%s.%s%s" % (v1, ext, ".gz" if o.get("compress") else "")
            if v2:
                name = os.path.join(v2, name)
            exp.setdefault(name, []).append(key(r))
    got = {k: [rec_key(r) for r in v] for k, v in res["files"].items()}
    if o.get("out_format") == "fastq" and "qual" in ds[0] and any("qual" not in r for v in res["files"].values() for r in v):
        return False, "--fastq-output: records written without qualities", None
    allgot = sorted(x for v in got.values() for x in v)
    if allgot != sorted(key(r) for r in ds for _ in range(times)):
        return False, "the outputs are not a partition of the input (%d records out, %d in)" % (len(allgot), len(ds)), None
    if {k: sorted(v) for k, v in got.items()} != {k: sorted(v) for k, v in exp.items()}:
        return False, "records routed to the wrong file: got %s expected %s" % ({k: len(v) for k, v in got.items()}, {k: len(v) for k, v in exp.items()}), None
    if got != exp:
        bad = [k for k in exp if got[k] != exp[k]]
        return False, "records of %s are not in input order" % bad[:3], None
    return True, None, None


def orig_id(rid):
    return rid.split("_sub[")[0]


def check_mux(case, res):
    """obimultiplex -u: every read reaches exactly one of (stdout, unidentified file); the choice is the one of the
    reference run (case["ref"]: id -> "out"|"unid", taken from a 1-worker run on the records in another order)."""
    if res["rc"] != 0:
        return False, "exit %s: %s" % (res["rc"], res.get("err", "")[-300:]), None
    ids = sorted(r["id"] for r in case["ds"])
    if case["opts"].get("keep_errors"):
        # --keep-errors: unidentified reads are written to both? no: stdout keeps every read, the file still receives the unidentified ones
        pass
    got_out = [orig_id(r["id"]) for r in res["out"]]
    got_unid = [orig_id(r["id"]) for r in res["unid"]]
    if case["opts"].get("no_unid"):
        # without -u: stdout = the assigned reads only (same reads as with -u); --keep-errors: every read, the unassigned ones marked
        ref = case.get("ref") or {}
        want = sorted(x for x in ids if case["opts"].get("keep_errors") or ref.get(x) == "out")
        if sorted(got_out) != want:
            return False, "without -u%s: %d records on stdout, expected the %d %s reads (missing %s, unexpected %s)" % (
                " --keep-errors" if case["opts"].get("keep_errors") else "", len(got_out), len(want), "input" if case["opts"].get("keep_errors") else "assigned",
                sorted(set(want) - set(got_out))[:5], sorted(set(got_out) - set(want))[:5]), None
        bad = [r["id"] for r in res["out"] if ("obimultiplex_error" in r["attrs"]) != (ref.get(orig_id(r["id"])) == "unid")]
        if bad:
            return False, "reads whose obimultiplex_error mark disagrees with the run with -u: %s" % bad[:5], None
        return True, None, None
    if sorted(got_out + got_unid) != ids:
        return False, "assigned + unidentified is not the input: %d + %d records for %d reads (missing %s, twice %s)" % (
            len(got_out), len(got_unid), len(ids), sorted(set(ids) - set(got_out + got_unid))[:5],
            sorted({x for x in got_out + got_unid if (got_out + got_unid).count(x) > 1})[:5]), None
    bad = [r["id"] for r in res["unid"] if "obimultiplex_error" not in r["attrs"]] + [r["id"] for r in res["out"] if "obimultiplex_error" in r["attrs"]]
    if bad:
        return False, "records on the wrong side of the obimultiplex_error split: %s" % bad[:5], None
    ref = case.get("ref")
    if ref:
        diff = [x for x in got_out if ref.get(x) != "out"] + [x for x in got_unid if ref.get(x) != "unid"]
        if diff:
            return False, "routing depends on more than the record: %s routed differently from the reference run" % diff[:6], None
    return True, None, None


CHECK = dict(grep=check_grep, annot=check_annot, dist=check_dist, mux=check_mux)


def revcomp(s):
    return s[::-1].translate(str.maketrans("acgt", "tgca"))


def gen_mux(rng, n):
    tags = ["aattaac", "gaagtag", "gaatatc", "gcctcct"]
    F, R = "ttagataccccactatgc", "tagaacaggctcctctag"
    ngs = "".join("exp\tsample%d\t%s\t%s\t%s\tF\t@\n" % (i, t, F.upper(), R.upper()) for i, t in enumerate(tags))
    recs = []
    for i in range(n):
        ins = "".join(rng.choice("acgt") for _ in range(rng.randrange(15, 50)))
        k = rng.random()
        t = rng.choice(tags)
        if k < 0.45:
            s = t + F + ins + revcomp(R) + revcomp(t)
        elif k < 0.6:
            s = revcomp(t + F + ins + revcomp(R) + revcomp(t))
        elif k < 0.7:
            s = "acgtacg" + F + ins + revcomp(R) + "cgtacgt"            # unknown tag
        elif k < 0.8:
            f2 = list(F)
            f2[rng.randrange(len(f2))] = "n"
            s = t + "".join(f2).replace("n", rng.choice("acgt")) + ins + revcomp(R) + revcomp(t)   # one mismatch in the primer
        elif k < 0.9:
            s = t + F + ins                                              # reverse primer missing
        else:
            s = "".join(rng.choice("acgt") for _ in range(rng.randrange(30, 90)))
        recs.append(dict(id="m%03d" % i, attrs={}, seq=s))
    return ngs, recs


def gen_mux_cases(ctx, grid, nshuffle, nstress):
    rng = ctx.rng
    ngs, recs = gen_mux(rng, 60)
    base = dict(tool="mux", opts={}, ds=recs, ngs=ngs, cpu=1, batch=1000, tag="reference")
    cases = [base]
    for cpu, batch in grid:
        cases.append(dict(tool="mux", opts={}, ds=recs, ngs=ngs, cpu=cpu, batch=batch))
    for _ in range(nshuffle):
        sh = list(recs)
        rng.shuffle(sh)
        cases.append(dict(tool="mux", opts={}, ds=sh, ngs=ngs, cpu=rng.choice([1, 2, 4]), batch=rng.choice([1, 3, 7, 100])))
        sub = [r for r in recs if rng.random() < 0.4] or recs[:1]
        cases.append(dict(tool="mux", opts={}, ds=sub, ngs=ngs, cpu=rng.choice([1, 2, 4]), batch=rng.choice([1, 3, 7, 100])))
    for r in recs[:6]:
        cases.append(dict(tool="mux", opts={}, ds=[r], ngs=ngs))
    # ---- round 3: without -u (the unassigned reads are dropped / kept marked with --keep-errors): same verdict per read as with -u
    for cpu, batch in grid[:6]:
        cases.append(dict(tool="mux", opts=dict(no_unid=True), ds=recs, ngs=ngs, cpu=cpu, batch=batch, tag="no-unidentified-file"))
        cases.append(dict(tool="mux", opts=dict(no_unid=True, keep_errors=True), ds=recs, ngs=ngs, cpu=cpu, batch=batch, tag="keep-errors"))
    cases.append(dict(tool="mux", opts=dict(keep_errors=True), ds=recs, ngs=ngs, cpu=2, batch=7, tag="keep-errors"))
    # reads that went through obimultiplex before (the unidentified file of an earlier run given again, with another
    # sample sheet): the verdict of the earlier run they carry must not decide the routing of this run
    for k in range(3):
        stale = [dict(r, attrs=dict(r["attrs"], **({"obimultiplex_error": "No barcode identified"} if (i + k) % 2 == 0 else {}))) for i, r in enumerate(recs)]
        cases.append(dict(tool="mux", opts={}, ds=stale, ngs=ngs, cpu=rng.choice([1, 2, 4]), batch=rng.choice([3, 7, 100]), tag="fixed:stale-obimultiplex-error"))
    cases.append(dict(tool="mux", opts=dict(no_unid=True), ds=stale, ngs=ngs, cpu=2, batch=7, tag="fixed:stale-obimultiplex-error"))
    tiny = recs[:8]
    for _ in range(nstress):           # witness of the exit race of the unidentified-reads writer (fixed)
        cases.append(dict(tool="mux", opts={}, ds=tiny, ngs=ngs, cpu=2, batch=5, tag="fixed:unidentified-writer-exit-race"))
    return cases

# ------------------------------------------------------------------ Gallina rendering

def cs(s):
    return '"%s"' % str(s).replace('"', '""')


def cz(z):
    return "(%d)" % z if z < 0 else "%d" % z


def clist(l):
    return "[" + "; ".join(l) + "]"


def cval(v):
    if isinstance(v, bool):
        return "VS %s" % cs(sprint(v))
    if isinstance(v, int):
        return "VI %s" % cz(v)
    if isinstance(v, dict):
        return "VM %s" % clist("(%s, %s)" % (cs(k), cz(x)) for k, x in sorted(v.items()))
    return "VS %s" % cs(v)


def crec(r):
    return "mkr %s %s %s" % (cs(r["id"]), clist("(%s, %s)" % (cs(k), cval(v)) for k, v in sorted(r["attrs"].items())), cs(r["seq"]))


def cpat(p, ci=False):
    st, atoms, en = parse_pat(p)
    at = []
    for a in atoms:
        if a[0] == "l":
            at.append("ALit %s" % cs(a[1]))
        elif a[0] == "c":
            at.append("ACls %s" % cs(a[1]))
        else:
            at.append("AAny")
    return "(mkp %s %s %s %s)" % (cb(st), clist(at), cb(en), cb(ci))


def cb(b):
    return "true" if b else "false"


def cpexpr(e):
    k = e[0]
    if k == "true":
        return "PTrue"
    if k == "false":
        return "PFalse"
    if k == "lenge":
        return "(PLenGe %s)" % cz(e[1])
    if k == "lenle":
        return "(PLenLe %s)" % cz(e[1])
    if k == "counteq":
        return "(PCountEq %s)" % cz(e[1])
    if k == "ideq":
        return "(PIdEq %s)" % cs(e[1])
    if k == "has":
        return "(PHas %s)" % cs(e[1])
    if k == "and":
        return "(PAnd %s %s)" % (cpexpr(e[1]), cpexpr(e[2]))
    if k == "or":
        return "(POr %s %s)" % (cpexpr(e[1]), cpexpr(e[2]))
    if k == "nattrge":
        return "(PNAttrGe %s)" % cz(e[1])
    if k == "ismap":
        return "(PIsMap %s)" % cs(e[1])
    if k == "attrgt":
        return "(PAttrGt %s %s)" % (cs(e[1]), cz(e[2]))
    if k == "iflen":
        return "(PIfLen %s)" % cz(e[1])
    if k == "notin":
        return "PTrue"
    return "(PNot %s)" % cpexpr(e[1])


def cvexpr(e):
    k = e[0]
    return dict(int=lambda: "(EInt %s)" % cz(e[1]), str=lambda: "(EStr %s)" % cs(e[1]), lenplus=lambda: "(ELenPlus %s)" % cz(e[1]),
                counttimes=lambda: "(ECountTimes %s)" % cz(e[1]), id=lambda: "EId", idsuffix=lambda: "(EIdSuffix %s)" % cs(e[1]),
                attr=lambda: "(EAttr %s)" % cs(e[1]), iflen=lambda: "(EIfLen %s %s %s)" % (cz(e[1]), cs(e[2]), cs(e[3])), printf=lambda: "EPrintf",
                halflen=lambda: "EHalfLen", subspc=lambda: "(EStr %s)" % cs(e[1].replace(" ", "_")))[k]()


def cgopts(o):
    def zz(k, d):
        v = o.get(k)
        return cz(d if v is None else v)
    return "(mkg2 %s %s %s %s %s %s %s %s %s %s %s %s %s %s %s %s %s %s %s %s)" % (
        zz("minlen", 1), zz("maxlen", SENT), zz("mincount", 1), zz("maxcount", SENT),
        clist(cpat(p, True) for p in o.get("seqpats", [])), clist(cpat(p) for p in o.get("defpats", [])), clist(cpat(p) for p in o.get("idpats", [])),
        clist(cpexpr(e) for e in o.get("preds", [])), clist(cs(k) for k in o.get("hasattr", [])),
        clist("(%s, %s)" % (cs(k), cpat(p)) for k, p in o.get("attrpats", {}).items()),
        "None" if o.get("idlist") is None else "(Some %s)" % clist(cs(x.strip()) for x in o["idlist"]),
        cb(o.get("invert")), "M" + o.get("mode", "forward").capitalize().replace("Andnot", "AndNot"),
        clist("TRank %s" % cs(x) for x in o.get("ranks", [])), clist(("TSlot %s" % cs(x)) if isinstance(x, str) else "TSub %d" % x for x in o.get("restrict", [])), clist("TSub %d" % x for x in o.get("ignore", [])),
        clist(cs(p) for p in o.get("approx", [])), cz(o.get("pat_err") or 0), cb(o.get("pat_indel")), cb(o.get("pat_fwd")))


def caopts(o):
    return "(mka2 %s %s %s %s %s %s %s %s %s %s %s %s %s %s %s %s %s %s %s)" % (
        cb(o.get("clear")), "None" if o.get("setid") is None else "(Some %s)" % cvexpr(o["setid"]),
        clist(cs(k) for k in o.get("delete", [])), clist(cs(k) for k in o.get("keep", [])),
        clist("(%s, %s)" % (cs(n), cs(ol)) for n, ol in o.get("rename", {}).items()), cb(o.get("length")),
        clist("(%s, %s)" % (cs(k), cvexpr(e)) for k, e in o.get("settag", {}).items()),
        "None" if o.get("cut") is None else "(Some (%s, %s))" % (cz(o["cut"][0]), cz(o["cut"][1])),
        clist(cs(k) for k in o.get("taxrank", [])), cb(o.get("taxpath")), cb(o.get("taxrankname")), cb(o.get("sciname")), cs(o.get("lca") or ""),
        "None" if o.get("aho") is None else "(Some %s)" % clist(cs(x) for x in o["aho"]),
        "None" if not o.get("pattern") else "(Some %s)" % cs(o["pattern"]), cs("pattern" if o.get("pattern_name") is None else o["pattern_name"]),
        cz(o.get("pat_err") or 0), cb(o.get("pat_fwd")), cb(o.get("pat_indel")))


def case_term(case, res, dsname):
    """One correspondence case: inputs + what the implementation did (projected observables)."""
    o, ds = case["opts"], case["ds"]
    if case["tool"] == "grep":
        kept = {r["id"] for r in res["out"]}
        mates = case.get("mates")
        return "CGrep %s %s %s %s" % (cgopts(o), dsname[id(ds)], ("(Some %s)" % dsname[id(mates)]) if mates else "None",
                                      clist(cb(r["id"] in kept) for r in ds))
    if case["tool"] == "mux":
        # the reads as they leave the barcode worker, in input order, projected on the attribute the routing looks at
        by = {}
        for rs in (res["out"], res.get("unid", [])):
            for r in rs:
                by.setdefault(orig_id(r["id"]), []).append(r)
        reads = [x for r in ds for x in by.get(r["id"], [])]
        return "CMux %d %s %s %s %s %s" % (
            case.get("batch", 5), cb(not o.get("no_unid")), cb(o.get("keep_errors")),
            clist("mkr %s %s %s" % (cs(x["id"]), clist(["(%s, %s)" % (cs("obimultiplex_error"), cval(x["attrs"]["obimultiplex_error"]))] if "obimultiplex_error" in x["attrs"] else []), cs("")) for x in reads),
            clist(cs(x["id"]) for x in res.get("unid", [])), clist(cs(x["id"]) for x in res["out"]))
    if case["tool"] == "annot":
        exp = []
        for r in ds:
            exp += spec_annot(o, r, case.get("sel"))
        got = res["out"]
        if sorted(rec_key(r) for r in got) == sorted(rec_key(r) for r in exp):
            got = exp       # same multiset: present it in input order (output order is C03's business)
        return "CAnnot %s %s %s %s" % (caopts(o), "None" if case.get("sel") is None else "(Some %s)" % cgopts(case["sel"]), dsname[id(ds)], clist(crec(r) for r in got))
    # dist: observed file of each record, by (value, directory)
    where = {}
    for fn, rs in res["files"].items():
        d, b = os.path.split(fn)
        v = b[len("part_"):].rsplit(".", 1)[0]
        for r in rs:
            where[r["id"]] = (v, d)
    o2 = "(DClass %s %s %s)" % (cs(o["classifier"]), cs(o.get("directory", "")), cs(o.get("na", "NA"))) if o.get("classifier") else \
        ("(DRotate %d)" % o["batches"] if o.get("batches") else "(DHash %d)" % o["hash"])
    files = []
    for fn, rs in sorted(res["files"].items()):
        d, b = os.path.split(fn)
        files.append("((%s, %s), %s)" % (cs(b[len("part_"):].rsplit(".", 1)[0]), cs(d), clist(cs(r["id"]) for r in rs)))
    return "CDist %s %d %s %s %s" % (o2, case.get("batch", 5), dsname[id(ds)], clist("(%s, %s)" % (cs(where.get(r["id"], ("?", "?"))[0]), cs(where.get(r["id"], ("?", "?"))[1])) for r in ds),
                                     clist(files))


IMPORTS = "From Coq Require Import ZArith List String Ascii Bool. Import ListNotations. Open Scope string_scope. Open Scope list_scope. Open Scope Z_scope.\nFrom OBI.C16 Require Import Model.\n"


def in_model(c):
    """cases the Coq model can evaluate"""
    o = c["opts"]
    if o.get("refuse") or o.get("out_format") or o.get("compress") or o.get("runs") or o.get("header") or o.get("precreate"):
        return False            # refusals / file-format variants of obidistribute: oracle only
    for g in (o if c["tool"] == "grep" else {}, c.get("sel") or {}):
        if any(pexpr_float(e) for e in g.get("preds", [])):
            return False        # gc(): floating point, oracle only
    if c["tool"] == "annot":
        if any(e[0] in VEXPR_ORACLE_ONLY for e in list(o.get("settag", {}).values()) + ([o["setid"]] if o.get("setid") is not None else [])):
            return False        # gsub / replace / gc / composition: oracle only
        if o.get("pattern") and o.get("pat_indel"):
            return False        # BestMatch with indels re-aligns the occurrence (C10): oracle only
        if "qualities" in o.get("rename", {}).values() and "qual" in c["ds"][0]:
            return False        # the model has no quality strings
    return True


def correspond(ctx, label, cases, results, broken):
    idx = [i for i, (c, r) in enumerate(zip(cases, results)) if r["rc"] == 0 and not (c["tool"] == "dist" and c["opts"].get("hash")) and in_model(c)
           and c.get("tag") != "workers-stress"]          # the long inputs of the goroutine stress: oracle only (the same option sets are evaluated on short inputs)
    cap = 600 if ctx.quick else 3000         # the oracle judges every run; the model is evaluated on the corpus + a sample beyond the cap
    if len(idx) > cap:
        tagged = [i for i in idx if cases[i].get("tag") and not str(cases[i]["tag"]).endswith("exit-race")]       # the corpus witnesses are always evaluated
        rest = [i for i in idx if i not in set(tagged)]
        keep = set(tagged) | set(ctx.rng.sample(rest, max(0, min(len(rest), cap - len(tagged)))))
        ctx.cov["correspondence_sampled"] = "%d of %d eligible runs" % (len(keep), len(idx))
        idx = [i for i in idx if i in keep]
    bad_all = []
    shard = 25                               # ~350 MB per coqc: small shards keep the memory footprint low on a loaded machine
    # data sets are defined once per shard (the terms refer to them by name)
    from concurrent.futures import ThreadPoolExecutor
    jobs = []
    for k in range(0, len(idx), shard):
        part = idx[k:k + shard]
        dsname, defs = {}, []
        for i in part:
            if cases[i]["tool"] == "mux":
                continue
            for ds in (cases[i]["ds"], cases[i].get("mates")):
                if ds is not None and id(ds) not in dsname:
                    dsname[id(ds)] = "ds%d" % len(dsname)
                    defs.append("Definition %s : list arec := %s." % (dsname[id(ds)], clist(crec(r) for r in ds)))
        terms = [case_term(cases[i], results[i], dsname) for i in part]
        jobs.append((part, IMPORTS + "\n".join(defs), terms, "%s_%d" % (label, k // shard)))
    for part, imports, terms, name in jobs:
        pass
    with ThreadPoolExecutor(max_workers=8) as ex:
        outs = list(ex.map(lambda j: ctx.correspond(j[3], j[1], j[2], shard=10 ** 6), jobs))
    import time
    for j, (bad, err) in zip(jobs, list(outs)):
        for attempt in range(3):    # a shard killed from outside (loaded machine, OOM killer): evaluate it again, alone
            if outs[jobs.index(j)][0] is None and "Error" not in (outs[jobs.index(j)][1] or ""):
                ctx.cov["shards_retried"] = ctx.cov.get("shards_retried", 0) + 1
                time.sleep(2 + 5 * attempt)
                outs[jobs.index(j)] = ctx.correspond(j[3] + "r%d" % attempt, j[1], j[2], shard=10 ** 6)
    for (part, _, _, _), (bad, err) in zip(jobs, outs):
        if bad is None:
            broken.append(dict(kind="correspondence", detail=err))
            return None
        bad_all += [part[b] for b in bad]
    return bad_all


# ------------------------------------------------------------------ main

def make_datasets(ctx):
    rng = ctx.rng
    n = 14 if ctx.quick else 30
    plain = [gen_dataset(rng, n) for _ in range(4)] + [gen_dataset(rng, 41)]
    fastq = [gen_dataset(rng, n, fastq=True) for _ in range(2)]
    tax = [gen_dataset(rng, n, all_taxid=True) for _ in range(3)]
    paired = []
    for _ in range(3):
        f = gen_dataset(rng, n, prefix="p")
        r = gen_dataset(rng, n, prefix="p")
        for a, b in zip(f, r):
            b["id"] = a["id"]
        paired.append((f, r))
    # a paired FASTQ data set (qualities of both mates must follow them into _R1 / _R2) and a longer paired FASTA one
    f = gen_dataset(rng, n, prefix="p", fastq=True)
    r = gen_dataset(rng, n, prefix="p", fastq=True)
    for a, b in zip(f, r):
        b["id"] = a["id"]
    paired.insert(0, (f, r))
    f = gen_dataset(rng, 33, prefix="p")
    r = gen_dataset(rng, 33, prefix="p")
    for a, b in zip(f, r):
        b["id"] = a["id"]
    paired.append((f, r))
    return dict(plain=plain, fastq=fastq, paired=paired, tax=tax)


def strip_case(c):
    return {k: v for k, v in c.items()}


def evaluate(ctx, cases, broken, label, bindir):
    import time
    t0 = time.time()
    runner = Runner(ctx, bindir)
    try:
        results = runner.run_all(cases)
    finally:
        runner.close()
    ctx.cov.setdefault("phase_s", {})["run_commands"] = round(time.time() - t0, 1)
    nviol = 0
    per_class = {}
    failing = []
    ref = None
    for c, res in zip(cases, results):
        if c["tool"] == "mux" and c.get("tag") == "reference" and res["rc"] == 0:
            ref = dict([(orig_id(r["id"]), "out") for r in res["out"]] + [(orig_id(r["id"]), "unid") for r in res["unid"]])
    for i, (c, res) in enumerate(zip(cases, results)):
        if c["tool"] == "mux" and ref is not None and "ref" not in c:
            c["ref"] = ref
        ok, detail, key = CHECK[c["tool"]](c, res)
        if ok:
            continue
        failing.append(i)
        if os.environ.get("C16_DEBUG"):          # triage aid: C16_DEBUG=FILE lists EVERY failing run (violations are capped at MAX_VIOL replays)
            open(os.environ["C16_DEBUG"], "a").write(json.dumps(dict(i=i, tool=c["tool"], tag=c.get("tag"), opts=c["opts"], sel=c.get("sel"), key=key, what=(detail or "")[:400], argv=res.get("argv")), default=str) + "\n")
        if key and key in KNOWN_TEXT and ctx.kf_match(key):
            ctx.known(key, KNOWN_TEXT[key])
            continue
        nviol += 1
        klass = (c["tool"], (c.get("tag") or "")[:40], tuple(sorted(k for k in c["opts"] if k in ("maxcount", "settag", "cut", "save_discarded", "invert"))) if nviol > 2 else nviol)
        per_class[klass] = per_class.get(klass, 0) + 1
        if per_class[klass] <= 1 and len(ctx.violations) < MAX_VIOL:
            ctx.violation("%s_oracle_%d" % (label, i), dict(property="C16", kind="direct-oracle", tool=c["tool"], case=strip_case(c),
                                                          what=detail, argv=res.get("argv"), implementation={k: v for k, v in res.items() if k not in ("argv",)}))
    t0 = time.time()
    mism = correspond(ctx, label, cases, results, broken)
    ctx.cov["phase_s"]["correspondence"] = round(time.time() - t0, 1)
    return results, failing, mism


def run(ctx, broken):
    bindir, err = ctx.build_cmds(CMDS)
    if bindir is None:
        broken.append(dict(kind="command-build", detail=err))
        return
    from vlib import BUILD
    TAXDIR[0] = os.path.join(BUILD, "c16_taxdump")
    datasets = make_datasets(ctx)
    if ctx.quick:
        grid = [(c, b) for c in (1, 2, 8) for b in (1, 3, 1000)]
        nr, npair, nshuffle, nstress = 60, 36, 4, 40
    else:
        grid = [(c, b) for c in (1, 2, 3, 4, 8, 16) for b in (1, 2, 3, 5, 7, 50, 1000)]
        nr, npair, nshuffle, nstress = 1500, 600, 40, 1500
    cases = gen_grep_cases(ctx, datasets, nr, npair, grid) + gen_annot_cases(ctx, datasets, nr, grid) + gen_dist_cases(ctx, datasets, nr // 3, grid)
    cases += gen_mux_cases(ctx, grid, nshuffle, nstress)
    # witness of the exit race of the --save-discarded writer (fixed): the same tiny run, many times
    wf = [dict(id="p1", attrs={}, seq="acgtacgt"), dict(id="p2", attrs={}, seq="ac"), dict(id="p3", attrs={}, seq="acgtac"), dict(id="p4", attrs={}, seq="a")]
    wr = [dict(id="p1", attrs={}, seq="ttttt"), dict(id="p2", attrs={}, seq="tttttt"), dict(id="p3", attrs={}, seq="t"), dict(id="p4", attrs={}, seq="tt")]
    for i in range(nstress):
        if i % 2:
            cases.append(dict(tool="grep", opts=dict(minlen=4, save_discarded=True), ds=wf, cpu=2, batch=5, tag="fixed:discarded-writer-exit-race"))
        else:
            cases.append(dict(tool="grep", opts=dict(minlen=4, save_discarded=True, invert=True, mode="andnot"), ds=wf, mates=wr, cpu=2, batch=5, tag="fixed:discarded-writer-exit-race"))
    results, failing, mism = evaluate(ctx, cases, broken, "main", bindir)
    # observations outside the statement (recorded in the evidence only)
    r = Runner(ctx, bindir)
    try:
        o1 = r.run(0, dict(tool="annot", opts=dict(lca="lca"), ds=[dict(id="n1", attrs={}, seq="acgt")]))
        o2 = r.run(1, dict(tool="annot", opts=dict(lca="lca", sciname=True), ds=[dict(id="n1", attrs={"taxid": 40, "count": 3}, seq="acgt")]))
    finally:
        r.close()
    ctx.cov["observations"] = [
        "obiannotate --add-lca-in on a record without taxid: exit %s (obitax TaxonomicDistribution looks taxid 0 up)" % o1["rc"],
        "obiannotate --add-lca-in --scientific-name on {taxid:40,count:3}: attributes written %s" % (sorted(o2["out"][0]["attrs"]) if o2["rc"] == 0 and o2.get("out") else o2["rc"]),
        "a string-typed count ({\"count\":\"6\"}) reads as 1 (BioSequence.Count); modelled and driven (corpus tag string-typed-count)"]
    # the annotation pipeline in process on long synthetic inputs: no reader in front, so several workers really are inside the
    # worker closures at the same time (state shared between the goroutines of a worker shows up here, rarely through the command)
    import time
    t0 = time.time()
    pcs = pipeline_cases(ctx)
    for i, c in enumerate(pcs):
        ok, detail, info = run_pipeline(ctx, c)
        if ok is None:
            broken.append(dict(kind="harness", detail=detail))
        elif not ok and len(ctx.violations) < MAX_VIOL + 2:
            ctx.violation("pipeline_%d" % i, dict(property="C16", kind="direct-oracle", tool="pipeline", case=c, what=detail, implementation=info))
    ctx.cov["phase_s"]["pipeline_in_process"] = round(time.time() - t0, 1)
    ctx.cov["evaluations"] = len(cases) + len(pcs)
    ctx.cov["records_judged"] = sum(len(c["ds"]) for c in cases) + sum(c["n"] for c in pcs)

    def nontrivial(c, res):
        if res["rc"] != 0:
            return False
        if c["tool"] == "grep":
            return 0 < len(res["out"]) < len(c["ds"])
        if c["tool"] == "annot":
            return sorted(rec_key(r) for r in res["out"]) != sorted(rec_key(r) for r in c["ds"])
        if c["tool"] == "mux":
            return len(res["out"]) > 0 and len(res["unid"]) > 0
        return len(res.get("files", {})) > 1
    ctx.cov["distinct_nontrivial"] = len({json.dumps([c["tool"], c["opts"], hashlib.sha1(fmt_input(c["ds"]).encode()).hexdigest(), c.get("cpu"), c.get("batch")], sort_keys=True, default=str)
                                          for c, res in zip(cases, results) if nontrivial(c, res)})
    ctx.cov["rule"] = ("one case = one run of a built command on a data set of 14-41 records; non-trivial = obigrep kept some but not all records / "
                       "obiannotate changed at least one record / obidistribute wrote more than one file; distinct = distinct (tool, options, data set, cpu, batch)")
    dist = {}
    for c in cases:
        k = "%s/%d-options%s" % (c["tool"], len([k for k in c["opts"] if k not in ("mode",)]), "/paired-" + c["opts"].get("mode", "forward") if c.get("mates") else "")
        dist[k] = dist.get(k, 0) + 1
    classes = {}

    def bump(k):
        classes[k] = classes.get(k, 0) + 1
    for c in cases:
        o = c["opts"]
        if c.get("io"):
            bump("io/" + c["io"])
        if c.get("tag"):
            bump("tag/" + str(c["tag"]).split(":")[0] + (":" + str(c["tag"]).split(":")[1] if str(c["tag"]).startswith(("io", "known")) else ""))
        for e in list(o.get("settag", {}).values()) + ([o["setid"]] if o.get("setid") is not None else []):
            bump("vexpr/" + e[0])
        for g in (o, c.get("sel") or {}):
            for e in g.get("preds", []) if isinstance(g.get("preds"), list) else []:
                bump("pexpr/" + e[0])
            if any(isinstance(t, str) for t in g.get("restrict", []) or []):
                bump("restrict-by-slot")
        if o.get("cut") is not None:
            bump("cut/from%s,to%s" % ("<0" if o["cut"][0] < 0 else ">0", "<0" if o["cut"][1] < 0 else ">0"))
        if o.get("refuse"):
            bump("refusal")
        for k in ("out_format", "header", "compress", "append", "runs", "no_unid", "keep_errors"):
            if o.get(k):
                bump("%s/%s=%s" % (c["tool"], k, o[k]))
    seen = set()
    for c in cases:
        if id(c["ds"]) in seen:
            continue
        seen.add(id(c["ds"]))
        for r in c["ds"]:
            for v in r["attrs"].values():
                bump("attr-value/" + type(v).__name__)
            if "_sub[" in r["id"] or any(k in r["attrs"] for k in ("seq_length", "pattern", "aho_corasick", "family_taxid", "obimultiplex_error", "taxonomic_rank")):
                bump("record-with-tool-annotations")
    dist.update({"class:" + k: v for k, v in sorted(classes.items())})
    ctx.cov["distribution"] = dist
    ctx.samples = [dict(tool=c["tool"], opts=c["opts"], argv=res.get("argv"), n_in=len(c["ds"]), n_out=len(res.get("out", []))) for c, res in list(zip(cases, results))[:3] + list(zip(cases, results))[-3:]]
    if mism is None:
        return
    ctx.cov["model_vs_impl_mismatches"] = len(mism)
    unexplained = [i for i in mism if i not in failing]
    if unexplained and not ctx.violations:
        i = unexplained[0]
        broken.append(dict(kind="correspondence", name="corr:C16/%s" % cases[i]["tool"], first_diverging_case=strip_case(cases[i]),
                           implementation=results[i], n_diverging=len(unexplained)))
    elif mism:
        ctx.cov["note"] = "model and implementation diverge on %d cases (%d of them reported by the direct oracle)" % (len(mism), len(mism) - len(unexplained))


# ------------------------------------------------------------------ the annotation pipeline in process, long input

def stress_record(i):
    """the i-th synthetic record of the in-process pipeline runs (= c16StressRecord in harness/cmd/vh/c16stress.go)"""
    attrs = {"k": "ab"[i % 2], "count": 1 + i % 5, "sample": "s%d" % (i % 13), "x": i % 3}
    if i % 5 != 2:
        attrs["n"] = i % 7
    if i % 4 != 1:
        attrs["tag"] = "t%d" % (i % 11)
    if i % 3 == 0:
        attrs["extra"] = "e"
    return dict(id="r%06d" % i, attrs=attrs, seq="acgtacgtacgt"[:4 + i % 7])


def pipeline_cases(ctx):
    k = 1 if ctx.quick else 4
    return [dict(tool="pipeline", opts=dict(keep=["k", "count"]), cpu=16, batch=200, n=20000 * k),
            dict(tool="pipeline", opts=dict(keep=["k", "count"]), cpu=8, batch=100, n=10000 * k),
            dict(tool="pipeline", opts=dict(keep=["count", "sample"]), cpu=4, batch=50, n=10000 * k),
            dict(tool="pipeline", opts=dict(keep=["sample", "seq_length"], delete=["tag"], rename={"nn": "n"}, length=True), cpu=16, batch=50, n=6000 * k),
            dict(tool="pipeline", opts=dict(clear=True, settag={"a": ("printf",), "b": ("halflen",)}, cut=[-5, -1]), cpu=8, batch=100, n=6000 * k)]


def run_pipeline(ctx, c):
    """-> (ok, detail, observation summary)"""
    o = c["opts"]
    argv = ["--max-cpu", str(c["cpu"]), "--batch-size", str(c["batch"])] + annot_argv(o, "")
    obs = ctx.vh_robust("c16", [dict(kind="pipeline", argv=argv, n=c["n"], batch=c["batch"])], timeout=600)[0]
    if obs.get("kind") != "pipeline":
        return None, "the harness did not run the pipeline: %s" % str(obs)[:400], None
    got = {}
    for rid, attrs, seq in obs["records"]:
        got.setdefault(rid, []).append(rec_key(dict(id=rid, attrs={k: canon_val(v) for k, v in attrs.items()}, seq=seq)))
    bad, nexp = [], 0
    for i in range(c["n"]):
        r = stress_record(i)
        exp = spec_annot(o, r)
        nexp += len(exp)
        ids = {x["id"] for x in exp} | {r["id"]}
        g = sorted(x for j in ids for x in got.pop(j, []))
        if g != sorted(rec_key(x) for x in exp):
            bad.append(dict(input=r, expected=exp, written=g))
    for rid, g in got.items():
        bad.append(dict(input=None, expected=[], written=g))
    if bad:
        return False, "%d of %d records of an in-process run of the annotation pipeline (%d workers, batches of %d) differ from the edits requested, e.g. %s" % (
            len(bad), c["n"], obs.get("workers", 0), c["batch"], json.dumps(bad[0], default=str)[:500]), dict(n_bad=len(bad), first=bad[:3], argv=argv)
    return True, None, dict(n_bad=0, argv=argv)


def replay(ctx, rp):
    c = rp["case"]
    if c["tool"] == "pipeline":
        if not getattr(ctx, "vh_bin", None):
            ctx.build_harness()
        c["opts"] = {k: ({a: tuple(b) for a, b in v.items()} if k == "settag" else v) for k, v in c["opts"].items()}
        ok, detail, info = run_pipeline(ctx, c)
        print("replay: in-process annotation pipeline", c["opts"], "n =", c["n"], "cpu =", c["cpu"], "batch =", c["batch"])
        print("  ->", "property holds (the failure depends on the schedule: repeat)" if ok else "FAILS: %s" % detail)
        return
    bindir, err = ctx.build_cmds(CMDS)
    if c["tool"] == "grep" and c["opts"].get("attrpats") is None:
        pass
    r = Runner(ctx, bindir)
    try:
        res = r.run(0, c)
    finally:
        r.close()
    ok, detail, key = CHECK[c["tool"]](c, res)
    print("replay:", c["tool"], c["opts"], "argv:", res.get("argv"))
    print("  ->", "property holds" if ok else "FAILS: %s%s" % (detail, " (known finding %s)" % key if key else ""))
