"""C10 — primer pattern matching (pkg/obiapat + obialign.LocatePattern) reports exactly the matching
positions and error counts."""
import json, re

PROPS = ["C10/Props.v"]
META = dict(
    text="Rocq theorems over an executable transcription of pkg/obiapat (CheckPattern/EncodePattern, CreateS, ManberNoErr, ManberSub, "
         "ManberIndel on 64-bit state words, FindAllIndex windows, FilterBestMatch, AllMatches, BestMatch, complementPattern) and of "
         "obialign.LocatePattern: for every pattern of 1..63 positions, every budget, text and window the hit list is exactly the "
         "window positions whose mismatch count (obligatory positions never mismatched) is within the budget, each with that count; "
         "complemented pattern == mirrored hits on the reverse-complemented text; the indel automaton equals Sellers' recurrence and "
         "reports exactly the ends of text runs within the edit budget with the least cost; LocatePattern returns a span inside the "
         "fragment whose edit distance to the pattern is the reported count and no run is closer. The model is evaluated by vm_compute "
         "on the same cases the real cgo code ran on, and an independent brute-force Python oracle (mismatch count / Sellers / edit "
         "distance) judges every observation of the real code.",
    note="m = 64 is outside the theorems (1<<64 is undefined in C): observed only (known finding m64-never-matches). The window is the "
         "code's: text positions [max(begin,0), min(begin+length+MAX_PAT_LEN, seqlen)). With indels the semantics of obligatory "
         "positions is the code's (the initial state may drop obligatory leading positions): theorem C10_indel_sellers covers it, the "
         "edit-script theorems assume no obligatory position, the oracle uses a sandwich. LocatePattern compares symbols with "
         "obialign._samenuc (IUPAC on both sides) while the automaton uses the pattern's symbol sets: on texts with ambiguity codes "
         "the two counts may differ (oracle exact only on acgt texts). Circular sequences belong to C11. Text symbols are letters "
         "(EncodeSequence maps any other byte to 'a'). complementPattern string level: bounded theorem (strings of <= 6 characters).")
TRUSTED = ["the IUPAC meaning of the pattern letters used by the Python oracle (A C G T U=T R Y M K S W B D H V N X=N, other letters empty)"]

MAXPAT = 64
IUPAC = dict(A="A", C="C", G="G", T="T", U="T", R="AG", Y="CT", M="AC", K="GT", S="CG", W="AT",
             B="CGT", D="AGT", H="ACT", V="ACG", N="ACGT", X="ACGT")
ALL26 = (1 << 26) - 1
COMP = dict(zip("ACGTURYMKSWBDHVNX", "TGCAAYRKMSWVHDBNX"))


def letter_mask(ch):
    m = 0
    for x in IUPAC.get(ch, ""):
        m |= 1 << (ord(x) - 65)
    return m


SANE = re.compile(r"^(?:!?(?:[A-Z]|\[[A-Z]+\])#?)+$")
ITEM = re.compile(r"(!?)(?:([A-Z])|\[([A-Z]+)\])(#?)")


def parse_pattern(s):
    """list of (26-bit symbol set, obligatory) for the documented grammar; None when outside it."""
    s = "".join(chr(ord(c) - 32) if "a" <= c <= "z" else c for c in s)
    if not SANE.match(s):
        return None
    res = []
    for neg, one, cls, ob in ITEM.findall(s):
        m = 0
        for ch in (one or cls):
            m |= letter_mask(ch)
        if neg:
            m = ALL26 & ~m
        res.append((m, bool(ob)))
    return res


def tcode(ch):
    return ord(ch) - 97 if "a" <= ch <= "z" else 0


def text_codes(seq):
    return [tcode(c) for c in seq.lower()]


def mism_at(P, t, p):
    """number of mismatching positions of P against t[p:p+m]; None when an obligatory position mismatches"""
    n = 0
    for i, (m, ob) in enumerate(P):
        if not (m >> t[p + i]) & 1:
            if ob:
                return None
            n += 1
    return n


def window(begin, length, n):
    if begin < 0:
        begin = 0
    if length < 0:
        length = n
    return begin, max(begin, min(begin + length + MAXPAT, n))


def find_all_spec(P, k, t, begin, length):
    b, e = window(begin, length, len(t))
    m = len(P)
    res = []
    for p in range(b, e - m + 1):
        d = mism_at(P, t, p)
        if d is not None and d <= k:
            res.append([p, p + m, d])
    return res


def sellers(P, t, b, e, restrict=True):
    """D[m][j] for every text position j in [b,e): minimal number of edit operations between the pattern and
    a (possibly empty) substring of t[b:e] ending at j (inclusive); obligatory positions take part in no operation."""
    m = len(P)
    INF = 10 ** 6
    col = [i for i in range(m + 1)]          # before any text: prefix of length i deleted
    for i in range(1, m + 1):
        if restrict and P[i - 1][1]:
            col[i] = INF
        col[i] = min(col[i], INF)
        if col[i - 1] >= INF:
            col[i] = INF
    out = []
    for j in range(b, e):
        new = [0] * (m + 1)
        for i in range(1, m + 1):
            s, ob = P[i - 1]
            ob = ob and restrict
            best = col[i - 1] if (s >> t[j]) & 1 else INF
            if not ob:
                best = min(best, col[i - 1] + 1, col[i] + 1, new[i - 1] + 1)
            new[i] = min(best, INF)
        col = new
        out.append(col[m])
    return out


def find_indel_spec(P, k, t, begin, length):
    b, e = window(begin, length, len(t))
    m = len(P)
    d = sellers(P, t, b, e)
    return [[j - m + 1, j + 1, d[j - b]] for j in range(b, e) if d[j - b] <= k]


def edit_distance(P, t):
    """global edit distance between pattern (symbol sets) and the text codes t"""
    m = len(P)
    col = list(range(m + 1))
    for c in t:
        new = [col[0] + 1] + [0] * m
        for i in range(1, m + 1):
            new[i] = min(col[i - 1] + (0 if (P[i - 1][0] >> c) & 1 else 1), col[i] + 1, new[i - 1] + 1)
        col = new
    return col[m]


def best_substring_distance(P, t):
    return min(sellers(P, t, 0, len(t), restrict=False) + [len(P)])


def comp_pattern_spec(P):
    """complement every symbol set letter-wise (A<->T, C<->G, other letters fixed), reverse the order; flags stay attached"""
    cm = {0: 19, 19: 0, 2: 6, 6: 2}
    res = []
    for m, ob in reversed(P):
        r = 0
        for b in range(26):
            if (m >> b) & 1:
                r |= 1 << cm.get(b, b)
        res.append((r, ob))
    return res


def revcomp_text(seq):
    c = dict(a="t", c="g", g="c", t="a")
    return "".join(c.get(x, x) for x in reversed(seq))


# ------------------------------------------------------------------ model of the Go post-processing (oracle side)
def filter_best_props(find, filt):
    """property-level demands on FilterBestMatch: sub-list of the hits, pairwise disjoint, contains a hit of minimal error"""
    if not all(h in find for h in filt):
        return "not a sub-list of the hits"
    for a, b in zip(filt, filt[1:]):
        if not a[1] <= b[0]:
            return "overlapping reported matches"
    if find and (not filt or min(h[2] for h in filt) != min(h[2] for h in find)):
        return "no hit of minimal error count reported"
    return None


# ------------------------------------------------------------------ generators
SYMS_PLAIN = "ACGT"
SYMS_IUPAC = "RYMKSWBDHVN"


def gen_symbol(rng, fancy):
    r = rng.random()
    if r < 1 - fancy:
        s = rng.choice(SYMS_PLAIN)
    elif r < 1 - fancy * 0.5:
        s = rng.choice(SYMS_IUPAC)
    elif r < 1 - fancy * 0.25:
        s = "[" + "".join(rng.sample("ACGT", rng.randrange(1, 4))) + "]"
    else:
        s = rng.choice(SYMS_PLAIN + SYMS_IUPAC)
    if rng.random() < fancy * 0.3:
        s = "!" + s
    if rng.random() < fancy * 0.4:
        s += "#"
    return s


def gen_pattern(rng, m=None, fancy=None):
    if m is None:
        r = rng.random()
        m = rng.choice([1, 2, 3, 4]) if r < 0.2 else rng.choice([62, 63]) if r < 0.3 else rng.randrange(5, 62) if r < 0.5 else rng.randrange(5, 25)
    if fancy is None:
        fancy = rng.choice([0.0, 0.15, 0.15, 0.5])
    return "".join(gen_symbol(rng, fancy) for _ in range(m))


def instance(rng, P):
    """a text matching P exactly (prefers a c g t)"""
    out = []
    for m, ob in P:
        cand = [b for b in (0, 2, 6, 19) if (m >> b) & 1] or [b for b in range(26) if (m >> b) & 1] or [0]
        out.append(chr(97 + rng.choice(cand)))
    return out


def mutate(rng, w, nsub, nindel):
    w = list(w)
    for _ in range(nsub):
        if w:
            w[rng.randrange(len(w))] = rng.choice("acgt")
    for _ in range(nindel):
        if rng.random() < 0.5 and len(w) > 1:
            del w[rng.randrange(len(w))]
        else:
            w.insert(rng.randrange(len(w) + 1), rng.choice("acgt"))
    return w


def gen_text(rng, P, k, indel, L=None):
    m = len(P)
    if L is None:
        L = rng.choice([0, 1, m - 1, m, m + 1, m + 2]) if rng.random() < 0.15 else rng.randrange(m, m + 120)
        L = max(L, 0)
    r = rng.random()
    if r < 0.1:
        t = [rng.choice("ac")] * L
    elif r < 0.2:
        unit = [rng.choice("acgt") for _ in range(rng.randrange(1, 4))]
        t = (unit * (L + 1))[:L]
    else:
        alpha = "acgt" if rng.random() < 0.85 else "acgtnrywsmkbdhvu"
        t = [rng.choice(alpha) for _ in range(L)]
    nplant = rng.choice([0, 1, 1, 2, 3])
    for _ in range(nplant):
        w = mutate(rng, instance(rng, P), rng.randrange(0, k + 2), rng.randrange(0, k + 2) if indel and rng.random() < 0.7 else 0)
        where = rng.random()
        if where < 0.25:
            p = 0
        elif where < 0.5:
            p = max(0, L - len(w))
        elif where < 0.6:
            p = -rng.randrange(0, 3)                    # hanging off the left end
        elif where < 0.7:
            p = L - len(w) + rng.randrange(0, 3)        # hanging off the right end
        else:
            p = rng.randrange(0, max(1, L - len(w) + 1))
        for i, ch in enumerate(w):
            if 0 <= p + i < L:
                t[p + i] = ch
    return "".join(t)


def gen_case(rng, m=None, apis=True):
    pat = gen_pattern(rng, m)
    P = parse_pattern(pat)
    k = rng.choice([0, 0, 1, 1, 2, 2, 3, 4])
    indel = rng.random() < 0.4
    seq = gen_text(rng, P, k, indel)
    if rng.random() < 0.01:                                    # hits beyond position 10000
        seq = "".join(rng.choice("ac") for _ in range(rng.randrange(9950, 10100))) + seq
    L = len(seq)
    if rng.random() < 0.6:
        begin, length = 0, -1
    else:
        begin = rng.choice([-1, 0, 1, L - len(P), L - 1, L, L + 1]) if rng.random() < 0.4 else rng.randrange(0, L + 1)
        length = rng.choice([-1, 0, 1, len(P), L]) if rng.random() < 0.4 else rng.randrange(0, L + 2)
    c = dict(pat=pat if rng.random() < 0.7 else pat.lower(), k=k, indel=indel, seq=seq, begin=begin, length=length, apis=apis)
    if rng.random() < 0.3:
        c["prev"] = gen_text(rng, P, k, indel, L=rng.choice([0, L // 2, L, 2 * L + 70, 400]))
    if rng.random() < 0.5:
        c["rcseq"] = revcomp_text(seq)
    return c


CORPUS = [
    dict(pat="ACGT", k=1, indel=False, seq="ttacgtttaggtacg", begin=0, length=-1, apis=True, rcseq="cgtacctaaacgtaa"),
    dict(pat="ACGT", k=0, indel=False, seq="acgt", begin=0, length=-1, apis=True, rcseq="acgt"),
    dict(pat="ACGT", k=0, indel=False, seq="acgtacgt", begin=0, length=-1, apis=True, prev="acgtacgtacgtacgtacgtacgt"),
    dict(pat="A[CT]G#!T", k=1, indel=False, seq="ttacgtttaggtacgacga", begin=0, length=-1, apis=True, rcseq=revcomp_text("ttacgtttaggtacgacga")),
    dict(pat="AAAA", k=2, indel=False, seq="aaaaaaaaaa", begin=2, length=3, apis=True),
    dict(pat="ACGT", k=1, indel=True, seq="ttacgtttaggtacg", begin=0, length=-1, apis=True),
    # witnesses of the indel post-processing defects (BestMatch end coordinate, span left of the sequence, |seq| = |pattern|)
    dict(pat="ACGTACGT", k=1, indel=True, seq="ttttacgaacgttttt", begin=0, length=-1, apis=True, tag="bestmatch-end"),
    dict(pat="ACGT", k=1, indel=True, seq="cgtttttttt", begin=0, length=-1, apis=True, tag="span-left-of-sequence"),
    dict(pat="ACGT", k=1, indel=True, seq="acct", begin=0, length=-1, apis=True, tag="locate-panic-equal-length"),
    dict(pat="CCVCC", k=1, indel=True, seq="ttttcctccttttt", begin=0, length=-1, apis=True, tag="iupac-v"),
    dict(pat="SCGTGACTVAGNCTC", k=1, indel=True, seq="aaaaaaaaaaaaaaaaccgtgactcagcactc", begin=0, length=-1, apis=True, tag="iupac-v-dropped"),
    dict(pat="gattr", k=4, indel=True, seq="gggta", begin=0, length=-1, apis=True, prev="caccg", tag="locate-panic-short"),
    dict(pat="C", k=1, indel=True, seq="ctcgtg", begin=0, length=-1, apis=True, tag="locate-single-symbol"),
    # witnesses of the complementPattern defects
    dict(pat="!T#", k=0, indel=False, seq="acgtacgt", begin=0, length=-1, apis=False, rcseq="acgtacgt", tag="comp-leading-negated-obligatory"),
    dict(pat="![AC]", k=0, indel=False, seq="acgtacgt", begin=0, length=-1, apis=False, rcseq="acgtacgt", tag="comp-negated-class"),
    dict(pat="R![C]#AC", k=1, indel=False, seq="acgtacgtgtac", begin=0, length=-1, apis=False, rcseq=revcomp_text("acgtacgtgtac"), tag="comp-negated-class-obligatory"),
    dict(pat="!T#K!H[GT]", k=1, indel=False, seq="acgtacgtgtac", begin=0, length=-1, apis=False, rcseq=revcomp_text("acgtacgtgtac"), tag="comp-mixed"),
    # FilterBestMatch / AllMatches dropped a first match located beyond position 10000
    dict(pat="GGTGTGTGGTT", k=1, indel=False, seq="ac" * 5005 + "ggtgtgtggtt" + "ac" * 8, begin=0, length=-1, apis=True, tag="filter-beyond-10000"),
    dict(pat="GGTGTGTGGTT", k=1, indel=True, seq="ac" * 5005 + "ggtgtgggtt" + "ac" * 8, begin=0, length=-1, apis=True, tag="filter-beyond-10000-indel"),
    dict(kind="locate", pat="c", seq="gaatgggcttt", tag="locate-single-symbol"),
    dict(kind="locate", pat="acccacr", seq="cccagcgagc", tag="locate-start-minus-one"),
    dict(kind="locate", pat="acgt", seq="acct", tag="locate-equal-length"),
    dict(kind="locate", pat="acgtacgt", seq="cgt", tag="locate-shorter-fragment"),
]
MALFORMED = ["", "#A", "A[", "A]", "[]", "A!", "[A!C]", "[A#]", "A1", "[[A]]", "A[C", "A-C", "A C", "[A]]", "A![", "!]"]


def gen_cases(ctx, n):
    rng = ctx.rng
    cases = [dict(c) for c in CORPUS]
    for pat in MALFORMED:
        cases.append(dict(pat=pat, k=1, indel=False, seq="acgtacgt", begin=0, length=-1, apis=False, malformed=True))
    for m in range(1, 64):                      # every pattern length, match touching both ends of the text
        pat = gen_pattern(rng, m, 0.15)
        P = parse_pattern(pat)
        k = m % 5
        w = "".join(instance(rng, P))
        w2 = "".join(mutate(rng, instance(rng, P), min(k, m), 0))
        fill = "".join(rng.choice("acgt") for _ in range(rng.randrange(0, 5)))
        seq = w + fill + w2
        cases.append(dict(pat=pat, k=k, indel=False, seq=seq, begin=0, length=-1, apis=True, rcseq=revcomp_text(seq)))
        cases.append(dict(pat=pat, k=k, indel=True, seq=seq, begin=0, length=-1, apis=True))
    # indel matches in a remainder shorter than the pattern: an occurrence carrying deletions ends flush with the sequence
    # and the search starts fewer than |pattern| symbols before the end (truncated primer at the 3' end of a read)
    for m in (6, 9, 12, 18, 20, 25, 33):
        for ndel in (1, 2, 3):
            pat = gen_pattern(rng, m, 0.0)
            P = parse_pattern(pat)
            w = instance(rng, P)
            for _ in range(ndel):
                del w[rng.randrange(0, len(w))]
            pre = "".join(rng.choice("acgt") for _ in range(rng.randrange(0, 30)))
            seq = pre + "".join(w)
            for begin in sorted({len(pre), max(0, len(pre) - 1), max(0, len(seq) - m + 1), 0}):
                cases.append(dict(pat=pat, k=ndel, indel=True, seq=seq, begin=begin, length=-1, apis=True, tag="indel-remainder-shorter-than-pattern"))
            cases.append(dict(pat=pat, k=ndel, indel=True, seq="".join(w), begin=0, length=-1, apis=True, tag="sequence-shorter-than-pattern"))
    for _ in range(n):
        cases.append(gen_case(rng))
    return cases


def gen_exhaustive(alpha="ac", maxm=3, maxl=6):
    """every pattern over ALPHA of 1..maxm symbols x every text over alpha of 0..maxl symbols x budgets 0..2 x both modes"""
    import itertools
    cases = []
    for m in range(1, maxm + 1):
        for p in itertools.product(alpha.upper(), repeat=m):
            for L in range(0, maxl + 1):
                for t in itertools.product(alpha, repeat=L):
                    for k in (0, 1, 2):
                        for indel in (False, True):
                            if indel and k == 0:
                                continue
                            cases.append(dict(pat="".join(p), k=k, indel=indel, seq="".join(t), begin=0, length=-1, apis=True))
    return cases


def oracle_selfcheck(rng, n=150):
    """the Sellers column used as oracle == brute force over every substring (plain edit distance)"""
    for _ in range(n):
        m = rng.randrange(1, 6)
        P = parse_pattern(gen_pattern(rng, m, 0.2).replace("#", ""))
        t = text_codes("".join(rng.choice("acgt") for _ in range(rng.randrange(0, 9))))
        d = sellers(P, t, 0, len(t), False)
        for j in range(len(t)):
            brute = min([edit_distance(P, t[i:j + 1]) for i in range(0, j + 2)])
            if brute != d[j]:
                return dict(pattern=P, text=t, end=j, sellers=d[j], brute=brute)
    return None


def gen_locate_cases(ctx, n):
    rng = ctx.rng
    cases = []
    for _ in range(n):
        m = rng.randrange(1, 12) if rng.random() < 0.5 else rng.randrange(12, 40)
        pat = "".join(rng.choice("acgt" if rng.random() < 0.85 else "acgtrynvbdh") for _ in range(m))
        P = parse_pattern(pat)
        L = rng.randrange(m + 1, m + 12) if rng.random() < 0.8 else rng.randrange(0, m + 1)
        t = [rng.choice("acgt") for _ in range(L)]
        w = mutate(rng, instance(rng, P), rng.randrange(0, 3), rng.randrange(0, 3))
        p = rng.choice([0, L - len(w), rng.randrange(0, L + 1), -1, -2])
        for i, ch in enumerate(w):
            if 0 <= p + i < L:
                t[p + i] = ch
        cases.append(dict(kind="locate", pat=pat, seq="".join(t)))
    return cases


# ------------------------------------------------------------------ direct oracle
def plain_text(seq):
    return all(c in "acgt" for c in seq)


def judge(c, o):
    """list of (clause, detail) violated by observation o on case c"""
    bad = []
    if c.get("kind") == "locate":
        return judge_locate(c, o)
    P = parse_pattern(c["pat"])
    if c.get("malformed"):
        if o["kind"] != "paterr":
            bad.append(("malformed-accepted", o["kind"]))
        return bad
    if o["kind"] != "ok":
        return [("not-ok", o.get("err", o["kind"]))]
    if o["patlen"] != len(P):
        return [("patlen", o["patlen"])]
    t = text_codes(c["seq"])
    k, indel = c["k"], c["indel"]
    if len(P) >= MAXPAT:
        return bad                                   # observed only (reported in coverage)
    has_ob = any(ob for _, ob in P)
    if not indel or k == 0:
        exp = find_all_spec(P, k, t, c["begin"], c["length"])
    elif not has_ob:
        exp = find_indel_spec(P, k, t, c["begin"], c["length"])
    else:
        exp = None
    if exp is not None:
        if o["find"] != exp:
            bad.append(("find", dict(expected=exp)))
        if o["matching"] != bool(exp):
            bad.append(("ismatching", bool(exp)))
    else:
        # indels + obligatory positions: the statement fixes no exact semantics; sandwich between the edit distance
        # in which obligatory positions take part in no operation (sufficient) and the plain edit distance (necessary)
        b, e = window(c["begin"], c["length"], len(t))
        strict, loose = sellers(P, t, b, e, True), sellers(P, t, b, e, False)
        got = {h[1] - 1: h[2] for h in o["find"]}
        for j in range(b, e):
            if strict[j - b] <= k and not (j in got and got[j] <= strict[j - b]):
                bad.append(("find-indel-oblig-missed", dict(end=j, distance=strict[j - b])))
                break
            if j in got and got[j] < loose[j - b]:
                bad.append(("find-indel-oblig-spurious", dict(end=j, distance=loose[j - b])))
                break
        if any(h[1] - 1 not in range(b, e) or h[1] - h[0] != len(P) for h in o["find"]) or o["matching"] != bool(o["find"]):
            bad.append(("find-indel-oblig-shape", None))
    if indel and k > 0 and not has_ob:
        # statement clause: a hit is reported iff some substring of the window lies within the edit budget
        b, e = window(c["begin"], c["length"], len(t))
        anyhit = any(d <= k for d in sellers(P, t, b, e, False))
        if bool(o["find"]) != anyhit:
            bad.append(("indel-iff", anyhit))
    if "rcseq" in c and (not indel or k == 0):
        CP = comp_pattern_spec(P)
        got = parse_pattern(o.get("cpat", "")) if not o.get("cerr") else None
        if got != CP:
            bad.append(("comp-pattern", dict(cpat=o.get("cpat"), cerr=o.get("cerr"))))
        else:
            n = len(t)
            full = find_all_spec(P, k, t, 0, -1)
            mirror = sorted([n - h[1], n - h[0], h[2]] for h in full)
            if o["cfind"] != mirror:
                bad.append(("revcomp-mirror", dict(expected=mirror)))
    if c.get("apis"):
        bad += judge_apis(c, o, P, t)
    return bad


def judge_apis(c, o, P, t):
    bad = []
    k, indel = c["k"], c["indel"]
    find, n, m = o["find"], len(t), len(P)
    msg = filter_best_props(find, o["filter"])
    if msg:
        bad.append(("filter", msg))
    realign = indel and k > 0
    exact_ok = plain_text(c["seq"]) and all(ch in "ACGTURYMKSWBDHVNX" for ch in c["pat"].upper())
    # AllMatches
    if o.get("all_panic"):
        bad.append(("all-panic", o["all_panic"]))
    elif not realign:
        if o["all"] != o["filter"]:
            bad.append(("all", "differs from the filtered hits"))
    else:
        if bool(o["all"]) != bool(find) and exact_ok:
            bad.append(("all-iff", "AllMatches empty/non-empty differs from the automaton"))
        for s, e, d in o["all"]:
            if not (0 <= s <= e <= n):
                bad.append(("all-span", [s, e, d]))
            elif exact_ok and (edit_distance(P, t[s:e]) != d or d > k):
                bad.append(("all-count", dict(reported=[s, e, d], edit_distance=edit_distance(P, t[s:e]))))
    # BestMatch
    if o.get("best_panic"):
        bad.append(("best-panic", o["best_panic"]))
    elif o["best"] is not None:
        s, e, d, matched = o["best"]
        if not realign:
            if find:
                mn = min(h[2] for h in find)
                first = [h for h in find if h[2] == mn][0]
                if [s, e, d, matched] != first + [1]:
                    bad.append(("best", dict(expected=first + [1])))
            elif matched:
                bad.append(("best", "matched without hit"))
        else:
            if bool(matched) != bool(find):
                bad.append(("best-iff", dict(find=find[:3])))
            if matched:
                if not (0 <= s <= e <= n):
                    bad.append(("best-span", [s, e, d]))
                elif exact_ok and edit_distance(P, t[s:e]) != d:
                    bad.append(("best-count", dict(reported=[s, e, d], edit_distance=edit_distance(P, t[s:e]))))
                elif exact_ok and d > min(h[2] for h in find):
                    bad.append(("best-count-above-automaton", dict(reported=[s, e, d], automaton=min(h[2] for h in find))))
    return bad


def judge_locate(c, o):
    P = parse_pattern(c["pat"])
    t = text_codes(c["seq"])
    if o.get("loc_panic"):
        return [("locate-panic", o["loc_panic"])]
    s, e, d = o["loc"]
    bad = []
    best = best_substring_distance(P, t)
    if d != best:
        bad.append(("locate-score", dict(reported=d, minimal=best)))
    if not (0 <= s <= e <= len(t)):
        bad.append(("locate-span", [s, e, d]))
    elif edit_distance(P, t[s:e]) != d:
        bad.append(("locate-count", dict(reported=[s, e, d], edit_distance=edit_distance(P, t[s:e]))))
    return bad


# ------------------------------------------------------------------ Coq rendering
IMPORTS = ("From Coq Require Import NArith ZArith List Bool. Import ListNotations.\n"
           "From OBI.C10 Require Import Model.\nOpen Scope Z_scope.")


def zt(x):
    return "(%d)" % x


def pat_term(P):
    return "[" + ";".join("(%d%%N,%s)" % (m, "true" if ob else "false") for m, ob in P) + "]"


def triples_term(l):
    return "[" + ";".join("(%s,%s,%s)" % (zt(a), zt(b), zt(c)) for a, b, c in l) + "]"


def bytes_term(b):
    return "[" + ";".join(str(x) for x in b) + "]%N"


def case_term(c, o):
    if c.get("kind") == "locate":
        return "CLocate %s %s (%s,%s,%s)" % (bytes_term(c["pat"].encode()), bytes_term(c["seq"].encode()), zt(o["loc"][0]), zt(o["loc"][1]), zt(o["loc"][2]))
    if o.get("kind") == "paterr":
        return "CPatErr %s" % bytes_term(c["pat"].encode())
    t = text_codes(c["seq"])
    apis = "None"
    if c.get("apis") and not o.get("all_panic") and not o.get("best_panic") and o.get("best") is not None:
        b = o["best"]
        apis = "(Some (%s, %s, (%s,%s,%s,%s)))" % (triples_term(o["filter"]), triples_term(o["all"]), zt(b[0]), zt(b[1]), zt(b[2]),
                                                  "true" if b[3] else "false")
    cp = "None"
    if "rcseq" in c and o.get("cpat"):
        cp = "(Some %s)" % bytes_term(o["cpat"].encode())
    # the pattern goes to the model as the bytes of its string: the model runs its own CheckPattern / EncodePattern
    return "CMatch (mkc %s %d %s [%s]%%N %s %s %s %s %s %s)" % (bytes_term(c["pat"].encode()), c["k"], "true" if c["indel"] else "false",
                                                               ";".join(map(str, t)), zt(c["begin"]), zt(c["length"]), zt(o["patlen"]),
                                                               triples_term(o["find"]), apis, cp)


KNOWN_M64 = "m64-never-matches"


def evaluate(ctx, cases, broken, label, report=True, corr=True):
    obs = ctx.vh_robust("c10", [{k: v for k, v in c.items() if k not in ("tag", "malformed")} for c in cases], timeout=600, one_timeout=10)
    nviol = 0
    failed = set()
    seen_clauses = set()
    for i, (c, o) in enumerate(zip(cases, obs)):
        if o.get("kind") == "crash":
            bad = [("crash", o.get("err"))]
        else:
            bad = judge(c, o)
        if bad:
            failed.add(i)
            nviol += 1
            if report and bad[0][0] not in seen_clauses and len(seen_clauses) < 8:     # one replay per violated clause
                seen_clauses.add(bad[0][0])
                ctx.violation("%s_oracle_%d_%s" % (label, i, bad[0][0]), dict(property="C10", kind="direct-oracle", clause=bad[0][0], case=c,
                                                                              implementation=o, detail=[list(b) for b in bad][:4]))
    if not corr:
        return obs, [], failed
    idx = [i for i, (c, o) in enumerate(zip(cases, obs))
           if (c.get("kind") == "locate" and o.get("loc") is not None) or
              (c.get("kind") != "locate" and (o.get("kind") == "paterr" or (o.get("kind") == "ok" and 0 < o["patlen"] < MAXPAT)))]
    bad, err = ctx.correspond(label, IMPORTS, [case_term(cases[i], obs[i]) for i in idx], shard=150)
    if bad is None:
        broken.append(dict(kind="correspondence", detail=err))
        return obs, [], failed
    return obs, [idx[i] for i in bad], failed


def m64_cases(ctx, n):
    rng = ctx.rng
    cases = [dict(pat="ACGT" * 16, k=0, indel=False, seq="tt" + "acgt" * 16 + "tt", begin=0, length=-1, apis=False, tag="m64")]
    for _ in range(n):
        pat = gen_pattern(rng, 64, 0.0)
        P = parse_pattern(pat)
        k = rng.choice([0, 1, 2])
        cases.append(dict(pat=pat, k=k, indel=False, seq=gen_text(rng, P, k, False), begin=0, length=-1, apis=False))
    return cases


def run(ctx, broken):
    n = 300 if ctx.quick else 8000
    sc = oracle_selfcheck(ctx.rng, 100 if ctx.quick else 2000)
    if sc:
        broken.append(dict(kind="oracle-selfcheck", detail=sc))
    cases = gen_cases(ctx, n) + gen_locate_cases(ctx, n // 3)
    if not ctx.quick:
        ex = gen_exhaustive()
        cases += ex
        ctx.cov["exhaustive"] = "every pattern over {A,C} of 1..3 symbols x every text over {a,c} of 0..6 symbols x budgets 0..2 x {mismatch, indel}: %d cases" % len(ex)
    obs, mism, failed = evaluate(ctx, cases, broken, "main")
    # patterns of 64 symbols (documented maximum): outside the theorems, observed
    c64 = m64_cases(ctx, 20 if ctx.quick else 300)
    o64 = ctx.vh_robust("c10", [{k: v for k, v in c.items() if k != "tag"} for c in c64], timeout=120, one_timeout=10)
    miss64 = 0
    for c, o in zip(c64, o64):
        exp = find_all_spec(parse_pattern(c["pat"]), c["k"], text_codes(c["seq"]), 0, -1)
        if o.get("kind") != "ok" or o["find"] != exp:
            miss64 += 1
            if ctx.kf_match(KNOWN_M64):
                ctx.known(KNOWN_M64, "a pattern of 64 symbols (the documented maximum) is accepted but never matches: 1<<64 on the 64-bit state word (apat_search.c)")
            else:
                ctx.violation("m64_%d" % miss64, dict(property="C10", kind="direct-oracle", clause="m64", case=c, implementation=o, expected=exp))
    ctx.cov["m64_cases"] = len(c64)
    ctx.cov["m64_wrong"] = miss64
    ctx.cov["evaluations"] = len(cases) + len(c64)

    def nontrivial(c, o):
        if c.get("kind") == "locate":
            return o.get("loc") is not None and o["loc"][2] > 0
        return o.get("kind") == "ok" and bool(o.get("find"))
    ctx.cov["distinct_nontrivial"] = len({json.dumps(c, sort_keys=True) for c, o in zip(cases, obs) if nontrivial(c, o)})
    ctx.cov["rule"] = ("patterns of 1..63 positions (plain, IUPAC, [classes], ! negation, # obligatory) x planted / mutated / low-complexity texts "
                       "x budgets 0..4 x {mismatch, indel} x windows x recycled or fresh ApatSequence; non-trivial = at least one hit reported "
                       "(locate cases: a re-alignment with at least one error); distinct = distinct case")
    dist = {}
    for c, o in zip(cases, obs):
        if c.get("kind") == "locate":
            key = "locate"
        elif c.get("malformed"):
            key = "malformed/" + o.get("kind", "?")
        else:
            P = parse_pattern(c["pat"])
            key = "%s/k%d/m%s/%s" % ("indel" if c["indel"] else "sub", c["k"], "1-4" if len(P) < 5 else "5-31" if len(P) < 32 else "32-63",
                                    "hit" if o.get("find") else "nohit")
        dist[key] = dist.get(key, 0) + 1
    ctx.cov["distribution"] = dist
    ctx.cov["recycled_sequences"] = sum(1 for c in cases if "prev" in c)
    ctx.cov["windows_not_whole"] = sum(1 for c in cases if c.get("kind") != "locate" and (c["begin"], c["length"]) != (0, -1))
    ctx.samples = [dict(case=c, implementation={k: o.get(k) for k in ("kind", "find", "all", "best", "cpat", "loc")})
                   for c, o in list(zip(cases, obs))[:2] + list(zip(cases, obs))[200:202] + list(zip(cases, obs))[-2:]]
    ctx.cov["model_vs_impl_mismatches"] = len(mism)
    unexplained = [i for i in mism if i not in failed]
    if unexplained and not ctx.violations:
        more = gen_cases(ctx, 6000)
        evaluate(ctx, more, [], "search", corr=False)      # direct oracle only
        if not ctx.violations:
            i = unexplained[0]
            broken.append(dict(kind="correspondence", name="corr:C10/FindAllIndex+FilterBestMatch+AllMatches+BestMatch+LocatePattern+complementPattern", first_diverging_case=cases[i],
                               implementation=obs[i], n_diverging=len(mism)))
    elif mism:
        ctx.cov["note"] = "model and implementation diverge on %d cases (violations reported by the direct oracle)" % len(mism)


def replay(ctx, rp):
    c = rp.get("case") or rp.get("first_diverging_case") or rp.get("broken", [{}])[0].get("first_diverging_case")
    if not c:
        print("replay: no case in the replay file (proof obligation / build problem):", json.dumps(rp)[:1500])
        return
    obs, mism, failed = evaluate(ctx, [c], [], "replay", report=False)
    print("replay:", json.dumps(c))
    print("  implementation:", json.dumps(obs[0]))
    print("  direct oracle :", judge(c, obs[0]) if obs[0].get("kind") != "crash" else "crash")
    print("  model         :", "model-mismatch" if mism else "model-agrees")
