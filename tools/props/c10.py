"""C10 — primer pattern matching (pkg/obiapat + obialign.LocatePattern) reports exactly the matching
positions and error counts."""
import json, os, re

PROPS = ["C10/Props.v"]
META = dict(
    text="Rocq theorems over an executable transcription of pkg/obiapat (CheckPattern/EncodePattern, MakeApatPattern's length limit, CreateS, "
         "ManberNoErr, ManberSub, ManberIndel on 64-bit state words, EncodeSequence, FindAllIndex windows, FilterBestMatch, AllMatches, BestMatch, "
         "ecoComplementPattern) and of obialign.LocatePattern. The letter tables and constants of the code (sDnaCode, LX_BIO_CDNA_ALPHA, "
         "obialign._iupac, MAX_PAT_LEN, MAX_PAT_ERR, PATMASK, OBLIBIT, word width) are dumped from the CURRENT build into C10/Gen/Tables.v before "
         "every Coq build, the model computes with them, and the theorems over them are re-proved by the kernel on every run: each letter's "
         "symbol set / 4-bit code is exactly its IUPAC base set, the complement alphabet agrees with the complement of symbol sets, "
         "_samenuc and the symbol sets are the same relation on a/c/g/t for every letter but X; a changed entry breaks the obligation and the "
         "check computes the failing symbol and replays it on the real code. For every accepted pattern (1..63 positions: MakeApatPattern as "
         "repaired refuses more), budget, text and window: the hit list is exactly the window positions whose mismatch count (obligatory "
         "positions never mismatched) is within the budget, each with that count; the complemented pattern string of ANY length (induction on "
         "the token structure of accepted strings) encodes the complemented pattern, whose hits mirror those on the reverse-complemented text; "
         "the indel automaton equals Sellers' recurrence and reports exactly the ends of runs within the edit budget with the least cost; "
         "LocatePattern returns a span inside the fragment whose edit distance to the pattern is the reported count and no run is closer; "
         "FilterBestMatch returns exactly one first-least-error representative per overlap cluster, pairwise disjoint, every hit covered; "
         "BestMatch reports a match iff the automaton does; AllMatches never reports a match without a hit and, on IUPAC-letter patterns and "
         "a/c/g/t texts (where LocatePattern's and the automaton's edit scripts are proved to have the same costs), loses no filtered hit and "
         "reports the automaton's own edit distance of the reported span; on every read the re-aligned count is never above it "
         "(C10_realigned_never_above). The predicate behind obigrep --approx-pattern (predicat.go: IsPatternMatchSequence over IsMatching and "
         "ReverseComplement) is modelled and proved: on an accepted pattern it is built without a fatal error, its second pattern is the "
         "complemented pattern, and it selects a sequence iff the pattern occurs in it within the budget or (both strands) in its reverse "
         "complement (C10_predicate_strands / _both_strands / _indel / _refused). The model is evaluated by vm_compute on the same cases the "
         "real cgo code ran on, and an independent brute-force Python oracle (mismatch count / Sellers / edit distance) judges every "
         "observation; the command line is run too: obigrep --approx-pattern / --pattern-error / --allows-indels / --only-forward (several "
         "patterns, file or stdin, --force-one-cpu, --max-cpu, --batch-size, --no-order) is judged by the oracle and compared with the "
         "in-process predicate objects and with the model of the option glue (grep_select, C10_obigrep_selection); obiannotate --pattern "
         "(BestMatch of the pattern, then of the complemented pattern: pattern_location / _error / _match, complement(..) on the other strand) "
         "is compared with the in-process BestMatch tuples that oracle and model judge. Object lifecycles are part of the stream: patterns, complemented patterns and sequences (fresh and "
         "recycled) left to the finalizers of pattern.go, which run before the next case.",
    note="Known findings: m64-rejected (the property says lengths 1..64; 64 symbols do not fit the 64-bit state word: refused with an error since "
         "the repair, theorems C10_make_pattern_length / _too_long), x-pattern-realign (X is N in sDnaCode and nothing in obialign._iupac: "
         "re-aligned counts are off for patterns with X; theorem C10_samenuc_x_differs) and text-ambiguity-realign (a read symbol n, r, y, ... "
         "mismatches every pattern position in the C automaton and is compatible in obialign._samenuc: AllMatches / BestMatch report a count "
         "below the automaton's for the same span; theorems C10_text_ambiguity_counts_differ (witness), C10_realigned_never_above, "
         "C10_samenuc_contains_automaton). "
         "Not exercised: ApatPattern.Print (debug dump of the encoded pattern on the C stdout; no observable of the property); the error "
         "branches of MakeApatSequence / new_apatseq (allocation failure only; note for the maintainers: that branch calls C.free on the Go "
         "slice of the BioSequence) and of ReverseComplement (unreachable for an accepted pattern of the documented grammar: "
         "C10_comp_string; strings outside the grammar are observed with their complement, never an alarm); the guard of BestMatch that "
         "answers matched=false when the best hit ends beyond the sequence or starts left of it without re-alignment (dead on linear "
         "sequences: C10_find_all_index_hits_wf + C10_bestmatch_iff; it only fires on circular sequences, which no caller of BestMatch "
         "builds). Outside the property: buildPattern does not release the Pattern when CheckPattern / EncodePattern refuse the string "
         "(a leak of a few hundred bytes per refused pattern, no observable); LowerSequence of obiapat.c (its IS_UPPER macro tests "
         "<= 'A') has no caller; LocatePattern on an empty pattern is outside the quantifier (the check demands the refusal, log.Panicf). "
         "With indels and obligatory positions the code's reading is not symmetric under reverse complement (a text symbol may be inserted "
         "before an obligatory position, not after it): the predicate oracle takes the sandwich for the complemented pattern there. "
         "The window is the code's: text positions "
         "[max(begin,0), min(begin+length+MAX_PAT_LEN, seqlen)) (C10_window_covers_starts: it contains every occurrence starting in the "
         "requested region). With indels the semantics of obligatory positions is the code's (the initial state may drop obligatory leading "
         "positions): C10_indel_sellers covers it, the edit-script theorems assume no obligatory position, the oracle uses a sandwich. "
         "LocatePattern compares with obialign._samenuc (IUPAC on both sides, reads the bytes of the pattern string: classes and negations are "
         "not seen): outside the agreement domain (ambiguity codes in the text, classes, '!', X) only span / sub-list / soundness theorems "
         "hold and the counts may differ (oracle exact only on the agreement domain). Observations recorded in the evidence, never an alarm: "
         "strings outside the documented grammar that CheckPattern accepts (A##, A!#, !!A), texts holding non-letter bytes (EncodeSequence "
         "reads them as 'a'); upper-case text is lower-cased by BioSequence before the matcher sees it. Budgets above MAX_PAT_ERR-1 = 63 would "
         "overrun the state array r[2*MAX_PAT_ERR+2] of ManberSub/ManberIndel (not checked by buildPattern; outside the quantifier 0..4). "
         "Circular sequences belong to C11 (here only as the previous content of a recycled ApatSequence).")
TRUSTED = ["obigrep runs (command-line differential): the FASTA reader / writer of the command carry the sequences and identifiers unchanged "
           "(lower-casing apart); identifiers s0000.. written by the check",
           "the IUPAC meaning of the pattern letters: Python oracle table IUPAC (A C G T U=T R Y M K S W B D H V N X=N, other letters empty) and, "
           "independently, Model.v iupac_bases (26 lines) - the regenerated code tables are proved / checked against them",
           "verif hooks pkg/obiapat/verif2_c10.go (GetCode(dna), ecoComplementPattern on one-character strings, apat.h constants) and "
           "pkg/obialign/verif2_c10.go (_iupac) return the tables the code uses"]

MAXPAT = 64
VERIF = os.path.dirname(os.path.dirname(os.path.dirname(os.path.abspath(__file__))))
TABLES_V = os.path.join(VERIF, "coq", "theories", "C10", "Gen", "Tables.v")


# ------------------------------------------------------------------ regenerated tables (DESIGN 2.3-B; pattern: C07)
def tables_source(t):
    """Gallina source of C10/Gen/Tables.v from the harness' dump of the tables of the current build."""
    def nl(l):
        return "[" + "; ".join(str(x) for x in l) + "]"
    comp = t["comp"]
    other = [(b, comp[b]) for b in range(1, 256) if not 65 <= b <= 90 and comp[b] != b]
    return ("(** GENERATED by tools/props/c10.py regen() from the CURRENT build (vh c10, case {\"kind\":\"tables\"}; hooks\n"
            "    pkg/obiapat/verif2_c10.go, pkg/obialign/verif2_c10.go). Do not edit.\n"
            "    dna_code_tab  : sDnaCode of apat_parse.c (GetCode(dna)), pattern letters A..Z: bit i = text letter 'a'+i;\n"
            "    cdna_tab      : LX_BIO_CDNA_ALPHA of obiapat.c, letters A..Z (ecoComplementPattern on one-character strings);\n"
            "    cdna_other    : every other byte 1..255 that ecoComplementPattern does not leave unchanged (byte, image);\n"
            "    iupac_tab     : obialign._iupac, letters a..z: bit 0 = a, 1 = c, 2 = g, 3 = t;\n"
            "    the constants of apat.h and the width in bits of patword_t. *)\n"
            "From Coq Require Import NArith List.\nImport ListNotations.\nLocal Open Scope N_scope.\n\n"
            "Definition dna_code_tab : list N := %s.\n\nDefinition cdna_tab : list N := %s.\n\n"
            "Definition cdna_other : list (N * N) := [%s].\n\nDefinition iupac_tab : list N := %s.\n\n"
            "Definition max_pat_len : N := %d.\nDefinition max_pat_err : N := %d.\nDefinition PATMASK : N := %d.\n"
            "Definition OBLIBIT : N := %d.\nDefinition alpha_len : N := %d.\nDefinition patword_bits : N := %d.\n" % (
                nl(t["dnacode"]), nl(comp[65:91]), "; ".join("(%d, %d)" % p for p in other), nl(t["iupac"]),
                t["max_pat_len"], t["max_pat_err"], t["patmask"], t["oblibit"], t["alpha_len"], t["word_bits"]))


def dump_tables(ctx):
    obs, err = ctx.vh("c10", [dict(kind="tables")], timeout=60)
    if obs is None:
        raise RuntimeError("vh c10 tables: %s" % err)
    return obs[0]["tables"]


def regen(ctx):
    """Called by check.py before the Coq build: rewrite C10/Gen/Tables.v from the current code (write-if-changed)."""
    vh, err = ctx.build_harness()
    if vh is None:
        raise RuntimeError("harness build failed: %s" % err)
    t = dump_tables(ctx)
    src = tables_source(t)
    os.makedirs(os.path.dirname(TABLES_V), exist_ok=True)
    old = open(TABLES_V).read() if os.path.exists(TABLES_V) else None
    if old != src:
        with open(TABLES_V, "w") as f:
            f.write(src)
        ctx.cov["tables_regenerated"] = "changed"
    else:
        ctx.cov["tables_regenerated"] = "unchanged"
    ctx._c10_tables = t
IUPAC = dict(A="A", C="C", G="G", T="T", U="T", R="AG", Y="CT", M="AC", K="GT", S="CG", W="AT",
             B="CGT", D="AGT", H="ACT", V="ACG", N="ACGT", X="ACGT")
ALL26 = (1 << 26) - 1
COMP = dict(zip("ACGTURYMKSWBDHVNX", "TGCAAYRKMSWVHDBNX"))


def letter_mask(ch):
    m = 0
    for x in IUPAC.get(ch, ""):
        m |= 1 << (ord(x) - 65)
    return m


SANE = re.compile(r"^(?:!?(?:[A-Z]|\[[A-Z]+\])#?)+$")
ITEM = re.compile(r"(!?)(?:([A-Z])|\[([A-Z]+)\])(#?)")


def parse_pattern(s):
    """list of (26-bit symbol set, obligatory) for the documented grammar; None when outside it."""
    s = "".join(chr(ord(c) - 32) if "a" <= c <= "z" else c for c in s)
    if not SANE.match(s):
        return None
    res = []
    for neg, one, cls, ob in ITEM.findall(s):
        m = 0
        for ch in (one or cls):
            m |= letter_mask(ch)
        if neg:
            m = ALL26 & ~m
        res.append((m, bool(ob)))
    return res


def tcode(ch):
    return ord(ch) - 97 if "a" <= ch <= "z" else 0


def text_codes(seq):
    return [tcode(c) for c in seq.lower()]


def mism_at(P, t, p):
    """number of mismatching positions of P against t[p:p+m]; None when an obligatory position mismatches"""
    n = 0
    for i, (m, ob) in enumerate(P):
        if not (m >> t[p + i]) & 1:
            if ob:
                return None
            n += 1
    return n


def window(begin, length, n):
    if begin < 0:
        begin = 0
    if length < 0:
        length = n
    return begin, max(begin, min(begin + length + MAXPAT, n))


def find_all_spec(P, k, t, begin, length):
    b, e = window(begin, length, len(t))
    m = len(P)
    res = []
    for p in range(b, e - m + 1):
        d = mism_at(P, t, p)
        if d is not None and d <= k:
            res.append([p, p + m, d])
    return res


def sellers(P, t, b, e, restrict=True):
    """D[m][j] for every text position j in [b,e): minimal number of edit operations between the pattern and
    a (possibly empty) substring of t[b:e] ending at j (inclusive); obligatory positions take part in no operation."""
    m = len(P)
    INF = 10 ** 6
    col = [i for i in range(m + 1)]          # before any text: prefix of length i deleted
    for i in range(1, m + 1):
        if restrict and P[i - 1][1]:
            col[i] = INF
        col[i] = min(col[i], INF)
        if col[i - 1] >= INF:
            col[i] = INF
    out = []
    for j in range(b, e):
        new = [0] * (m + 1)
        for i in range(1, m + 1):
            s, ob = P[i - 1]
            ob = ob and restrict
            best = col[i - 1] if (s >> t[j]) & 1 else INF
            if not ob:
                best = min(best, col[i - 1] + 1, col[i] + 1, new[i - 1] + 1)
            new[i] = min(best, INF)
        col = new
        out.append(col[m])
    return out


def find_indel_spec(P, k, t, begin, length):
    b, e = window(begin, length, len(t))
    m = len(P)
    d = sellers(P, t, b, e)
    return [[j - m + 1, j + 1, d[j - b]] for j in range(b, e) if d[j - b] <= k]


def edit_distance(P, t):
    """global edit distance between pattern (symbol sets) and the text codes t"""
    m = len(P)
    col = list(range(m + 1))
    for c in t:
        new = [col[0] + 1] + [0] * m
        for i in range(1, m + 1):
            new[i] = min(col[i - 1] + (0 if (P[i - 1][0] >> c) & 1 else 1), col[i] + 1, new[i - 1] + 1)
        col = new
    return col[m]


def best_substring_distance(P, t):
    return min(sellers(P, t, 0, len(t), restrict=False) + [len(P)])


def comp_pattern_spec(P):
    """complement every symbol set letter-wise (A<->T, C<->G, other letters fixed), reverse the order; flags stay attached"""
    cm = {0: 19, 19: 0, 2: 6, 6: 2}
    res = []
    for m, ob in reversed(P):
        r = 0
        for b in range(26):
            if (m >> b) & 1:
                r |= 1 << cm.get(b, b)
        res.append((r, ob))
    return res


def revcomp_text(seq):
    c = dict(a="t", c="g", g="c", t="a")
    return "".join(c.get(x, x) for x in reversed(seq))


# ------------------------------------------------------------------ table obligations, computed (finite) so that the failing symbol is replayed
BASE_BIT = dict(A=1, C=2, G=4, T=8)


def comp_set_mask(m):
    r = 0
    cm = {0: 19, 19: 0, 2: 6, 6: 2}
    for b in range(26):
        if (m >> b) & 1:
            r |= 1 << cm.get(b, b)
    return r


def table_failures(t):
    """Executable statement of the table theorems of C10/TableProofs.v on the dumped tables: list of (table, symbol, what)."""
    bad = []
    dc, comp, iu = t["dnacode"], t["comp"], t["iupac"]
    for i in range(26):
        L = chr(65 + i)
        if dc[i] != letter_mask(L):
            bad.append(("sDnaCode", L, "sDnaCode[%s] = 0x%x, IUPAC base set %r = 0x%x" % (L, dc[i], IUPAC.get(L, ""), letter_mask(L))))
        cl = comp[65 + i]
        if not 65 <= cl <= 90 or dc[cl - 65] != comp_set_mask(dc[i]):
            bad.append(("LX_BIO_CDNA_ALPHA", L, "complement of %s is %r whose symbol set is not the complemented set of %s" % (L, chr(cl), L)))
        elif L in COMP and chr(cl) != COMP[L]:
            bad.append(("LX_BIO_CDNA_ALPHA", L, "complement of %s is %r, expected %r" % (L, chr(cl), COMP[L])))
        want = sum(BASE_BIT[x] for x in IUPAC.get(L, ""))
        if L != "X" and iu[i] != want:
            bad.append(("obialign._iupac", L.lower(), "_iupac[%s] = %d, IUPAC base set %r = %d" % (L.lower(), iu[i], IUPAC.get(L, ""), want)))
    for b in range(1, 256):
        if not 65 <= b <= 90 and comp[b] != b:
            bad.append(("LX_BIO_CDNA_ALPHA", chr(b), "byte %d is changed into %d by ecoComplementPattern" % (b, comp[b])))
    consts = dict(max_pat_len=64, word_bits=64, alpha_len=26, patmask=(1 << 26) - 1, oblibit=1 << 26)
    for k, v in consts.items():
        if t[k] != v:
            bad.append(("constants", k, "%s = %d, expected %d" % (k, t[k], v)))
    if not t["max_pat_err"] < 10000:
        bad.append(("constants", "max_pat_err", "MAX_PAT_ERR = %d is not below the 10000 marker of FilterBestMatch" % t["max_pat_err"]))
    return bad


def table_replay_cases(tab, sym):
    """inputs for the real code on which a wrong entry of the table shows"""
    txt = "acgtnacgtryacgtttgca"
    if tab == "sDnaCode":
        return [dict(pat=sym, k=0, indel=False, seq=txt, begin=0, length=-1, apis=False, tag="table"),
                dict(pat="AC" + sym + "GT", k=1, indel=False, seq="acagtaccgtacggtactgt", begin=0, length=-1, apis=False, tag="table")]
    if tab == "LX_BIO_CDNA_ALPHA":
        if not "A" <= sym <= "Z":
            return [dict(pat="A" + sym + "C" if sym in "!" else "AC" + sym if sym == "#" else "A[CG]T", k=0, indel=False, seq=txt, begin=0, length=-1,
                         apis=False, rcseq=revcomp_text(txt), tag="table")]
        return [dict(pat=sym, k=0, indel=False, seq=txt, begin=0, length=-1, apis=False, rcseq=revcomp_text(txt), tag="table"),
                dict(pat="A" + sym + "#G", k=0, indel=False, seq=txt, begin=0, length=-1, apis=False, rcseq=revcomp_text(txt), tag="table")]
    if tab == "obialign._iupac":
        return [dict(kind="locate", pat=sym, seq=b, tag="table") for b in "acgt"] + \
               [dict(kind="locate", pat="ac" + sym + "gt", seq="ttac" + b + "gttt", tag="table") for b in "acgt"]
    if tab == "constants":
        # a hit in the margin [begin+length+32, begin+length+64) and a 63-symbol pattern starting in the requested region
        pat = "ACGTTGCAAC" * 4
        return [dict(pat=pat, k=0, indel=False, seq="tttt" + pat.lower() + "tttt", begin=0, length=5, apis=False, tag="table"),
                dict(pat="A" * 30, k=1, indel=True, seq="c" * 10 + "a" * 29 + "c" * 10, begin=0, length=11, apis=True, tag="table")]
    return []


def replay_tables(ctx, t):
    """The table theorems are finite: compute the failing symbols from the dump and replay each on the real code."""
    seen = {}
    fails = table_failures(t)
    ctx.cov["table_obligations"] = dict(letters=26, bytes=255, constants=6, failing=len(fails))
    for tab, sym, what in fails:
        if seen.get(tab, 0) >= 2:
            continue
        seen[tab] = seen.get(tab, 0) + 1
        cases = table_replay_cases(tab, sym)
        obs = ctx.vh_robust("c10", [{k: v for k, v in c.items() if k != "tag"} for c in cases], timeout=60, one_timeout=10)
        verdicts = [[list(b) for b in (judge(c, o) if o.get("kind") != "crash" else [("crash", o.get("err"))])][:3] for c, o in zip(cases, obs)]
        first = next((i for i, v in enumerate(verdicts) if v), 0)
        ctx.violation("table_%s_%d" % (re.sub(r"\W", "", tab), ord(sym[0]) if len(sym) == 1 else seen[tab]),
                      dict(property="C10", kind="table-obligation", table=tab, symbol=sym, why=what, case=cases[first] if cases else None,
                           implementation=obs[first] if cases else None, oracle=verdicts[first] if cases else None,
                           all_cases=cases, all_verdicts=verdicts, tables=t))


# ------------------------------------------------------------------ model of the Go post-processing (oracle side)
def filter_spec(find):
    """executable statement of C10_filter_best_clusters: greedy overlap clusters of the hits in order (a hit joins the current cluster
    iff its span widened by its error count overlaps the widened span of the best hit of the cluster so far), one representative per
    cluster: the first hit of least error count"""
    clusters = []
    for h in find:
        if clusters:
            cur = clusters[-1]
            rep = min(cur, key=lambda x: x[2])          # min() returns the first minimal element
            if h[0] - h[2] < rep[1] + rep[2]:
                cur.append(h)
                continue
        clusters.append([h])
    return [min(c, key=lambda x: x[2]) for c in clusters]


def filter_best_props(find, filt):
    """property-level demands on FilterBestMatch: sub-list of the hits, pairwise disjoint, contains a hit of minimal error, and exactly one
    first-least-error representative per overlap cluster"""
    if not all(h in find for h in filt):
        return "not a sub-list of the hits"
    if [list(x) for x in filt] != [list(x) for x in filter_spec(find)]:
        return "not the least-error representatives of the overlap clusters: expected %r" % filter_spec(find)[:6]
    for a, b in zip(filt, filt[1:]):
        if not a[1] <= b[0]:
            return "overlapping reported matches"
    if find and (not filt or min(h[2] for h in filt) != min(h[2] for h in find)):
        return "no hit of minimal error count reported"
    return None


# ------------------------------------------------------------------ generators
SYMS_PLAIN = "ACGT"
SYMS_IUPAC = "RYMKSWBDHVNU"          # U: the base set of T, complemented into A


def gen_symbol(rng, fancy):
    r = rng.random()
    if r < 1 - fancy:
        s = rng.choice(SYMS_PLAIN)
    elif r < 1 - fancy * 0.5:
        s = rng.choice(SYMS_IUPAC)
    elif r < 1 - fancy * 0.25:
        s = "[" + "".join(rng.sample("ACGT", rng.randrange(1, 4))) + "]"
    else:
        s = rng.choice(SYMS_PLAIN + SYMS_IUPAC)
    if rng.random() < fancy * 0.3:
        s = "!" + s
    if rng.random() < fancy * 0.4:
        s += "#"
    return s


def gen_pattern(rng, m=None, fancy=None):
    if m is None:
        r = rng.random()
        m = rng.choice([1, 2, 3, 4]) if r < 0.2 else rng.choice([62, 63]) if r < 0.3 else rng.randrange(5, 62) if r < 0.5 else rng.randrange(5, 25)
    if fancy is None:
        fancy = rng.choice([0.0, 0.15, 0.15, 0.5])
    return "".join(gen_symbol(rng, fancy) for _ in range(m))


def instance(rng, P):
    """a text matching P exactly (prefers a c g t)"""
    out = []
    for m, ob in P:
        cand = [b for b in (0, 2, 6, 19) if (m >> b) & 1] or [b for b in range(26) if (m >> b) & 1] or [0]
        out.append(chr(97 + rng.choice(cand)))
    return out


def mutate(rng, w, nsub, nindel):
    w = list(w)
    for _ in range(nsub):
        if w:
            w[rng.randrange(len(w))] = rng.choice("acgt")
    for _ in range(nindel):
        if rng.random() < 0.5 and len(w) > 1:
            del w[rng.randrange(len(w))]
        else:
            w.insert(rng.randrange(len(w) + 1), rng.choice("acgt"))
    return w


def gen_text(rng, P, k, indel, L=None):
    m = len(P)
    if L is None:
        L = rng.choice([0, 1, m - 1, m, m + 1, m + 2]) if rng.random() < 0.15 else rng.randrange(m, m + 120)
        L = max(L, 0)
    r = rng.random()
    if r < 0.1:
        t = [rng.choice("ac")] * L
    elif r < 0.2:
        unit = [rng.choice("acgt") for _ in range(rng.randrange(1, 4))]
        t = (unit * (L + 1))[:L]
    else:
        alpha = "acgt" if rng.random() < 0.85 else "acgtnrywsmkbdhvu"
        t = [rng.choice(alpha) for _ in range(L)]
    nplant = rng.choice([0, 1, 1, 2, 3])
    for _ in range(nplant):
        w = mutate(rng, instance(rng, P), rng.randrange(0, k + 2), rng.randrange(0, k + 2) if indel and rng.random() < 0.7 else 0)
        where = rng.random()
        if where < 0.25:
            p = 0
        elif where < 0.5:
            p = max(0, L - len(w))
        elif where < 0.6:
            p = -rng.randrange(0, 3)                    # hanging off the left end
        elif where < 0.7:
            p = L - len(w) + rng.randrange(0, 3)        # hanging off the right end
        else:
            p = rng.randrange(0, max(1, L - len(w) + 1))
        for i, ch in enumerate(w):
            if 0 <= p + i < L:
                t[p + i] = ch
    return "".join(t)


def gen_edge_pattern(rng, m):
    """'!' and '#' on the first / last position, classes holding IUPAC letters"""
    syms = [gen_symbol(rng, 0.15) for _ in range(m)]
    def deco(x):
        core = x.strip("!#")
        r = rng.random()
        if r < 0.3:
            core = "[" + "".join(rng.sample("ACGTRYMKSWBDHVN", rng.randrange(1, 4))) + "]"
        return rng.choice(["!", "", ""]) + core + rng.choice(["#", "", ""])
    syms[0] = deco(syms[0])
    syms[-1] = deco(syms[-1])
    if m > 2 and rng.random() < 0.5:
        i = rng.randrange(1, m - 1)
        syms[i] = rng.choice(["!", ""]) + "[" + "".join(rng.sample("ACGTRYMKSWBDHVN", rng.randrange(1, 5))) + "]" + rng.choice(["#", ""])
    return "".join(syms)


def dirty_text(rng, seq, nonletters=False):
    """upper-case letters (BioSequence lower-cases them) and, on request, non-letter bytes (EncodeSequence reads them as 'a')"""
    t = list(seq)
    for _ in range(rng.randrange(1, 4)):
        if t:
            i = rng.randrange(len(t))
            t[i] = rng.choice(["-", ".", "*", "0", " ", "~", "@", "[", "`", "{"]) if nonletters and rng.random() < 0.6 else t[i].upper()
    if rng.random() < 0.3:
        t = [x.upper() for x in t]
    return "".join(t)


def nonletter_cases(rng, n):
    """texts holding bytes that are not letters: outside the property (sequences are nucleotide codes); EncodeSequence reads them as
    'a', LocatePattern reads the byte itself: observation only"""
    cases = []
    for seq in ("ac-tacgt", "acgt.cgt", "ac*t", "a c g t a c g t", "-acgt-", "acg~", "0123"):
        for pat, k, indel in (("ACGT", 0, False), ("ACGT", 1, False), ("ACGT", 1, True), ("ACAT", 0, False), ("AAAT", 2, True)):
            cases.append(dict(pat=pat, k=k, indel=indel, seq=seq, begin=0, length=-1, apis=True, tag="non-letter-text"))
    for _ in range(n):
        c = gen_case(rng)
        c["seq"] = dirty_text(rng, c["seq"], True)
        c.pop("rcseq", None)
        c["tag"] = "non-letter-text"
        cases.append(c)
    return cases


def gen_case(rng, m=None, apis=True):
    pat = gen_pattern(rng, m) if rng.random() < 0.8 else gen_edge_pattern(rng, m or rng.choice([1, 2, 3, 5, 8, 13, 20, 33]))
    P = parse_pattern(pat)
    k = rng.choice([0, 0, 1, 1, 2, 2, 3, 4])
    indel = rng.random() < 0.4
    seq = gen_text(rng, P, k, indel)
    if rng.random() < 0.01:                                    # hits beyond position 10000
        seq = "".join(rng.choice("ac") for _ in range(rng.randrange(9950, 10100))) + seq
    L = len(seq)
    if rng.random() < 0.6:
        begin, length = 0, -1
    else:
        begin = rng.choice([-1, 0, 1, L - len(P), L - 1, L, L + 1]) if rng.random() < 0.4 else rng.randrange(0, L + 1)
        length = rng.choice([-1, 0, 1, len(P), L]) if rng.random() < 0.4 else rng.randrange(0, L + 2)
    dirty = rng.random() < 0.06
    if dirty:
        seq = dirty_text(rng, seq)
    c = dict(pat=pat if rng.random() < 0.7 else pat.lower(), k=k, indel=indel, seq=seq, begin=begin, length=length, apis=apis)
    if dirty:
        c["tag"] = "dirty-text"
    if rng.random() < 0.3:
        c["prev"] = gen_text(rng, P, k, indel, L=rng.choice([0, 1, L // 2, max(L - 1, 0), L, L + 1, 2 * L + 70, 3 * L, 400]))
        c["prevcirc"] = rng.random() < 0.4
    if rng.random() < 0.5 and not dirty:
        c["rcseq"] = revcomp_text(seq)
    if rng.random() < 0.08:
        c["gc"] = True              # nothing freed explicitly: the finalizers of pattern.go release the C memory before the next case
    return c


def gen_window_cases(rng, n):
    """windows (begin, length) around every boundary: the start and the end of a planted hit against begin, begin+length and the
    end of the scanned region begin+length+MAX_PAT_LEN, both ends of the sequence"""
    cases = []
    for _ in range(n):
        m = rng.choice([1, 2, 5, 12, 20, 40, 63])
        pat = gen_pattern(rng, m, rng.choice([0.0, 0.15]))
        P = parse_pattern(pat)
        k = rng.choice([0, 1, 2])
        indel = rng.random() < 0.35
        pre = rng.randrange(0, 90)
        post = rng.randrange(0, 90)
        w = mutate(rng, instance(rng, P), rng.randrange(0, k + 1), rng.randrange(0, k + 1) if indel else 0)
        seq = "".join(rng.choice("acgt") for _ in range(pre)) + "".join(w) + "".join(rng.choice("acgt") for _ in range(post))
        L, hs, he = len(seq), pre, pre + len(w)
        begins = {0, -1, 1, hs - 1, hs, hs + 1, he - 1, he, he + 1, L - m, L - 1, L, L + 1, he - MAXPAT - 1, he - MAXPAT}
        for begin in rng.sample(sorted(begins), 4):
            b = max(begin, 0)
            lengths = {-1, 0, 1, hs - b, hs - b + 1, he - b - MAXPAT - 1, he - b - MAXPAT, he - b - MAXPAT + 1, he - b, L - b, L - b - MAXPAT, L - b + 1, m}
            for length in rng.sample(sorted(x for x in lengths if x >= -1), 3):
                cases.append(dict(pat=pat, k=k, indel=indel, seq=seq, begin=begin, length=length, apis=rng.random() < 0.5, tag="window"))
    return cases



# ------------------------------------------------------------------ round 3: predicate (predicat.go / obigrep --approx-pattern), left-cut sites,
# boundary pattern lengths, object lifecycles
def gen_pred_seqs(rng, P, k, indel, n):
    """sequences for one predicate object: site on the forward strand, on the reverse strand only, nowhere, cut by either end,
    shorter than the pattern, upper case"""
    m = len(P)
    seqs = []
    for _ in range(n):
        r = rng.random()
        if r < 0.3:
            x = gen_text(rng, P, k, indel)
        elif r < 0.6:
            x = revcomp_text(gen_text(rng, P, k, indel))          # the site is on the other strand
        elif r < 0.75:
            x = "".join(rng.choice("acgt") for _ in range(rng.randrange(1, m + 40)))
        elif r < 0.85:                                            # site cut by an end of the sequence
            w = "".join(instance(rng, P))
            cut = rng.randrange(0, min(k, m - 1) + 2) if m > 1 else 0
            fill = "".join(rng.choice("acgt") for _ in range(rng.randrange(0, 20)))
            x = (w[cut:] + fill) if rng.random() < 0.5 else (fill + w[:m - cut])
            if rng.random() < 0.5:
                x = revcomp_text(x)
        elif r < 0.95:
            x = "".join(rng.choice("acgt") for _ in range(rng.randrange(1, max(2, m))))
        else:
            x = "".join(rng.choice("acgtnry") for _ in range(rng.randrange(1, m + 30)))
        if not x:
            x = rng.choice("acgt")
        if rng.random() < 0.08:
            x = x.upper()
        seqs.append(x)
    return seqs


PRED_CORPUS = [
    dict(kind="pred", pat="AACC", k=0, indel=False, both=True, seqs=["ccggaacc", "ttggttaa", "ttttt", "aac", "AACC", "ggtt", "ggt"], tag="pred-corpus"),
    dict(kind="pred", pat="AACC", k=0, indel=False, both=False, seqs=["ccggaacc", "ttggttaa", "ttttt", "aac", "AACC", "ggtt", "ggt"], tag="pred-corpus"),
    dict(kind="pred", pat="AACC", k=1, indel=False, both=True, seqs=["ttaacgtt", "ttcgtttt", "a", "ggt", "ggta"], tag="pred-corpus"),
    dict(kind="pred", pat="AACCT", k=1, indel=True, both=True, seqs=["ttaacgtt", "ttacctt", "ttaggtt", "aggt", "ggt", "tt"], tag="pred-corpus"),
    dict(kind="pred", pat="A[CT]G#!T", k=1, indel=False, both=True, seqs=["ttacgcttt", "ttgcgttt", "ttagcgtt", "ttttttt"], tag="pred-corpus"),
    dict(kind="pred", pat="!T#K!H[GT]", k=1, indel=False, both=True, seqs=["acgtacgtgtac", revcomp_text("acgtacgtgtac"), "tttttttt"], tag="pred-corpus"),
    dict(kind="pred", pat="ACGT" * 15 + "ACG", k=2, indel=False, both=True, seqs=["tt" + "acgt" * 15 + "acgtt", revcomp_text("tt" + "acgt" * 15 + "acctt"), "acgt" * 15], tag="pred-corpus"),
    dict(kind="pred", pat="GGGCAATCCTGAGCCAAT", k=2, indel=True, both=True, gc=True,
         seqs=["gcaatcctgagccaattttt", revcomp_text("gcaatcctgagccaattttt"), "ttttgggcaatcctgagcca", revcomp_text("ttttgggcaatcctgagcca"), "ttttgggcaatcctgagcc"], tag="pred-corpus"),
    dict(kind="pred", pat="A[", k=0, indel=False, both=True, seqs=["acgt"], malformed=True, tag="pred-corpus"),
    dict(kind="pred", pat="", k=0, indel=False, both=True, seqs=["acgt"], malformed=True, tag="pred-corpus"),
]


def gen_pred_cases(ctx, n):
    rng = ctx.rng
    cases = [dict(c) for c in PRED_CORPUS]
    for i in range(n):
        pat = gen_pattern(rng) if rng.random() < 0.8 else gen_edge_pattern(rng, rng.choice([1, 2, 3, 5, 8, 13, 20, 33]))
        P = parse_pattern(pat)
        k = rng.choice([0, 0, 1, 1, 2, 2, 3, 4])
        indel = rng.random() < 0.4
        c = dict(kind="pred", pat=pat if rng.random() < 0.7 else pat.lower(), k=k, indel=indel, both=rng.random() < 0.7,
                 seqs=gen_pred_seqs(rng, P, k, indel, rng.randrange(1, 8)))
        if rng.random() < 0.15:
            c["gc"] = True
        cases.append(c)
    return cases


def gen_leftcut_cases(rng, n):
    """primer sites cut by the LEFT end of the sequence or of the search window, the budget exactly used up by the missing leading
    symbols (ManberIndel starts level e with e+1 bits: up to e leading pattern symbols deleted before any text), or one short of it"""
    cases = []
    fixed = [(6, 1), (10, 1), (10, 2), (18, 2), (18, 3), (25, 4), (40, 3), (63, 2)]
    for i in range(len(fixed) + n):
        m, k = fixed[i] if i < len(fixed) else (rng.randrange(4, 63), rng.randrange(1, 5))
        pat = gen_pattern(rng, m, 0.0 if i % 2 == 0 else 0.15).replace("#", "")
        P = parse_pattern(pat)
        w = "".join(instance(rng, P))
        tail = "".join(rng.choice("acgt") for _ in range(rng.randrange(0, 40)))
        pre = "".join(rng.choice("acgt") for _ in range(rng.randrange(1, 30)))
        for cut in sorted({k, max(k - 1, 0), min(k + 1, m - 1)}):
            cases.append(dict(pat=pat, k=k, indel=True, seq=w[cut:] + tail, begin=0, length=-1, apis=True, tag="left-cut-site/sequence-start"))
            cases.append(dict(pat=pat, k=k, indel=True, seq=pre + w + tail, begin=len(pre) + cut, length=-1, apis=True, tag="left-cut-site/window-begin"))
        cases.append(dict(pat=pat, k=k, indel=True, seq=w[k:], begin=0, length=-1, apis=True, tag="left-cut-site/whole-sequence"))
    return cases


def gen_lifecycle_cases(ctx, n):
    rng = ctx.rng
    cases = []
    for i in range(n):
        c = gen_case(rng, m=rng.choice([4, 8, 12, 20, 33]))
        c["freegc"] = True
        c["gc"] = i % 2 == 0
        c["tag"] = "lifecycle-free-then-gc"
        if len(c["seq"]) > 2000:
            c["seq"] = c["seq"][-300:]
            c.pop("rcseq", None)
        cases.append(c)
    return cases


def gen_boundary_length_cases(rng):
    """patterns of exactly 63 positions (the longest accepted), with strings longer than 64 bytes (classes, '!', '#' are not positions)"""
    cases = []
    for deco in ("plain", "class", "mods"):
        syms = [rng.choice("ACGT") for _ in range(63)]
        if deco == "class":
            strs = ["[%s%s]" % (x, rng.choice([y for y in "ACGT" if y != x])) if i % 3 == 0 else x for i, x in enumerate(syms)]
        elif deco == "mods":
            strs = [x + "#" if i % 7 == 0 else "!" + x if i % 11 == 5 else x for i, x in enumerate(syms)]
        else:
            strs = syms
        pat = "".join(strs)
        P = parse_pattern(pat)
        w = "".join(instance(rng, P))
        w1 = "".join(mutate(rng, list(w), 1, 0))
        seq = w + "ac" + w1 + "g" + w[:62]
        for k, indel in ((0, False), (1, False), (2, False), (1, True), (2, True)):
            c = dict(pat=pat, k=k, indel=indel, seq=seq, begin=0, length=-1, apis=True, tag="boundary-length-63/" + deco)
            if not indel:
                c["rcseq"] = revcomp_text(seq)
            cases.append(c)
    return cases


JUNK = ["A##", "A!#", "A!#C", "A#!#", "AC##G", "!!A", "A!!#", "!![AC]#", "A#!!C", "AC!#G#"]
EDGE = ["A#CGT", "ACGT#", "!ACGT", "ACG!T", "!A#CG!T#", "[RY]CG[NA]", "![RC]#CGT![KM]#", "[ACGT]", "![ACGT]CC", "N#", "!N", "[AR]#[CY]#", "A#", "!A#"]


CORPUS = [
    dict(pat="ACGT", k=1, indel=False, seq="ttacgtttaggtacg", begin=0, length=-1, apis=True, rcseq="cgtacctaaacgtaa"),
    dict(pat="ACGT", k=0, indel=False, seq="acgt", begin=0, length=-1, apis=True, rcseq="acgt"),
    dict(pat="ACGT", k=0, indel=False, seq="acgtacgt", begin=0, length=-1, apis=True, prev="acgtacgtacgtacgtacgtacgt"),
    dict(pat="A[CT]G#!T", k=1, indel=False, seq="ttacgtttaggtacgacga", begin=0, length=-1, apis=True, rcseq=revcomp_text("ttacgtttaggtacgacga")),
    dict(pat="AAAA", k=2, indel=False, seq="aaaaaaaaaa", begin=2, length=3, apis=True),
    dict(pat="ACGT", k=1, indel=True, seq="ttacgtttaggtacg", begin=0, length=-1, apis=True),
    # witnesses of the indel post-processing defects (BestMatch end coordinate, span left of the sequence, |seq| = |pattern|)
    dict(pat="ACGTACGT", k=1, indel=True, seq="ttttacgaacgttttt", begin=0, length=-1, apis=True, tag="bestmatch-end"),
    dict(pat="ACGT", k=1, indel=True, seq="cgtttttttt", begin=0, length=-1, apis=True, tag="span-left-of-sequence"),
    dict(pat="ACGT", k=1, indel=True, seq="acct", begin=0, length=-1, apis=True, tag="locate-panic-equal-length"),
    dict(pat="CCVCC", k=1, indel=True, seq="ttttcctccttttt", begin=0, length=-1, apis=True, tag="iupac-v"),
    dict(pat="SCGTGACTVAGNCTC", k=1, indel=True, seq="aaaaaaaaaaaaaaaaccgtgactcagcactc", begin=0, length=-1, apis=True, tag="iupac-v-dropped"),
    dict(pat="gattr", k=4, indel=True, seq="gggta", begin=0, length=-1, apis=True, prev="caccg", tag="locate-panic-short"),
    dict(pat="C", k=1, indel=True, seq="ctcgtg", begin=0, length=-1, apis=True, tag="locate-single-symbol"),
    # witnesses of the complementPattern defects
    dict(pat="!T#", k=0, indel=False, seq="acgtacgt", begin=0, length=-1, apis=False, rcseq="acgtacgt", tag="comp-leading-negated-obligatory"),
    dict(pat="![AC]", k=0, indel=False, seq="acgtacgt", begin=0, length=-1, apis=False, rcseq="acgtacgt", tag="comp-negated-class"),
    dict(pat="R![C]#AC", k=1, indel=False, seq="acgtacgtgtac", begin=0, length=-1, apis=False, rcseq=revcomp_text("acgtacgtgtac"), tag="comp-negated-class-obligatory"),
    dict(pat="!T#K!H[GT]", k=1, indel=False, seq="acgtacgtgtac", begin=0, length=-1, apis=False, rcseq=revcomp_text("acgtacgtgtac"), tag="comp-mixed"),
    # FilterBestMatch / AllMatches dropped a first match located beyond position 10000
    dict(pat="GGTGTGTGGTT", k=1, indel=False, seq="ac" * 5005 + "ggtgtgtggtt" + "ac" * 8, begin=0, length=-1, apis=True, tag="filter-beyond-10000"),
    dict(pat="GGTGTGTGGTT", k=1, indel=True, seq="ac" * 5005 + "ggtgtgggtt" + "ac" * 8, begin=0, length=-1, apis=True, tag="filter-beyond-10000-indel"),
    dict(kind="locate", pat="c", seq="gaatgggcttt", tag="locate-single-symbol"),
    dict(kind="locate", pat="acccacr", seq="cccagcgagc", tag="locate-start-minus-one"),
    dict(kind="locate", pat="acgt", seq="acct", tag="locate-equal-length"),
    dict(kind="locate", pat="acgtacgt", seq="cgt", tag="locate-shorter-fragment"),
]
MALFORMED = ["", "#A", "A[", "A]", "[]", "A!", "[A!C]", "[A#]", "A1", "[[A]]", "A[C", "A-C", "A C", "[A]]", "A![", "!]"]


def gen_cases(ctx, n):
    rng = ctx.rng
    cases = [dict(c) for c in CORPUS]
    for pat in MALFORMED:
        cases.append(dict(pat=pat, k=1, indel=False, seq="acgtacgt", begin=0, length=-1, apis=False, malformed=True))
    for pat in EDGE:          # '#' / '!' on the first and the last position, classes with IUPAC letters: whole text, both ends, both strands
        for k, indel in ((0, False), (1, False), (2, False), (1, True)):
            seq = "acgtacgttagcatcgacgtacgcgtaacgt"
            cases.append(dict(pat=pat, k=k, indel=indel, seq=seq, begin=0, length=-1, apis=True, tag="edge-pattern",
                              **({} if indel else dict(rcseq=revcomp_text(seq)))))
    # upper-case and non-letter bytes in the text; an ambiguity code of the text under a pattern letter; X in the pattern
    for seq in ("ACGTACGT", "acgTAcgt", "ttacntttacgt", "nnnnnnnn", "ttacgtrtacgt", "TTACGTNNACGT"):
        for pat, k, indel in (("ACGT", 0, False), ("ACGT", 1, False), ("ACGT", 1, True), ("ACNT", 1, True), ("AAAT", 2, True)):
            cases.append(dict(pat=pat, k=k, indel=indel, seq=seq, begin=0, length=-1, apis=True, tag="dirty-text"))
    # letters that are no IUPAC code (E F I J L O P Q Z): accepted by CheckPattern, their symbol set is empty (the position matches
    # nothing), they are their own complement; outside the quantifier "IUPAC pattern", judged like any other symbol set
    for pat, k, indel in (("ACEGT", 1, False), ("ACEGT", 0, False), ("ZCGT", 1, False), ("ACGJ", 1, False), ("ACEGT", 1, True), ("QACGTQ", 2, True)):
        seq = "ttacagtttacegtttcgtacgtt"
        cases.append(dict(pat=pat, k=k, indel=indel, seq=seq, begin=0, length=-1, apis=True, tag="non-iupac-letter",
                          **({} if indel else dict(rcseq=revcomp_text(seq)))))
    for pat, k, indel in (("ACXT", 0, False), ("ACXT", 1, True), ("XXXX", 1, True), ("AXGT", 2, True)):
        cases.append(dict(pat=pat, k=k, indel=indel, seq="ttacgttttactttagtttaccttt", begin=0, length=-1, apis=True, tag="x-in-pattern"))
    # recycled ApatSequence: previous sequences of other lengths, linear or circular, then the real one
    for prev in ("", "a", "acgt" * 3, "acgt" * 40, "acgt" * 200):
        for circ in (False, True):
            cases.append(dict(pat="ACGTAC", k=1, indel=False, seq="ttacgtacttacgaactt", begin=0, length=-1, apis=True, prev=prev, prevcirc=circ, tag="recycled"))
            cases.append(dict(pat="ACGTAC", k=1, indel=True, seq="ttacgtacttacgaactt", begin=3, length=4, apis=True, prev=prev, prevcirc=circ, tag="recycled"))
    cases += gen_window_cases(rng, 12 if ctx.quick else 150)
    cases += gen_leftcut_cases(rng, 6 if ctx.quick else 200)
    cases += gen_boundary_length_cases(rng)
    cases.append(dict(kind="locate", pat="", seq="acgt", tag="locate-empty-pattern"))
    cases.append(dict(kind="locate", pat="", seq="", tag="locate-empty-pattern"))
    # object lifecycles: pattern, complemented pattern and sequences (fresh and recycled) left to the finalizers, then used again
    for prev in (None, "acgtacgtacgtacgt", "acgt" * 100):
        for indel in (False, True):
            c = dict(pat="ACGTAC", k=1, indel=indel, seq="ttacgtacttacgaactt", begin=0, length=-1, apis=True, gc=True, tag="lifecycle-finalizers")
            if prev is not None:
                c["prev"] = prev
            if not indel:
                c["rcseq"] = revcomp_text(c["seq"])
            cases.append(c)
    for m in range(1, 64):                      # every pattern length, match touching both ends of the text
        pat = gen_pattern(rng, m, 0.15)
        P = parse_pattern(pat)
        k = m % 5
        w = "".join(instance(rng, P))
        w2 = "".join(mutate(rng, instance(rng, P), min(k, m), 0))
        fill = "".join(rng.choice("acgt") for _ in range(rng.randrange(0, 5)))
        seq = w + fill + w2
        cases.append(dict(pat=pat, k=k, indel=False, seq=seq, begin=0, length=-1, apis=True, rcseq=revcomp_text(seq)))
        cases.append(dict(pat=pat, k=k, indel=True, seq=seq, begin=0, length=-1, apis=True))
    # indel matches in a remainder shorter than the pattern: an occurrence carrying deletions ends flush with the sequence
    # and the search starts fewer than |pattern| symbols before the end (truncated primer at the 3' end of a read)
    for m in (6, 9, 12, 18, 20, 25, 33):
        for ndel in (1, 2, 3):
            pat = gen_pattern(rng, m, 0.0)
            P = parse_pattern(pat)
            w = instance(rng, P)
            for _ in range(ndel):
                del w[rng.randrange(0, len(w))]
            pre = "".join(rng.choice("acgt") for _ in range(rng.randrange(0, 30)))
            seq = pre + "".join(w)
            for begin in sorted({len(pre), max(0, len(pre) - 1), max(0, len(seq) - m + 1), 0}):
                cases.append(dict(pat=pat, k=ndel, indel=True, seq=seq, begin=begin, length=-1, apis=True, tag="indel-remainder-shorter-than-pattern"))
            cases.append(dict(pat=pat, k=ndel, indel=True, seq="".join(w), begin=0, length=-1, apis=True, tag="sequence-shorter-than-pattern"))
    for _ in range(n):
        cases.append(gen_case(rng))
    return cases


def gen_exhaustive(alpha="ac", maxm=3, maxl=6):
    """every pattern over ALPHA of 1..maxm symbols x every text over alpha of 0..maxl symbols x budgets 0..2 x both modes"""
    import itertools
    cases = []
    for m in range(1, maxm + 1):
        for p in itertools.product(alpha.upper(), repeat=m):
            for L in range(0, maxl + 1):
                for t in itertools.product(alpha, repeat=L):
                    for k in (0, 1, 2):
                        for indel in (False, True):
                            if indel and k == 0:
                                continue
                            cases.append(dict(pat="".join(p), k=k, indel=indel, seq="".join(t), begin=0, length=-1, apis=True))
    return cases


def oracle_selfcheck(rng, n=150):
    """the Sellers column used as oracle == brute force over every substring (plain edit distance)"""
    for _ in range(n):
        m = rng.randrange(1, 6)
        P = parse_pattern(gen_pattern(rng, m, 0.2).replace("#", ""))
        t = text_codes("".join(rng.choice("acgt") for _ in range(rng.randrange(0, 9))))
        d = sellers(P, t, 0, len(t), False)
        for j in range(len(t)):
            brute = min([edit_distance(P, t[i:j + 1]) for i in range(0, j + 2)])
            if brute != d[j]:
                return dict(pattern=P, text=t, end=j, sellers=d[j], brute=brute)
    return None


def gen_locate_cases(ctx, n):
    rng = ctx.rng
    cases = []
    for _ in range(n):
        m = rng.randrange(1, 12) if rng.random() < 0.5 else rng.randrange(12, 40)
        pat = "".join(rng.choice("acgt" if rng.random() < 0.85 else "acgtrynvbdh") for _ in range(m))
        P = parse_pattern(pat)
        L = rng.randrange(m + 1, m + 12) if rng.random() < 0.8 else rng.randrange(0, m + 1)
        t = [rng.choice("acgt") for _ in range(L)]
        w = mutate(rng, instance(rng, P), rng.randrange(0, 3), rng.randrange(0, 3))
        p = rng.choice([0, L - len(w), rng.randrange(0, L + 1), -1, -2])
        for i, ch in enumerate(w):
            if 0 <= p + i < L:
                t[p + i] = ch
        cases.append(dict(kind="locate", pat=pat, seq="".join(t)))
    return cases


# ------------------------------------------------------------------ direct oracle
def plain_text(seq):
    return all(c in "acgt" for c in seq)


def judge(c, o):
    """list of (clause, detail) violated by observation o on case c"""
    bad = []
    if c.get("kind") == "locate":
        return judge_locate(c, o)
    if c.get("kind") == "pred":
        return judge_pred(c, o)
    P = parse_pattern(c["pat"])
    if c.get("malformed"):
        if o["kind"] != "paterr":
            bad.append(("malformed-accepted", o["kind"]))
        return bad
    if c.get("junk"):
        # accepted by CheckPattern although outside the documented grammar ("A##", "A!#", "!!A"): the property says nothing about
        # them; the model follows the C code on them (correspondence only)
        return [] if o["kind"] in ("ok", "paterr") else [("junk-crash", o.get("err", o["kind"]))]
    if o["kind"] != "ok":
        return [("not-ok", o.get("err", o["kind"]))]
    if o["patlen"] != len(P):
        return [("patlen", o["patlen"])]
    if o.get("stored") is not None and o["stored"] != c["seq"].lower():
        return [("stored-sequence", o["stored"][:60])]          # BioSequence holds the lower-cased bytes
    t = text_codes(c["seq"])
    k, indel = c["k"], c["indel"]
    if len(P) >= MAXPAT:
        return bad                                   # observed only (reported in coverage)
    has_ob = any(ob for _, ob in P)
    if not indel or k == 0:
        exp = find_all_spec(P, k, t, c["begin"], c["length"])
    elif not has_ob:
        exp = find_indel_spec(P, k, t, c["begin"], c["length"])
    else:
        exp = None
    if exp is not None:
        if o["find"] != exp:
            bad.append(("find", dict(expected=exp)))
        if o["matching"] != bool(exp):
            bad.append(("ismatching", bool(exp)))
    else:
        # indels + obligatory positions: the statement fixes no exact semantics; sandwich between the edit distance
        # in which obligatory positions take part in no operation (sufficient) and the plain edit distance (necessary)
        b, e = window(c["begin"], c["length"], len(t))
        strict, loose = sellers(P, t, b, e, True), sellers(P, t, b, e, False)
        got = {h[1] - 1: h[2] for h in o["find"]}
        for j in range(b, e):
            if strict[j - b] <= k and not (j in got and got[j] <= strict[j - b]):
                bad.append(("find-indel-oblig-missed", dict(end=j, distance=strict[j - b])))
                break
            if j in got and got[j] < loose[j - b]:
                bad.append(("find-indel-oblig-spurious", dict(end=j, distance=loose[j - b])))
                break
        if any(h[1] - 1 not in range(b, e) or h[1] - h[0] != len(P) for h in o["find"]) or o["matching"] != bool(o["find"]):
            bad.append(("find-indel-oblig-shape", None))
    if indel and k > 0 and not has_ob:
        # statement clause: a hit is reported iff some substring of the window lies within the edit budget
        b, e = window(c["begin"], c["length"], len(t))
        anyhit = any(d <= k for d in sellers(P, t, b, e, False))
        if bool(o["find"]) != anyhit:
            bad.append(("indel-iff", anyhit))
    if "rcseq" in c and (not indel or k == 0):
        CP = comp_pattern_spec(P)
        got = parse_pattern(o.get("cpat", "")) if not o.get("cerr") else None
        if got != CP:
            bad.append(("comp-pattern", dict(cpat=o.get("cpat"), cerr=o.get("cerr"))))
        else:
            n = len(t)
            full = find_all_spec(P, k, t, 0, -1)
            mirror = sorted([n - h[1], n - h[0], h[2]] for h in full)
            if o["cfind"] != mirror:
                bad.append(("revcomp-mirror", dict(expected=mirror)))
    if c.get("apis"):
        bad += judge_apis(c, o, P, t)
    return bad


def judge_apis(c, o, P, t):
    bad = []
    k, indel = c["k"], c["indel"]
    find, n, m = o["find"], len(t), len(P)
    msg = filter_best_props(find, o["filter"])
    if msg:
        bad.append(("filter", msg))
    realign = indel and k > 0
    exact_ok = plain_text(c["seq"]) and all(ch in "ACGTURYMKSWBDHVNX" for ch in c["pat"].upper())
    # reads holding IUPAC ambiguity codes, pattern of IUPAC letters (no X): the automaton counts such a symbol as a mismatch against
    # every pattern position, the re-alignment (obialign._samenuc) as compatible: the re-aligned count can only be LOWER than the
    # edit distance under the automaton's symbol sets (known finding text-ambiguity-realign); higher is a violation
    amb = (not exact_ok) and all(ch in "acgtrymkswbdhvnu" for ch in c["seq"].lower()) and all(ch in "ACGTURYMKSWBDHVN" for ch in c["pat"].upper())
    # AllMatches
    if o.get("all_panic"):
        bad.append(("all-panic", o["all_panic"]))
    elif not realign:
        if o["all"] != o["filter"]:
            bad.append(("all", "differs from the filtered hits"))
    else:
        if bool(o["all"]) != bool(find) and exact_ok:
            bad.append(("all-iff", "AllMatches empty/non-empty differs from the automaton"))
        for s, e, d in o["all"]:
            if not (0 <= s <= e <= n):
                bad.append(("all-span", [s, e, d]))
            elif exact_ok and (edit_distance(P, t[s:e]) != d or d > k):
                bad.append(("all-count", dict(reported=[s, e, d], edit_distance=edit_distance(P, t[s:e]))))
            elif amb and [s, e, d] not in find and (d > k or d > edit_distance(P, t[s:e])):
                bad.append(("all-count", dict(reported=[s, e, d], edit_distance=edit_distance(P, t[s:e]))))
            elif amb and [s, e, d] not in find and d < edit_distance(P, t[s:e]):
                bad.append(("all-count-text-ambiguity", dict(reported=[s, e, d], edit_distance_automaton_semantics=edit_distance(P, t[s:e]))))
    # BestMatch
    if o.get("best_panic"):
        bad.append(("best-panic", o["best_panic"]))
    elif o["best"] is not None:
        s, e, d, matched = o["best"]
        if not realign:
            if find:
                mn = min(h[2] for h in find)
                first = [h for h in find if h[2] == mn][0]
                if [s, e, d, matched] != first + [1]:
                    bad.append(("best", dict(expected=first + [1])))
            elif matched:
                bad.append(("best", "matched without hit"))
        else:
            if bool(matched) != bool(find):
                bad.append(("best-iff", dict(find=find[:3])))
            if matched:
                if not (0 <= s <= e <= n):
                    bad.append(("best-span", [s, e, d]))
                elif exact_ok and edit_distance(P, t[s:e]) != d:
                    bad.append(("best-count", dict(reported=[s, e, d], edit_distance=edit_distance(P, t[s:e]))))
                elif exact_ok and d > min(h[2] for h in find):
                    bad.append(("best-count-above-automaton", dict(reported=[s, e, d], automaton=min(h[2] for h in find))))
                elif amb and min(h[2] for h in find) > 0 and d > edit_distance(P, t[s:e]):
                    bad.append(("best-count", dict(reported=[s, e, d], edit_distance=edit_distance(P, t[s:e]))))
                elif amb and min(h[2] for h in find) > 0 and d < edit_distance(P, t[s:e]):
                    bad.append(("best-count-text-ambiguity", dict(reported=[s, e, d], edit_distance_automaton_semantics=edit_distance(P, t[s:e]))))
    return bad


def strand_matches(P, k, indel, t):
    """True / False: some occurrence of P lies in the whole text t within the budget; None when the statement does not decide
    (indels + obligatory positions: between the two readings of the sandwich)"""
    if not indel or k == 0:
        return bool(find_all_spec(P, k, t, 0, len(t)))
    if not any(ob for _, ob in P):
        return any(d <= k for d in sellers(P, t, 0, len(t), False))
    if any(d <= k for d in sellers(P, t, 0, len(t), True)):
        return True
    if not any(d <= k for d in sellers(P, t, 0, len(t), False)):
        return False
    return None


def pred_spec(P, k, indel, both, seq):
    """executable statement for IsPatternMatchSequence / obigrep --approx-pattern: the pattern occurs in the sequence, or (both strands)
    in its reverse complement - the second clause of the property read from the sequence side, independent of complementPattern"""
    fwd = strand_matches(P, k, indel, text_codes(seq))
    if fwd or not both:
        return fwd
    if indel and k > 0 and any(ob for _, ob in P):
        # indels + obligatory positions: the code's reading is not symmetric under reversal (a text symbol may be inserted before an
        # obligatory position, not after it): the sandwich is taken for the complemented pattern on the sequence itself
        rev = strand_matches(comp_pattern_spec(P), k, indel, text_codes(seq))
    else:
        rev = strand_matches(P, k, indel, text_codes(revcomp_text(seq.lower())))
    if rev:
        return True
    return None if (fwd is None or rev is None) else False


def judge_pred(c, o):
    P = parse_pattern(c["pat"])
    if c.get("malformed"):
        return [] if o["kind"] == "paterr" else [("malformed-accepted", o["kind"])]
    if o["kind"] != "ok":
        return [("not-ok", o.get("err", o["kind"]))]
    if o["patlen"] != len(P) or len(o.get("preds") or []) != len(c["seqs"]):
        return [("pred-shape", o.get("patlen"))]
    bad = []
    for i, (seq, got) in enumerate(zip(c["seqs"], o["preds"])):
        exp = pred_spec(P, c["k"], c["indel"], c["both"], seq)
        if exp is not None and exp != got:
            bad.append(("predicate", dict(sequence_index=i, sequence=seq, expected=exp, reported=got)))
            break
    return bad


def judge_locate(c, o):
    P = parse_pattern(c["pat"])
    t = text_codes(c["seq"])
    if c["pat"] == "":
        # outside the quantifier (patterns have 1..64 symbols): LocatePattern must refuse, not answer a span
        return [] if (o.get("loc_panic") or "").startswith("refused") else [("locate-empty-pattern-not-refused", o.get("loc") or o.get("loc_panic"))]
    if o.get("loc_panic"):
        return [("locate-panic", o["loc_panic"])]
    s, e, d = o["loc"]
    bad = []
    best = best_substring_distance(P, t)
    if d != best:
        bad.append(("locate-score", dict(reported=d, minimal=best)))
    if not (0 <= s <= e <= len(t)):
        bad.append(("locate-span", [s, e, d]))
    elif edit_distance(P, t[s:e]) != d:
        bad.append(("locate-count", dict(reported=[s, e, d], edit_distance=edit_distance(P, t[s:e]))))
    return bad



# ------------------------------------------------------------------ command-line glue: obigrep --approx-pattern (options.go -> predicat.go)
def gen_cli_cases(ctx, n):
    rng = ctx.rng
    fixed = [
        dict(kind="cli", pats=["AACC"], k=0, indel=False, only_forward=False, extra=[], stdin=False,
             seqs=["ccggaacc", "ttggttaa", "ttttt", "aac", "AACC", "ggtt", "ggt"], tag="cli-corpus"),
        dict(kind="cli", pats=["AACC"], k=0, indel=False, only_forward=True, extra=["--force-one-cpu"], stdin=True,
             seqs=["ccggaacc", "ttggttaa", "ttttt", "aac", "AACC", "ggtt", "ggt"], tag="cli-corpus"),
        dict(kind="cli", pats=["AACCT", "GGC"], k=1, indel=True, only_forward=False, extra=["--batch-size", "2"], stdin=False,
             seqs=["ttaacgttggc", "ttacctt", "ttaggttgcc", "aggtgc", "ggt", "tt", "gccaggt"], tag="cli-corpus"),
        dict(kind="cli", pats=["A["], k=0, indel=False, only_forward=False, extra=[], stdin=False, seqs=["acgt"], malformed=True, tag="cli-corpus"),
    ]
    cases = fixed
    for _ in range(n):
        npat = 1 if rng.random() < 0.7 else 2
        k = rng.choice([0, 1, 1, 2, 3])
        indel = rng.random() < 0.4
        pats, seqs = [], []
        for _ in range(npat):
            pat = gen_pattern(rng, rng.choice([3, 5, 8, 12, 18, 25, 40, 63]), rng.choice([0.0, 0.15, 0.5]))
            pats.append(pat if rng.random() < 0.7 else pat.lower())
            seqs += gen_pred_seqs(rng, parse_pattern(pat), k, indel, rng.randrange(4, 14))
        if npat == 2:               # some sequences carry a site of both patterns
            P0, P1 = parse_pattern(pats[0]), parse_pattern(pats[1])
            for _ in range(4):
                a, b = "".join(instance(rng, P0)), "".join(instance(rng, P1))
                if rng.random() < 0.5:
                    b = revcomp_text(b)
                seqs.append("tt" + a + "cagt" + b + "a")
        rng.shuffle(seqs)
        extra = rng.choice([[], [], ["--force-one-cpu"], ["--max-cpu", "2"], ["--batch-size", "1"], ["--batch-size", "3", "--max-cpu", "3"], ["--no-order"]])
        cases.append(dict(kind="cli", pats=pats, k=k, indel=indel, only_forward=rng.random() < 0.3, extra=extra, stdin=rng.random() < 0.25, seqs=seqs))
    return cases


def cli_twins(c):
    """the in-process predicate cases (vh c10 kind pred) of one command-line case"""
    return [dict(kind="pred", pat=p, k=c["k"], indel=c["indel"], both=not c["only_forward"], seqs=c["seqs"], tag="cli-twin",
                 **({"malformed": True} if c.get("malformed") else {})) for p in c["pats"]]


def run_cli(ctx, bindir, c, num=0):
    import tempfile
    from vlib import sh
    d = tempfile.mkdtemp(prefix="c10cli_")
    path = os.path.join(d, "in.fasta")
    with open(path, "w") as f:
        for i, x in enumerate(c["seqs"]):
            f.write(">s%04d\n%s\n" % (i, x))
    argv = [os.path.join(bindir, "obigrep")]
    for pat in c["pats"]:
        argv += ["--approx-pattern", pat]
    if c["k"] or num % 2:
        argv += ["--pattern-error", str(c["k"])]
    if c["indel"]:
        argv.append("--allows-indels")
    if c["only_forward"]:
        argv.append("--only-forward")
    argv += ["--no-progressbar"] + list(c.get("extra") or [])
    try:
        if c.get("stdin"):
            rc, out, err, dt = sh(argv, timeout=120, inp=open(path, "rb").read())
        else:
            rc, out, err, dt = sh(argv + [path], timeout=120)
    finally:
        import shutil
        shutil.rmtree(d, ignore_errors=True)
    ids = [int(l[2:].split()[0]) for l in out.splitlines() if l.startswith(">s")]
    return dict(rc=rc, selected=sorted(ids), argv=argv[1:], err=err[-300:] if rc else "")


def cli_term(c, o):
    return "CGrep [%s] %d %s %s [%s] [%s]" % (";".join(bytes_term(p.encode()) for p in c["pats"]), c["k"], "true" if c["only_forward"] else "false",
                                            "true" if c["indel"] else "false",
                                            ";".join(bytes_term(x.lower().encode("latin-1")) for x in c["seqs"]),
                                            ";".join(zt(i) for i in o["selected"]))


def judge_cli(c, o, twins_obs):
    """direct oracle (every --approx-pattern occurs, on either strand unless --only-forward) + differential against the in-process
    predicate objects (which the oracle and the model judge on their own)"""
    if c.get("malformed"):
        return [] if (o["rc"] != 0 and not o["selected"]) else [("cli-malformed-pattern-accepted", o)]
    if o["rc"] != 0:
        return [("cli-failed", o["err"])]
    bad = []
    Ps = [parse_pattern(p) for p in c["pats"]]
    exp, undecided = [], set()
    for i, x in enumerate(c["seqs"]):
        v = [pred_spec(P, c["k"], c["indel"], not c["only_forward"], x) for P in Ps]
        if any(a is False for a in v):
            continue
        if any(a is None for a in v):
            undecided.add(i)
        else:
            exp.append(i)
    got = [i for i in o["selected"] if i not in undecided]
    if got != exp:
        diff = sorted(set(got) ^ set(exp))
        bad.append(("cli-selection", dict(expected=exp, wrongly_selected=[i for i in diff if i in got], missed=[i for i in diff if i in exp],
                                          first_sequence=c["seqs"][diff[0]] if diff else None)))
    if twins_obs is not None and all(t.get("kind") == "ok" for t in twins_obs):
        inproc = [i for i in range(len(c["seqs"])) if all(t["preds"][i] for t in twins_obs)]
        if inproc != o["selected"]:
            bad.append(("cli-differs-from-in-process", dict(in_process=inproc, command=o["selected"])))
    return bad



# ------------------------------------------------------------------ command-line glue: obiannotate --pattern (BestMatch on both strands)
def gen_annot_cases(ctx, n):
    rng = ctx.rng
    cases = [dict(kind="annot", pat="AACC", k=1, indel=True, only_forward=False, extra=[],
                  seqs=["ttacgttt", "ttttt", "acgt", "ttaacgtt", "ccggaacc", "ttggttaa", "aac", "gtt"], tag="annot-corpus"),
             dict(kind="annot", pat="AACC", k=0, indel=False, only_forward=True, extra=["--force-one-cpu"],
                  seqs=["ttacgttt", "ccggaacc", "ttggttaa", "aaccaacc"], tag="annot-corpus")]
    for _ in range(n):
        pat = gen_pattern(rng, rng.choice([3, 5, 8, 12, 18, 25, 40]), rng.choice([0.0, 0.15, 0.5]))
        k = rng.choice([0, 1, 1, 2, 3])
        indel = rng.random() < 0.5
        seqs = ["".join(ch if ch in "acgt" else "a" for ch in x.lower()) for x in gen_pred_seqs(rng, parse_pattern(pat), k, indel, rng.randrange(4, 12))]
        cases.append(dict(kind="annot", pat=pat, k=k, indel=indel, only_forward=rng.random() < 0.3, seqs=seqs,
                          extra=rng.choice([[], [], ["--force-one-cpu"], ["--batch-size", "1"], ["--max-cpu", "2"]])))
    return cases


def run_annot(ctx, bindir, c):
    import tempfile, shutil
    from vlib import sh
    d = tempfile.mkdtemp(prefix="c10ann_")
    path = os.path.join(d, "in.fasta")
    with open(path, "w") as f:
        for i, x in enumerate(c["seqs"]):
            f.write(">s%04d\n%s\n" % (i, x))
    argv = [os.path.join(bindir, "obiannotate"), "--pattern", c["pat"], "--pattern-error", str(c["k"])]
    if c["indel"]:
        argv.append("--allows-indels")
    if c["only_forward"]:
        argv.append("--only-forward")
    argv += ["--no-progressbar"] + list(c.get("extra") or [])
    try:
        rc, out, err, dt = sh(argv + [path], timeout=120)
    finally:
        shutil.rmtree(d, ignore_errors=True)
    recs = {}
    for l in out.splitlines():
        if l.startswith(">s"):
            head = l[1:].split(None, 1)
            try:
                recs[int(head[0][1:])] = json.loads(head[1]) if len(head) > 1 and head[1].strip().startswith("{") else {}
            except ValueError:
                recs[int(head[0][1:])] = dict(unparsed=head[1][:200])
    return dict(rc=rc, records=recs, argv=argv[1:], err=err[-300:] if rc else "")


def best_usable(o, n):
    b = o.get("best") if o.get("kind") == "ok" else None
    return b if (b and b[3] and b[0] >= 0 and b[1] <= n) else None


def annot_expected(c, i, o1, o2):
    """what obiannotate --pattern has to write for sequence i, from the in-process BestMatch observations (pattern, then the
    complemented pattern when nothing usable was found and both strands are searched) - themselves judged by oracle and model"""
    x = c["seqs"][i]
    b = best_usable(o1, len(x))
    if b:
        return dict(pattern=c["pat"], pattern_error=b[2], pattern_location="%d..%d" % (b[0] + 1, b[1]), pattern_match=x[b[0]:b[1]])
    if not c["only_forward"] and o2 is not None:
        b = best_usable(o2, len(x))
        if b:
            return dict(pattern=c["pat"], pattern_error=b[2], pattern_location="complement(%d..%d)" % (b[0] + 1, b[1]),
                        pattern_match=revcomp_text(x[b[0]:b[1]]))
    return {}


def judge_annot(c, o, exp):
    if o["rc"] != 0:
        return [("annot-failed", o["err"])]
    if sorted(o["records"]) != list(range(len(c["seqs"]))):
        return [("annot-records", sorted(o["records"])[:10])]
    for i, x in enumerate(c["seqs"]):
        got = {k: v for k, v in o["records"][i].items() if k.startswith("pattern")}
        if exp[i] is not None and got != exp[i]:
            return [("annot-best-match", dict(sequence_index=i, sequence=x, expected=exp[i], written=got))]
        if got:                 # direct: the span is inside the sequence, the text is the span (reverse-complemented on the other strand)
            m = re.match(r"^(complement\()?(\d+)\.\.(\d+)\)?$", str(got.get("pattern_location")))
            if not m or not (1 <= int(m.group(2)) <= int(m.group(3)) + 1 <= len(x) + 1):
                return [("annot-location", dict(sequence_index=i, sequence=x, written=got))]
            span = x[int(m.group(2)) - 1:int(m.group(3))]
            # the count is within the budget on patterns of IUPAC letters; with classes / '!' / '#' the re-alignment reads the bytes of the
            # pattern string (outside the agreement domain, see META note): BestMatch does not filter it by the budget
            letters = all(ch in "ACGTURYMKSWBDHVN" for ch in c["pat"].upper())
            if got.get("pattern_match") != (revcomp_text(span) if m.group(1) else span) or got.get("pattern_error", -1) < 0 or \
                    (letters and got["pattern_error"] > c["k"]):
                return [("annot-match-text", dict(sequence_index=i, sequence=x, written=got))]
    return []


# ------------------------------------------------------------------ Coq rendering
IMPORTS = ("From Coq Require Import NArith ZArith List Bool. Import ListNotations.\n"
           "From OBI.C10 Require Import Model.\nOpen Scope Z_scope.")


def zt(x):
    return "(%d)" % x


def pat_term(P):
    return "[" + ";".join("(%d%%N,%s)" % (m, "true" if ob else "false") for m, ob in P) + "]"


def triples_term(l):
    return "[" + ";".join("(%s,%s,%s)" % (zt(a), zt(b), zt(c)) for a, b, c in l) + "]"


def bytes_term(b):
    return "[" + ";".join(str(x) for x in b) + "]%N"


def case_term(c, o):
    if c.get("kind") == "locate":
        return "CLocate %s %s (%s,%s,%s)" % (bytes_term(c["pat"].encode()), bytes_term(c["seq"].encode()), zt(o["loc"][0]), zt(o["loc"][1]), zt(o["loc"][2]))
    if o.get("kind") == "paterr":
        return "CPatErr %s" % bytes_term(c["pat"].encode())
    if c.get("kind") == "pred":
        return "CPred %s %d %s %s [%s] [%s]" % (bytes_term(c["pat"].encode()), c["k"], "true" if c["both"] else "false",
                                               "true" if c["indel"] else "false",
                                               ";".join(bytes_term(x.lower().encode("latin-1")) for x in c["seqs"]),
                                               ";".join("true" if b else "false" for b in o["preds"]))
    raw = list((o.get("stored") if o.get("stored") is not None else c["seq"].lower()).encode("latin-1"))
    apis = "None"
    if c.get("apis") and not o.get("all_panic") and not o.get("best_panic") and o.get("best") is not None:
        b = o["best"]
        apis = "(Some (%s, %s, (%s,%s,%s,%s)))" % (triples_term(o["filter"]), triples_term(o["all"]), zt(b[0]), zt(b[1]), zt(b[2]),
                                                  "true" if b[3] else "false")
    cp = "None"
    if "rcseq" in c and o.get("cpat") and not c.get("junk"):      # the complement of a string outside the grammar is not claimed
        cp = "(Some %s)" % bytes_term(o["cpat"].encode())
    # the pattern goes to the model as the bytes of its string: the model runs its own CheckPattern / EncodePattern
    return "CMatch (mkc %s %d %s [%s]%%N %s %s %s %s %s %s)" % (bytes_term(c["pat"].encode()), c["k"], "true" if c["indel"] else "false",
                                                               ";".join(map(str, raw)), zt(c["begin"]), zt(c["length"]), zt(o["patlen"]),
                                                               triples_term(o["find"]), apis, cp)


KNOWN_M64 = "m64-rejected"
KNOWN_X = "x-pattern-realign"
KNOWN_N = "text-ambiguity-realign"


def evaluate(ctx, cases, broken, label, report=True, corr=True, judge_fn=None, binary=None):
    obs = ctx.vh_robust("c10", [{k: v for k, v in c.items() if k not in ("tag", "malformed", "junk")} for c in cases], timeout=600, one_timeout=10,
                        binary=binary)
    nviol = 0
    failed = set()
    seen_clauses = set()
    for i, (c, o) in enumerate(zip(cases, obs)):
        if o.get("kind") == "crash":
            bad = [("crash", o.get("err"))]
        else:
            bad = (judge_fn or judge)(c, o)
        if bad and c.get("kind") != "locate" and "X" in c.get("pat", "").upper() and c.get("indel") and c.get("k", 0) > 0 \
                and all(b[0] in ("all-count", "all-iff", "best-count", "best-count-above-automaton") for b in bad) and ctx.kf_match(KNOWN_X):
            ctx.known(KNOWN_X, "a pattern position X (any base for the automaton: sDnaCode) is compatible with no base in obialign._iupac: the "
                               "re-alignment of an indel hit counts it as an error (AllMatches / BestMatch count, hit possibly dropped)")
            failed.add(i)
            bad = []
        if bad and all(b[0] in ("all-count-text-ambiguity", "best-count-text-ambiguity") for b in bad) and ctx.kf_match(KNOWN_N):
            ctx.known(KNOWN_N, "a read symbol that is an IUPAC ambiguity code (n, r, y, ...) mismatches every pattern position in the C automaton "
                               "(FindAllIndex count) but is compatible with it in obialign._samenuc: the count of a re-aligned indel match "
                               "(AllMatches / BestMatch) is below the edit distance the automaton reported for the same span")
            failed.add(i)
            bad = []
        if bad:
            failed.add(i)
            nviol += 1
            if report and bad[0][0] not in seen_clauses and len(seen_clauses) < 8:     # one replay per violated clause
                seen_clauses.add(bad[0][0])
                ctx.violation("%s_oracle_%d_%s" % (label, i, bad[0][0]), dict(property="C10", kind="direct-oracle", clause=bad[0][0], case=c,
                                                                              implementation=o, detail=[list(b) for b in bad][:4]))
    if not corr:
        return obs, [], failed
    idx = [i for i, (c, o) in enumerate(zip(cases, obs))
           if (c.get("kind") == "locate" and o.get("loc") is not None and c["pat"] != "") or
              (c.get("kind") != "locate" and (o.get("kind") == "paterr" or (o.get("kind") == "ok" and 0 < o["patlen"] < MAXPAT)))]
    # sequences of thousands of symbols are heavy inside Coq (lists of N): at most 12 of them go through the model, in small shards
    # of their own; the others are judged by the direct oracle only
    longs = [i for i in idx if cases[i].get("kind") != "locate" and len(cases[i].get("seq", "")) > 2000]
    keep_long = set(longs[:12])
    ctx.cov["long_sequences_oracle_only"] = ctx.cov.get("long_sequences_oracle_only", 0) + len(longs) - len(keep_long)
    short = [i for i in idx if i not in set(longs)]
    mism = []
    for part, name, shard in ((short, label, 100), (sorted(keep_long), label + "_long", 3)):
        if not part:
            continue
        for attempt in range(2):
            bad, err = ctx.correspond(name, IMPORTS, [case_term(cases[i], obs[i]) for i in part], shard=shard)
            if bad is None and ("Killed" in err[-300:] or "Terminated" in err[-300:]) and "Error" not in err and attempt == 0:
                import time
                time.sleep(45)          # coqc killed from outside (out-of-memory on a loaded machine): once more
                continue
            break
        if bad is None:
            broken.append(dict(kind="correspondence", detail=err))
            return obs, [], failed
        mism += [part[i] for i in bad]
    return obs, sorted(mism), failed


def m64_cases(ctx, n):
    """patterns of 64 symbols (in the quantifier of the property) and longer ones (outside it)"""
    rng = ctx.rng
    cases = [dict(pat="ACGT" * 16, k=0, indel=False, seq="tt" + "acgt" * 16 + "tt", begin=0, length=-1, apis=False, tag="m64")]
    for m in (64, 65):              # exactly at and just above the limit, every mode, strings with classes and modifiers
        for pat in ("ACGT" * 16 + "A" * (m - 64), "[AC]" + "CGTA" * 15 + "CGT" + "A" * (m - 64), "A#" + "!C" + "GTAC" * 15 + "GT" + "A" * (m - 64)):
            w = "".join(instance(rng, parse_pattern(pat)))
            for k, indel in ((0, False), (1, False), (1, True)):
                cases.append(dict(pat=pat, k=k, indel=indel, seq="tt" + w + "ttt" + w[1:] + "t", begin=0, length=-1, apis=False, tag="m%d" % m))
    for i in range(n):
        m = 64 if i % 2 == 0 else rng.choice([65, 66, 70, 100, 127, 128, 129, 200])
        pat = gen_pattern(rng, m, rng.choice([0.0, 0.0, 0.15]))
        P = parse_pattern(pat)
        k = rng.choice([0, 1, 2])
        cases.append(dict(pat=pat, k=k, indel=rng.random() < 0.3, seq=gen_text(rng, P, k, False), begin=0, length=-1, apis=False, tag="m%d" % m))
    return cases


def judge_m64(ctx, c64, o64):
    """64 symbols: the documented maximum when the property was written. As repaired MakeApatPattern refuses >= 64 symbols: a clean
    error is still not what the letter of the property asks for length 64 (known finding); accepting such a pattern and answering
    anything but the specification is a violation; longer patterns must be refused."""
    wrong = 0
    for i, (c, o) in enumerate(zip(c64, o64)):
        P = parse_pattern(c["pat"])
        exp = find_all_spec(P, c["k"], text_codes(c["seq"]), 0, -1)
        if o.get("kind") == "paterr":
            if len(P) == 64:
                wrong += 1
                if ctx.kf_match(KNOWN_M64):
                    ctx.known(KNOWN_M64, "a pattern of 64 symbols (the maximum of the property's quantifier) is refused by MakeApatPattern "
                                         "('pattern too long': the 64-bit state word holds 63 positions)")
                else:
                    ctx.violation("m64_%d" % i, dict(property="C10", kind="direct-oracle", clause="m64-rejected", case=c, implementation=o, expected=exp))
        elif o.get("kind") != "ok" or c["indel"] or o["find"] != exp:
            # accepted: then it has to match like any other pattern (mismatch mode is exact; an accepted indel pattern of this size is not modelled)
            wrong += 1
            if wrong <= 3:
                ctx.violation("m64_%d" % i, dict(property="C10", kind="direct-oracle", clause="pattern-too-long-accepted", case=c,
                                                 implementation={k: (v[:6] if isinstance(v, list) else v) for k, v in o.items()}, expected=exp[:6]))
    return wrong


def run(ctx, broken):
    import time
    clock = [time.time()]
    phases = ctx.cov.setdefault("phase_seconds", {})

    def lap(name):
        now = time.time()
        phases[name] = round(phases.get(name, 0) + now - clock[0], 1)
        clock[0] = now
    t = getattr(ctx, "_c10_tables", None) or dump_tables(ctx)
    replay_tables(ctx, t)
    n = 300 if ctx.quick else 8000
    sc = oracle_selfcheck(ctx.rng, 100 if ctx.quick else 2000)
    if sc:
        broken.append(dict(kind="oracle-selfcheck", detail=sc))
    cases = gen_cases(ctx, n) + gen_locate_cases(ctx, n // 3)
    if not ctx.quick:
        ex = gen_exhaustive()
        cases += ex
        ctx.cov["exhaustive"] = "every pattern over {A,C} of 1..3 symbols x every text over {a,c} of 0..6 symbols x budgets 0..2 x {mismatch, indel}: %d cases" % len(ex)
    lap("generate")
    obs, mism, failed = evaluate(ctx, cases, broken, "main")
    lap("main: real code + oracle + model")
    # round 3: the predicate behind obigrep --approx-pattern (predicat.go), in process (oracle + model) and through the command
    # line (oracle + differential against the in-process predicate objects)
    extra_mism = []
    bindir, berr = ctx.build_cmds(["obigrep", "obiannotate"])
    lap("build obigrep")
    if bindir is None:
        broken.append(dict(kind="command-build", detail=berr))
    clis = gen_cli_cases(ctx, 10 if ctx.quick else 300) if bindir else []
    pc = gen_pred_cases(ctx, 60 if ctx.quick else 2500)
    if not ctx.quick:
        import itertools
        texts = ["".join(t) for L in range(0, 5) for t in itertools.product("acgt", repeat=L)]
        nex = 0
        for m in (1, 2, 3):
            for p in itertools.product("AC", repeat=m):
                for both in (False, True):
                    for k, indel in ((0, False), (1, False), (1, True)):
                        pc.append(dict(kind="pred", pat="".join(p), k=k, indel=indel, both=both, seqs=texts, tag="pred-exhaustive"))
                        nex += len(texts)
        ctx.cov["exhaustive_predicate"] = ("every pattern over {A,C} of 1..3 symbols x {forward, both strands} x {k=0, k=1 mismatch, k=1 indel} x every "
                                           "sequence over {a,c,g,t} of 0..4 symbols: %d predicate evaluations" % nex)
    twin_at = []
    for c in clis:
        tw = cli_twins(c)
        twin_at.append((len(pc), len(pc) + len(tw)))
        pc += tw
    opred, mpred, fpred = evaluate(ctx, pc, broken, "pred")
    extra_mism += [(pc[i], opred[i]) for i in mpred if i not in fpred]
    lap("predicate: real code + oracle + model")
    ncli_bad = 0
    cli_terms, cli_idx = [], []
    for num, (c, (a, b)) in enumerate(zip(clis, twin_at)):
        o = run_cli(ctx, bindir, c, num)
        bad = judge_cli(c, o, opred[a:b])
        if o["rc"] == 0 and not c.get("malformed") and all(0 < len(parse_pattern(p) or []) < MAXPAT for p in c["pats"]):
            cli_terms.append(cli_term(c, o))
            cli_idx.append(num)
        if bad:
            ncli_bad += 1
            if ncli_bad <= 3:
                ctx.violation("cli_%d_%s" % (num, bad[0][0]), dict(property="C10", kind="command-line", clause=bad[0][0], case=c, implementation=o,
                                                                   detail=[list(x) for x in bad][:3]))
    lap("obigrep runs")
    # obiannotate --pattern: BestMatch of the pattern, then of the complemented pattern, written as pattern_location / _error / _match
    ann = gen_annot_cases(ctx, 5 if ctx.quick else 150) if bindir else []
    tw1, at1 = [], []
    for c in ann:
        at1.append(len(tw1))
        tw1 += [dict(pat=c["pat"], k=c["k"], indel=c["indel"], seq=x, begin=0, length=len(x), apis=True, rcseq=revcomp_text(x), tag="annot-twin")
                for x in c["seqs"]]
    o1, m1, f1 = evaluate(ctx, tw1, broken, "annot") if tw1 else ([], [], set())
    extra_mism += [(tw1[i], o1[i]) for i in m1 if i not in f1]
    tw2, back = [], {}
    for j, (t, o) in enumerate(zip(tw1, o1)):
        if o.get("kind") == "ok" and o.get("cpat") and 0 < o["patlen"] < MAXPAT:
            back[j] = len(tw2)
            tw2.append(dict(pat=o["cpat"], k=t["k"], indel=t["indel"], seq=t["seq"], begin=0, length=len(t["seq"]), apis=True, tag="annot-twin-complement"))
    o2, m2, f2 = evaluate(ctx, tw2, broken, "annotrev") if tw2 else ([], [], set())
    extra_mism += [(tw2[i], o2[i]) for i in m2 if i not in f2]
    nann_bad = 0
    for num, (c, a) in enumerate(zip(ann, at1)):
        o = run_annot(ctx, bindir, c)
        exp = []
        for i in range(len(c["seqs"])):
            j = a + i
            usable = o1[j].get("kind") == "ok" and o1[j].get("best") is not None and j not in f1 and \
                (j not in back or (o2[back[j]].get("best") is not None and back[j] not in f2))
            exp.append(annot_expected(c, i, o1[j], o2[back[j]] if j in back else None) if usable else None)
        bad = judge_annot(c, o, exp)
        if bad:
            nann_bad += 1
            if nann_bad <= 3:
                ctx.violation("annot_%d_%s" % (num, bad[0][0]), dict(property="C10", kind="command-line", clause=bad[0][0], case=c,
                                                                     implementation=dict(rc=o["rc"], argv=o["argv"], records={str(k): v for k, v in o["records"].items()}),
                                                                     detail=[list(x) for x in bad][:3]))
    ctx.cov["command_line_obiannotate"] = dict(runs=len(ann), failing=nann_bad, sequences=sum(len(c["seqs"]) for c in ann),
                                               forward=sum(1 for c, a in zip(ann, at1) for i in range(len(c["seqs"])) if best_usable(o1[a + i], len(c["seqs"][i]))),
                                               complement=sum(1 for c, a in zip(ann, at1) if not c["only_forward"] for i in range(len(c["seqs"]))
                                                              if not best_usable(o1[a + i], len(c["seqs"][i])) and (a + i) in back
                                                              and best_usable(o2[back[a + i]], len(c["seqs"][i]))),
                                               only_forward=sum(1 for c in ann if c["only_forward"]), indel=sum(1 for c in ann if c["indel"]))
    lap("obiannotate runs + twins")
    # the command-line runs through the model too ([grep_select], theorem C10_obigrep_selection)
    cli_mism = []
    if cli_terms:
        badc, errc = ctx.correspond("cli", IMPORTS, cli_terms, shard=25)
        if badc is None:
            broken.append(dict(kind="correspondence", detail=errc))
        else:
            cli_mism = [cli_idx[i] for i in badc]
            if cli_mism and not ncli_bad:
                broken.append(dict(kind="correspondence", name="corr:C10/obigrep --approx-pattern", first_diverging_case=clis[cli_mism[0]],
                                   n_diverging=len(cli_mism)))
    npred_seq = sum(len(c["seqs"]) for c in pc)
    ctx.cov["predicate"] = dict(objects=len(pc), sequences=npred_seq,
                                true=sum(sum(1 for b in (o.get("preds") or []) if b) for o in opred),
                                both_strands=sum(1 for c in pc if c["both"]), indel=sum(1 for c in pc if c["indel"]),
                                reverse_strand_only=sum(1 for c, o in zip(pc, opred) if o.get("kind") == "ok" and c["both"]
                                                        for x, b in zip(c["seqs"], o["preds"])
                                                        if b and strand_matches(parse_pattern(c["pat"]), c["k"], c["indel"], text_codes(x)) is False),
                                model_vs_impl_mismatches=len(mpred))
    ctx.cov["command_line"] = dict(obigrep_runs=len(clis), failing=ncli_bad, sequences=sum(len(c["seqs"]) for c in clis),
                                   through_the_model=len(cli_terms), model_vs_command_mismatches=len(cli_mism),
                                   options=sorted({" ".join(c.get("extra") or []) for c in clis}), stdin=sum(1 for c in clis if c.get("stdin")),
                                   two_patterns=sum(1 for c in clis if len(c["pats"]) > 1), only_forward=sum(1 for c in clis if c["only_forward"]))
    # object lifecycles: Free followed by the garbage collector (Free must disconnect the finalizer), then the objects of the case are
    # left to the finalizers; the C allocator runs without its per-thread cache so that a block released twice aborts the process
    lc = gen_lifecycle_cases(ctx, 12 if ctx.quick else 300)
    olc, mlc, flc = evaluate(ctx, lc, broken, "lifecycle", binary="env GLIBC_TUNABLES=glibc.malloc.tcache_count=0 " + ctx.vh_bin)
    extra_mism += [(lc[i], olc[i]) for i in mlc if i not in flc]
    ctx.cov["lifecycle"] = dict(cases=len(lc), crashed=sum(1 for o in olc if o.get("kind") == "crash"), with_hits=sum(1 for o in olc if o.get("find")),
                                note="Free + garbage collector, then finalizers only; glibc tcache off (a double free aborts)")
    lap("lifecycle")
    # texts with bytes that are not letters: observation only (what the code does is recorded, the model says the same or not)
    nl = nonletter_cases(ctx.rng, 10 if ctx.quick else 200)
    onl, mnl, _ = evaluate(ctx, nl, [], "nonletter", report=False, judge_fn=lambda c, o: [])
    ctx.cov["non_letter_texts"] = dict(cases=len(nl), model_differs=len(mnl),
                                       with_hits=sum(1 for o in onl if o.get("find")),
                                       note="observation only: EncodeSequence maps every byte that is not a lower-case letter to 'a' (ACAT matches ac-t); "
                                            "LocatePattern compares the byte itself")
    # strings accepted by CheckPattern although outside the documented grammar ("A##", "A!#", "!!A"): the property says nothing
    # about them; recorded only (does the model still follow the C code on them?), never an alarm
    junk = [dict(pat=pat, k=k, indel=False, seq="acgtaccgtagnacaacc", begin=0, length=-1, apis=False, junk=True, tag="junk",
                 rcseq=revcomp_text("acgtaccgtagnacaacc")) for pat in JUNK for k in (0, 1)]
    ojunk, mjunk, _ = evaluate(ctx, junk, [], "junk", report=False)
    ctx.cov["outside_grammar"] = dict(cases=len(junk), accepted=sum(1 for o in ojunk if o.get("kind") == "ok"), model_differs=len(mjunk),
                                      complement_refused=sorted({c["pat"] for c, o in zip(junk, ojunk) if o.get("cerr")}),
                                      note="observation only: strings such as A## or A!# pass CheckPattern; the model transcribes what EncodePattern does with them")
    # patterns of 64 symbols (maximum of the property's quantifier) and more: refused by MakeApatPattern as repaired
    c64 = m64_cases(ctx, 20 if ctx.quick else 300)
    o64, mism64, _ = evaluate(ctx, c64, broken, "m64", report=False, judge_fn=lambda c, o: [])
    miss64 = judge_m64(ctx, c64, o64)
    mism = mism + [len(cases) + i for i in mism64]
    ctx.cov["m64_cases"] = len(c64)
    lap("non-letter, outside-grammar, m64")
    ctx.cov["m64_wrong"] = miss64
    ctx.cov["evaluations"] = len(cases) + len(c64) + npred_seq + len(clis) + len(tw1) + len(tw2) + len(ann)

    def nontrivial(c, o):
        if c.get("kind") == "locate":
            return o.get("loc") is not None and o["loc"][2] > 0
        return o.get("kind") == "ok" and bool(o.get("find"))
    ctx.cov["distinct_nontrivial"] = len({json.dumps(c, sort_keys=True) for c, o in zip(cases, obs) if nontrivial(c, o)}) + \
        len({json.dumps(c, sort_keys=True) for c, o in zip(pc, opred) if any(o.get("preds") or [])})
    ctx.cov["rule"] = ("patterns of 1..63 positions (plain, IUPAC, [classes], ! negation, # obligatory) x planted / mutated / low-complexity texts "
                       "x budgets 0..4 x {mismatch, indel} x windows x recycled or fresh ApatSequence; non-trivial = at least one hit reported "
                       "(locate cases: a re-alignment with at least one error; predicate objects: true on at least one sequence); "
                       "distinct = distinct case")
    dist = {}
    for c, o in zip(cases, obs):
        if c.get("kind") == "locate":
            key = "locate"
        elif c.get("malformed"):
            key = "malformed/" + o.get("kind", "?")
        elif c.get("junk"):
            key = "accepted-outside-grammar/" + o.get("kind", "?")
        else:
            P = parse_pattern(c["pat"])
            key = "%s/k%d/m%s/%s" % ("indel" if c["indel"] else "sub", c["k"], "1-4" if len(P) < 5 else "5-31" if len(P) < 32 else "32-63",
                                    "hit" if o.get("find") else "nohit")
        dist[key] = dist.get(key, 0) + 1
    for c, o in zip(pc, opred):
        key = "predicate/%s/%s/k%d/%s" % ("indel" if c["indel"] else "sub", "both" if c["both"] else "forward", c["k"],
                                        o.get("kind") if o.get("kind") != "ok" else "true" if any(o["preds"]) else "false")
        dist[key] = dist.get(key, 0) + 1
    ctx.cov["distribution"] = dist
    ctx.cov["lifecycle_gc_cases"] = sum(1 for c in cases + pc if c.get("gc"))
    tags = {}
    for c in cases + pc + clis + ann + tw1 + tw2:
        if c.get("tag"):
            tags[c["tag"]] = tags.get(c["tag"], 0) + 1
    ctx.cov["cases_by_tag"] = tags
    ctx.cov["recycled_sequences"] = sum(1 for c in cases if "prev" in c)
    ctx.cov["recycled_from_circular"] = sum(1 for c in cases if c.get("prevcirc"))
    ctx.cov["windows_not_whole"] = sum(1 for c in cases if c.get("kind") != "locate" and (c["begin"], c["length"]) != (0, -1))
    ctx.samples = [dict(case=c, implementation={k: o.get(k) for k in ("kind", "find", "all", "best", "cpat", "loc")})
                   for c, o in list(zip(cases, obs))[:2] + list(zip(cases, obs))[200:202] + list(zip(cases, obs))[-2:]]
    ctx.samples += [dict(case=c, implementation=dict(kind=o.get("kind"), preds=o.get("preds"))) for c, o in list(zip(pc, opred))[10:12]]
    # goal-4 observation, measured: outside the agreement domain (ambiguity codes in the text, classes, negations) the count of a
    # re-aligned match is LocatePattern's (_samenuc), compared here with the edit distance under the automaton's symbol sets
    outside = dict(cases=0, realigned=0, count_equal=0, count_below_automaton_semantics=0, count_above=0, example_below=None, example_above=None)
    for c, o in zip(cases, obs):
        if c.get("kind") == "locate" or c.get("malformed") or o.get("kind") != "ok" or not c.get("apis") or not (c["indel"] and c["k"] > 0):
            continue
        P = parse_pattern(c["pat"])
        if P is None or len(P) >= MAXPAT or "X" in c["pat"].upper():
            continue
        if plain_text(c["seq"].lower()) and all(ch in "ACGTURYMKSWBDHVN" for ch in c["pat"].upper()):
            continue
        outside["cases"] += 1
        t = text_codes(c["seq"])
        for s_, e_, d_ in (o.get("all") or []):
            if [s_, e_, d_] in o["find"] or not 0 <= s_ <= e_ <= len(t):
                continue
            outside["realigned"] += 1
            ed = edit_distance(P, t[s_:e_])
            key = "count_equal" if ed == d_ else "count_below_automaton_semantics" if d_ < ed else "count_above"
            outside[key] += 1
            if d_ < ed and outside["example_below"] is None:
                outside["example_below"] = dict(pat=c["pat"], seq=c["seq"][:80], k=c["k"], reported=[s_, e_, d_], edit_distance_symbol_sets=ed)
            if d_ > ed and outside["example_above"] is None:
                outside["example_above"] = dict(pat=c["pat"], seq=c["seq"][:80], k=c["k"], reported=[s_, e_, d_], edit_distance_symbol_sets=ed)
    ctx.cov["outside_agreement_domain"] = outside
    ctx.cov["model_vs_impl_mismatches"] = len(mism)
    unexplained = [i for i in mism if i not in failed]
    if extra_mism and not unexplained and not ctx.violations:
        more = gen_pred_cases(ctx, 400 if os.environ.get("VERIF_C10_SEARCH") else 4000)
        evaluate(ctx, more, [], "searchpred", corr=False)
        if not ctx.violations:
            broken.append(dict(kind="correspondence", name="corr:C10/IsPatternMatchSequence", first_diverging_case=extra_mism[0][0],
                               implementation=extra_mism[0][1], n_diverging=len(extra_mism)))
    if unexplained and not ctx.violations:
        more = gen_cases(ctx, 600 if os.environ.get("VERIF_C10_SEARCH") else 6000)
        evaluate(ctx, more, [], "search", corr=False)      # direct oracle only
        if not ctx.violations:
            i = unexplained[0]
            broken.append(dict(kind="correspondence", name="corr:C10/MakeApatPattern+FindAllIndex+FilterBestMatch+AllMatches+BestMatch+LocatePattern+complementPattern",
                               first_diverging_case=(cases + c64)[i], implementation=(obs + o64)[i], n_diverging=len(mism)))
    elif mism:
        ctx.cov["note"] = "model and implementation diverge on %d cases (violations reported by the direct oracle)" % len(mism)


def replay(ctx, rp):
    if rp.get("kind") == "table-obligation":      # re-dump the tables of the current build and re-evaluate the finite obligations
        bad = table_failures(dump_tables(ctx))
        print("replay: tables of the current build, %s[%r]:" % (rp.get("table"), rp.get("symbol")),
              [w for tb, sy, w in bad if (tb, sy) == (rp.get("table"), rp.get("symbol"))] or "obligations hold",
              "| all failing entries:", sorted({(tb, sy) for tb, sy, _ in bad}))
    c = rp.get("case") or rp.get("first_diverging_case") or rp.get("broken", [{}])[0].get("first_diverging_case")
    if not c:
        print("replay: no case in the replay file (proof obligation / build problem):", json.dumps(rp)[:1500])
        return
    if c.get("kind") == "annot":
        bindir, berr = ctx.build_cmds(["obigrep", "obiannotate"])
        tw1 = [dict(pat=c["pat"], k=c["k"], indel=c["indel"], seq=x, begin=0, length=len(x), apis=True, rcseq=revcomp_text(x)) for x in c["seqs"]]
        o1, _, _ = evaluate(ctx, tw1, [], "replay", report=False, corr=False)
        o2 = []
        for t, o in zip(tw1, o1):
            if o.get("kind") == "ok" and o.get("cpat"):
                oo, _, _ = evaluate(ctx, [dict({k: v for k, v in t.items() if k != "rcseq"}, pat=o["cpat"])], [], "replay", report=False, corr=False)
                o2.append(oo[0])
            else:
                o2.append(None)
        o = run_annot(ctx, bindir, c)
        exp = [annot_expected(c, i, o1[i], o2[i]) for i in range(len(c["seqs"]))]
        print("replay: obiannotate", " ".join(o["argv"]), "<in.fasta of %d sequences>" % len(c["seqs"]))
        for i, x in enumerate(c["seqs"]):
            print("  %-40s written %s | in-process BestMatch %s" % (x[:40], {k: v for k, v in o["records"].get(i, {}).items() if k.startswith("pattern")}, exp[i]))
        print("  direct oracle  :", judge_annot(c, o, exp) or "property holds")
        return
    if c.get("kind") == "cli":
        bindir, berr = ctx.build_cmds(["obigrep", "obiannotate"])
        tw = cli_twins(c)
        otw, _, _ = evaluate(ctx, tw, [], "replay", report=False)
        o = run_cli(ctx, bindir, c)
        print("replay: obigrep", " ".join(o["argv"]), "<in.fasta of %d sequences>" % len(c["seqs"]))
        print("  selected       :", o["selected"], "rc", o["rc"], o["err"])
        print("  in process     :", [t.get("preds") for t in otw])
        print("  direct oracle  :", judge_cli(c, o, otw) or "property holds")
        return
    obs, mism, failed = evaluate(ctx, [c], [], "replay", report=False,
                                 binary=("env GLIBC_TUNABLES=glibc.malloc.tcache_count=0 " + ctx.vh_bin) if c.get("freegc") else None)
    print("replay:", json.dumps(c))
    print("  implementation:", json.dumps(obs[0]))
    print("  direct oracle :", judge(c, obs[0]) if obs[0].get("kind") != "crash" else "crash")
    print("  model         :", "model-mismatch" if mism else "model-agrees")
