"""C19 — exact De Bruijn weights and heaviest path; strand-invariant canonical k-mers; exact 4-mer tables (pkg/obikmer)."""
import itertools, json, os
from collections import Counter

PROPS = ["C19/Props.v", "C19/PropsFp.v", "C19/PropsR3.v"]
META = dict(
    text="Rocq theorems over an executable transcription of pkg/obikmer (k-mer words as N, `mod 4^k` exactly where the code masks): "
         "(1) KmerMap.NormalizedKmerSlice, as repaired, returns for every window of k unambiguous bases min(k-mer, reverse-complement k-mer) "
         "(centre base dropped in sparse mode: proved), and a sequence and its reverse complement give the same multiset of keys, for every "
         "word width and every k that fits; the masks of NewKmerMap are ALSO computed with the obifp operations the code uses over the proved "
         "limb model of C20 (Uint64/128/256, every k: 4^k-1 when 2k <= width, panic otherwise) and proved equal to the N model; KmerAsString "
         "is the k-mer ('#' for the centre base in sparse mode) and never indexes outside its buffer; (2) DeBruijnGraph.Push accumulates for "
         "every k-mer the sum of count x occurrences (lengths <, = and > k; k = 1..31) for sequences over acgtu, and - since the repair of the round-1 finding "
         "iupac-prefix-multiplicity - for ANY IUPAC sequence the sum of count x windows compatible with the k-mer, a reading proved "
         "symmetric under reverse complement (the pre-repair recursion stays characterised and refuted over dbg_build_pre); weights are positive and built graphs have a source when acyclic; (3) the Go ALGORITHMS are modelled and proved: "
         "HasCycle (recursive DFS with visited/stack maps) returns exactly has_cycle (= a closed walk exists) for every map iteration order; "
         "HaviestPath (label-correcting search with a min-heap of node ids and the re-opening visited[next] = false) terminates on acyclic "
         "graphs within a proved bound and returns a valid walk from a source whose total weight is maximal among ALL walks from sources "
         "(= the specification best_walk_weight), nil exactly on cyclic graphs; without the re-opening it is refuted by a witness; DecodePath "
         "spells for any walk the unique string whose k-mers are the walk; LongestConsensus returns that string for the heaviest walk; a "
         "single sequence comes back unchanged IFF it has no repeated (k-1)-mer (exact condition, both directions proved); (4) Count4Mer "
         "counts exactly the 4-mer windows (modulo 2^16); (5) the tables iupac / revcompnuc / decode / __single_base_code__ are REGENERATED "
         "from the current build before every Coq build and the theorems over them (model = tables, expansion of each IUPAC letter = its base "
         "set, complement consistency and involution, decode inverts) are re-proved by the kernel on every run. "
         "(6, round 3, Model3.v / PropsR3.v) LongestConsensus with 0 < min_cov <= 1 (obiconsensus --low-coverage) returns the spelling of the heaviest walk without its "
         "low-coverage ends - a walk again, never a panic, for every value obistats.Mode may pick -, min_cov > 1 is refuted (slice panic); a graph holding a "
         "self-looping k-mer (poly-a = node 0, the 'no predecessor' value of HaviestPath) has a cycle, so node 0 never enters the search; FilterMinWeight keeps exactly the "
         "nodes of weight >= min and never creates a cycle (sub-graphs of acyclic graphs are acyclic); the greedy walk MaxHead/MaxNext/MaxPath (BestConsensus) is a walk from a source, "
         "terminates on acyclic graphs, is never heavier than HaviestPath's walk and can be strictly lighter (witness); KmerMap.Query depends on the multiset of canonical k-mers only, "
         "hence answers alike for a sequence and its reverse complement on ANY index (width, k, sparse, maxoccurs), and on an index built without maxoccurs reports exactly "
         "(shared k-mer pairs + 1) per reference, and with maxoccurs = m keeps exactly the k-mers occurring fewer than m times, each with its complete reference list; "
         "HammingDistance (xor / fold / mask / popcount) is the number of differing bases among the k (k <= 31); every homopolymer k-mer is a self loop; Sum4Mer(Count4Mer(s)) = len(s) - 3 (no wrap below 65539 bases), "
         "Index4mer lists under every code exactly the positions of its windows, as many as Count4Mer counts; Common4Mer is symmetric, bounded by both sums, Common4Mer(t,t) = Sum4Mer(t). On every run the real "
         "MakeDeBruijnGraph/Push/Weight/Nexts/Heads/HasCycle/HaviestPath/DecodePath/LongestConsensus, obiconsensus.BuildConsensus (k chosen by "
         "the tool, counts from the count attribute), NewKmerMap/NormalizedKmerSlice/KmerAsString (Uint64/128/256, k up to 128, sparse and "
         "dense, both strands), KmerMap.Query as obikmersim uses it (Uint128, both strands) and Count4Mer - and, since round 3, the rest of the exported surface: "
         "KmerSize/Len/MaxWeight/WeightSpectrum/WeightMode/WeightMean/Previouses/MaxNext/MaxHead/MaxPath/BestConsensus/LongestPath/FilterMinWeight/HammingDistance/Gml/WriteGml, "
         "Nexts/Previouses outside the graph, LongestConsensus(min_cov), the buffer variant of NormalizedKmerSlice, NewKmerMap(maxoccurs), "
         "FilterMinCount/Len/Sequences/Max, Index4mer/Sum4Mer/Common4Mer, BuildConsensus with 0/1 read, --kmer-size, --low-coverage, --save-graph - run on boundary-biased and random "
         "cases against a direct Python oracle, and the Coq model (including the transcribed algorithms: verdict, ACTUAL path, decoding, "
         "consensus, key strings, trimmed consensus, filtered graph, greedy walk, Hamming distance = number of differing bases, index and match counts, 4-mer positions) is evaluated by vm_compute on the same cases. "
         "The COMMANDS obiconsensus (denoise and --cluster modes, --kmer-size, --low-coverage, --save-graph, several samples) and obikmersimcount / obikmermatch (-k, --sparse, -M, -m, --self) run on generated files (several samples, reads shared by samples through merged_sample, exactly 4 and exactly 5 neighbours, equal cluster weights); "
         "every record they write is compared with the in-process run of the same reads, which is itself judged by the oracle and the model.",
    note="Trusted: Coq kernel + vm_compute; harness, generators and the Python oracle; obifp words in NormalizedKmerSlice modelled as N modulo "
         "2^width (the mask construction is tied to C20's limb model by theorem; shift counts are unbounded Z there: kmersize < 2^62); Go maps "
         "are association lists (lookup default = zero value) and their iteration orders are universally quantified in the theorems (the "
         "correspondence evaluates the key-sorted order; the result does not depend on it; where it does - MaxHead, obistats.Mode, WeightMode, LongestPath - an observation is accepted when some order produces it); container/heap with Less = (<) on node ids is a "
         "multiset whose Pop returns a minimum; Go int distances do not overflow (total weight < 2^63). A path that differs from the "
         "transcription but is a valid walk of the same maximal weight is NOT an alarm (the property allows any heaviest walk; counted in the "
         "evidence). Guards: counts >= 1, non-empty graph for HaviestPath (LongestConsensus guards it), 2k <= width, k = 2..31 for the "
         "single-sequence clause (k = 1: every node has a self loop); min_cov is a dyadic rational num/2^e (the float threshold uint(mode*min_cov+0.5) is then exact) and <= 1 in the theorem "
         "(min_cov > 1 can panic in path[from:to]: modelled, refuted, not repaired: not a value the option is meant for). Known finding: "
         "uint16 wrap of Count4Mer beyond 65535 occurrences. Outside the property (seen, not judged as violations): KmerMap.Query reports shared pairs + 1, so --min-shared-kmers m keeps references sharing m-1 pairs, "
         "and --max-kmers M drops the k-mers occurring M times or more (not 'more than M'); BuildConsensus weighs reads by their TOTAL count, not by their count in the sample being denoised; "
         "sequences with symbols outside the IUPAC alphabet make Push panic (nil table entry). "
         "Not exercised: LCS4MerBounds / Error4MerBounds (no caller in the repository; bounds on alignments, not counts: nothing in the statement to judge them by); FastShiftFourMer (the 4-mer vote of the aligners: judged by C08); "
         "obikmermatch beyond its candidate set (the alignment of the candidates and its attributes: C08/C09; obikmer_match_count / obikmer_match_id of every record written are judged); the two log.Warn branches of HaviestPath about node 0 and the sparseAt >= kmersize branch of NewKmerMap are unreachable "
         "(theorem C19_acyclic_graph_has_no_zero_node; sparseAt = k/2 < k); progress bars, the GML file of the per-sample sequence graph (pkg/obigraph) and obiuniq --unique post-processing of obiconsensus.")
TRUSTED = ["obifp Uint64/128/256 LeftShift/RightShift/And/Or/LessThan inside NormalizedKmerSlice are modelled by their exact meaning on N modulo 2^width (property C20); "
           "the masks of NewKmerMap are additionally computed over C20's proved limb model (C19/MaskFp.v) and proved equal to the N model",
           "Go map iteration order: graph nodes are compared as a key-sorted association list; HasCycle / Heads orders are universally quantified in the theorems",
           "container/heap (UInt64Heap, Less = <) is modelled as a multiset whose Pop returns a minimum",
           "Go int arithmetic of HaviestPath distances is modelled on unbounded N (no overflow: total weight < 2^63)",
           "regenerated tables: the dump goes through the hook VerifTablesC19 (copies of the package variables) and tools/props/c19.py tables_source",
           "float64(mode) * min_cov + 0.5 truncated to uint is modelled by exact rational arithmetic for dyadic min_cov = num / 2^e (exact in binary64 while mode * num < 2^52)",
           "KmerMap.index map[T][]*BioSequence is an association list key -> reference numbers; sorting by pointer + grouping in Query is modelled as counting per reference",
           "obialign.D1Or0 (edges of obiconsensus' sequence graph) is re-implemented in the Python oracle as edit distance <= 1 to predict the packs of reads"]

VERIF = os.path.dirname(os.path.dirname(os.path.dirname(os.path.abspath(__file__))))
TABLES_V = os.path.join(VERIF, "coq", "theories", "C19", "Gen", "Tables.v")


# ---------------------------------------------------------------- regenerated tables (DESIGN §2.3-B)
def tables_source(t):
    """Gallina source of C19/Gen/Tables.v from the harness' table dump (vh c19tables)."""
    def nl(l):
        return "[" + "; ".join(str(int(x)) for x in l) + "]"
    iu = sorted((int(k), v) for k, v in t["iupac"].items())
    rc = sorted((int(k), int(v)) for k, v in t["revcomp"].items())
    dec = sorted((int(k), int(v)) for k, v in t["decode"].items())
    return ("(** GENERATED by tools/props/c19.py regen() from the CURRENT build (vh c19tables, case {\"kind\":\"tables\"}). Do not edit.\n"
            "    iupac_tab   : obikmer.iupac      (byte, 2-bit codes in the order of the Go slice), sorted by byte;\n"
            "    revcomp_tab : obikmer.revcompnuc (byte, complement byte), sorted by byte;\n"
            "    decode_tab  : obikmer.decode     (2-bit code, byte), sorted by code;\n"
            "    single_tab  : obikmer.__single_base_code__ (every entry; indexed by byte & 31). *)\n"
            "From Coq Require Import NArith List.\nImport ListNotations.\nOpen Scope N_scope.\n\n"
            "Definition iupac_tab : list (N * list N) := [%s].\n\n"
            "Definition revcomp_tab : list (N * N) := [%s].\n\n"
            "Definition decode_tab : list (N * N) := [%s].\n\n"
            "Definition single_tab : list N := %s.\n" % (
                "; ".join("(%d, %s)" % (k, nl(v)) for k, v in iu), "; ".join("(%d, %d)" % p for p in rc),
                "; ".join("(%d, %d)" % p for p in dec), nl(t["single"])))


def dump_tables(ctx):
    obs, err = ctx.vh("c19tables", [dict(kind="tables")], timeout=60)
    if obs is None:
        raise RuntimeError("vh c19tables: %s" % err)
    return obs[0]


def regen(ctx):
    """Called by check.py before the Coq build: rewrite C19/Gen/Tables.v from the current code (write-if-changed)."""
    vh, err = ctx.build_harness()
    if vh is None:
        raise RuntimeError("harness build failed: %s" % err)
    t = dump_tables(ctx)
    src = tables_source(t)
    os.makedirs(os.path.dirname(TABLES_V), exist_ok=True)
    old = open(TABLES_V).read() if os.path.exists(TABLES_V) else None
    if old != src:
        with open(TABLES_V, "w") as f:
            f.write(src)
        ctx.cov["tables_regenerated"] = "changed"
    else:
        ctx.cov["tables_regenerated"] = "unchanged"
    ctx._c19_tables = t


# the IUPAC standard, written independently of the Go table (a=0 c=1 g=2 t=3)
SPEC_IUPAC = dict(a="a", c="c", g="g", t="t", u="t", r="ag", y="ct", s="cg", w="at", k="gt", m="ac",
                  b="cgt", d="agt", h="act", v="acg", n="acgt")


def spec_codes(ch):
    return sorted("acgt".index(x) for x in SPEC_IUPAC[ch])


def table_failures(t):
    """Executable statement of the table lemmas tab_* of C19/TablesProofs.v (2-5) on the dumped tables: list of (what, symbol)."""
    bad = []
    iu = {chr(int(k)): [int(x) for x in v] for k, v in t["iupac"].items()}
    rc = {chr(int(k)): chr(int(v)) for k, v in t["revcomp"].items()}
    dec = {int(k): chr(int(v)) for k, v in t["decode"].items()}
    single = [int(x) for x in t["single"]]
    # 2. expansion of each letter = its IUPAC base set, strictly increasing codes < 4, key set = the 16 letters
    for ch in sorted(set(iu) | set(SPEC_IUPAC)):
        if ch not in SPEC_IUPAC:
            bad.append(("obikmer.iupac has the unexpected key %r -> %r" % (ch, iu[ch]), ch))
        elif ch not in iu:
            bad.append(("obikmer.iupac lacks the letter %r" % ch, ch))
        elif iu[ch] != spec_codes(ch):
            bad.append(("obikmer.iupac[%r] = %r, the IUPAC base set is %r" % (ch, iu[ch], spec_codes(ch)), ch))
    # 3. complement table agrees with complementing the base set; involution except u -> a -> t
    for ch in sorted(iu):
        if ch not in rc:
            bad.append(("obikmer.revcompnuc lacks the letter %r" % ch, ch))
            continue
        c = rc[ch]
        if c not in iu:
            bad.append(("obikmer.revcompnuc[%r] = %r is not a key of obikmer.iupac" % (ch, c), ch))
            continue
        want = sorted(3 - x for x in iu[ch])
        if iu[c] != want:
            bad.append(("obikmer.revcompnuc[%r] = %r expands to %r, the complemented base set of %r is %r" % (ch, c, iu[c], ch, want), ch))
        back = rc.get(c)
        if back != ("t" if ch == "u" else ch):
            bad.append(("obikmer.revcompnuc is not an involution at %r: %r -> %r -> %r" % (ch, ch, c, back), ch))
    for ch in sorted(set(rc) - set(iu)):
        bad.append(("obikmer.revcompnuc has the key %r that obikmer.iupac lacks" % ch, ch))
    # 4. decode inverts the unambiguous codes
    spec_dec = {0: "a", 1: "c", 2: "g", 3: "t"}
    for code in sorted(set(dec) | set(spec_dec)):
        if dec.get(code) != spec_dec.get(code):
            bad.append(("obikmer.decode[%d] = %r, expected %r" % (code, dec.get(code), spec_dec.get(code)), spec_dec.get(code) or dec.get(code)))
    for ch in "acgt":
        v = iu.get(ch)
        if v is not None and len(v) == 1 and dec.get(v[0]) != ch:
            bad.append(("obikmer.decode[iupac[%r]] = %r: decode does not invert the code of %r" % (ch, dec.get(v[0]), ch), ch))
    # 5. __single_base_code__: 32 entries < 4, a c g t u -> 0 1 2 3 3, everything else 0
    if len(single) != 32:
        bad.append(("__single_base_code__ has %d entries, expected 32 (indexed by byte & 31)" % len(single), "single"))
    want = {ord(ch) & 31: code for ch, code in zip("acgtu", (0, 1, 2, 3, 3))}
    for i, v in enumerate(single):
        if v != want.get(i, 0):
            bad.append(("__single_base_code__[%d] (letter %r) = %d, expected %d" % (i, chr(96 + i), v, want.get(i, 0)), chr(96 + i) if 1 <= i <= 26 else "single"))
    # one line per (what, symbol), first failure of a symbol first
    seen, out = set(), []
    for w, s in bad:
        if (w, s) not in seen:
            seen.add((w, s))
            out.append((w, s))
    return out


def table_case(sym):
    """a concrete input through the REAL code that involves the table entry of `sym` (replay of a table obligation)"""
    if len(sym) == 1 and sym in "acgtu":
        return dict(kind="kmap", w=64, k=4, sparse=False, s="acgt" + sym + "acgtgca")
    if len(sym) == 1 and sym.isalpha():
        return dict(kind="dbg", k=2, seqs=[dict(s="ac" + sym + "gt", count=1)])
    return dict(kind="c4", s="acgtacgtu")


def replay_tables(ctx, t):
    """the executable statement of the table lemmas (C19/TablesProofs.v) names the failing symbol when a regenerated
    table no longer satisfies them (the Coq obligation fails too: `broken` then carries the coqc error)"""
    done = set()
    for what, sym in table_failures(t):
        if sym in done or len(done) >= 4:
            continue
        done.add(sym)
        case = table_case(sym)
        obs = ctx.vh_robust("c19", [case], timeout=60)
        ctx.violation("table_%s" % (sym if sym.isalnum() else "x"), dict(property="C19", kind="table-obligation", why=what, symbol=sym,
                                                                         case=case, implementation=obs[0], tables=t))


IUPAC = dict(a="a", c="c", g="g", t="t", u="t", r="ag", y="ct", s="cg", w="at", k="gt", m="ac", b="cgt", d="agt", h="act", v="acg", n="acgt")
COMP = dict(a="t", c="g", g="c", t="a", u="a", r="y", y="r", s="s", w="w", k="m", m="k", b="v", d="h", h="d", v="b", n="n")
CODE = dict(a=0, c=1, g=2, t=3)
AMBIG = "ryswkmbdhvn"
FULL_NODES = 45      # graphs up to this size are also compared on has_cycle / heaviest-walk weight of the SPECIFICATION inside Coq
ALGO_NODES = 300     # graphs up to this size: the transcribed ALGORITHMS (DFS, label-correcting search) are run inside Coq and compared
                     # with the Go code on the verdict, the actual path, its decoding and the consensus


def rc(s):
    return "".join(COMP[c] for c in reversed(s))


def enc(w):
    v = 0
    for c in w:
        v = v * 4 + CODE[c]
    return v


def dec(v, k):
    return "".join("acgt"[(v >> (2 * (k - 1 - i))) & 3] for i in range(k))


# ------------------------------------------------------------------ De Bruijn oracle
def nexp(s):
    n = 1
    for c in s:
        n *= len(IUPAC[c])
    return n


def window_words(w):
    return [enc("".join(p)) for p in itertools.product(*[IUPAC[c] for c in w])]


def expected_weights(k, seqs, reading):
    """reading 'window' (the specification, and what Push does since the repair): sum over sequences of count x number of windows
       of the sequence compatible with the k-mer (symmetric under reverse complement: theorem C19_weights_iupac_strand_symmetric);
       reading 'full': sum over sequences of count x sum over the full IUPAC expansions e of s of occ(x, e);
       reading 'prefix': the pre-repair recursion of Push/append: a window counted once per expansion of the bases BEFORE it
       (all coincide with count x occurrences on unambiguous sequences)."""
    wt = Counter()
    for q in seqs:
        s, cnt = q["s"].lower(), q["count"]
        if len(s) < k:
            continue
        tot = nexp(s)
        for j in range(len(s) - k + 1):
            win = s[j:j + k]
            mult = tot // nexp(win) if reading == "full" else nexp(s[:j]) if reading == "prefix" else 1
            for x in window_words(win):
                wt[x] += cnt * mult
    return dict(wt)


def graph_of(nodes, k):
    mask = (1 << (2 * k)) - 1
    return {x: [((x << 2) & mask) | b for b in range(4) if (((x << 2) & mask) | b) in nodes] for x in nodes}


def has_cycle(adj):
    color = {}
    for r in adj:
        if r in color:
            continue
        stack = [(r, iter(adj[r]))]
        color[r] = 1
        while stack:
            x, it = stack[-1]
            for y in it:
                if color.get(y) == 1:
                    return True
                if y not in color:
                    color[y] = 1
                    stack.append((y, iter(adj[y])))
                    break
            else:
                color[x] = 2
                stack.pop()
    return False


def best_weight(adj, wt, heads):
    """maximum total weight of a walk starting at a source node (acyclic graph): memoised DP"""
    memo = {}

    def best(x):
        if x not in memo:
            memo[x] = wt[x] + max([best(y) for y in adj[x]] + [0])
        return memo[x]
    import sys
    sys.setrecursionlimit(100000)
    return max([best(h) for h in heads] + [0])


def brute_best(adj, wt, heads, limit=20000):
    """enumeration of ALL walks from the sources (small acyclic graphs only): independent of the DP"""
    best, n = 0, 0
    stack = [(h, wt[h]) for h in heads]
    while stack:
        x, w = stack.pop()
        n += 1
        if n > limit:
            return None
        best = max(best, w)
        for y in adj[x]:
            stack.append((y, w + wt[y]))
    return best


def check_dbg(c, o):
    """returns (list of failure strings, known-finding key or None)"""
    k = c["k"]
    fails = []
    if o["kind"] != "dbg":
        return ["harness observation %s" % o["kind"]], None
    if o.get("err"):
        fails.append(o["err"])
    obs_w = {int(n["kmer"]): n["w"] for n in o.get("nodes") or []}
    key = None
    ambiguous = any(ch in AMBIG for q in c["seqs"] for ch in q["s"].lower())
    full = expected_weights(k, c["seqs"], "window")
    if obs_w != full:
        bad = sorted(set(x for x in set(obs_w) | set(full) if obs_w.get(x, 0) != full.get(x, 0)))[:5]
        why = ""
        if ambiguous and obs_w == expected_weights(k, c["seqs"], "prefix"):
            why = " (windows counted once per IUPAC expansion of the bases that precede them: the defect repaired by fix: iupac-prefix-multiplicity)"
        fails.append("weights differ from sum(count x compatible windows)%s: " % why + ", ".join("%s impl=%d expected=%d" % (dec(x, k), obs_w.get(x, 0), full.get(x, 0)) for x in bad))
    # structure as the implementation reports it
    adj = graph_of(set(obs_w), k)
    for n in o.get("nodes") or []:
        x = int(n["kmer"])
        if sorted(int(y) for y in n["nexts"]) != sorted(adj[x]):
            fails.append("Nexts(%s) = %s, expected %s" % (dec(x, k), n["nexts"], adj[x]))
        if n["label"] != dec(x, k):
            fails.append("DecodeNode(%d) = %s" % (x, n["label"]))
    preds = {y for x in adj for y in adj[x]}
    heads = sorted(x for x in adj if x not in preds)
    if [int(h) for h in o.get("heads") or []] != heads:
        fails.append("Heads = %s, expected %s" % (o.get("heads"), heads))
    cyc = has_cycle(adj)
    if o["hascycle"] != cyc:
        fails.append("HasCycle = %s, expected %s" % (o["hascycle"], cyc))
    # a single unambiguous sequence: the graph is acyclic exactly when no (k-1)-mer is repeated
    # (then the sequence must come back unchanged, checked below); a repeated (k-1)-mer closes a cycle
    if len(c["seqs"]) == 1:
        s1 = c["seqs"][0]["s"].lower().replace("u", "t")
        if not any(ch in AMBIG for ch in s1) and len(s1) >= k:
            sub = [s1[i:i + k - 1] for i in range(len(s1) - k + 2)]
            if (len(set(sub)) != len(sub)) != cyc:
                fails.append("single sequence: repeated (k-1)-mer = %s but HasCycle = %s" % (len(set(sub)) != len(sub), cyc))
    fails += check_dbg_x(c, o, obs_w, adj, heads, cyc)
    if "expect_cons" in c and c["expect_cons"].get("savedgml") is not None:
        fails += check_gml(c["expect_cons"]["savedgml"], k, obs_w, adj, "obiconsensus --save-graph (.gml)")
    if not obs_w:
        if not o["conserr"]:
            fails.append("consensus returned for an empty graph")
        return fails, key        # HaviestPath on an empty graph: outside the statement (LongestConsensus guards it)
    if cyc and "expect_cons" in c:
        fails.append("obiconsensus.BuildConsensus stopped at k=%d but the graph has a cycle" % k)
    if cyc:
        if not o["pathnil"] or o["pathpanic"]:
            fails.append("graph has a cycle but a path is returned")
        if not o["conserr"]:
            fails.append("graph has a cycle but a consensus is returned")
        return fails, key
    if o["pathnil"] or o["pathpanic"] or not o.get("path"):
        fails.append("acyclic non-empty graph but no path returned")
        return fails, key
    path = [int(x) for x in o["path"]]
    if path[0] not in heads:
        fails.append("path does not start at a source node")
    for a, b in zip(path, path[1:]):
        if a not in adj or b not in adj[a]:
            fails.append("path step %s -> %s is not an edge" % (dec(a, k), dec(b, k)))
            return fails, key
    if any(x not in obs_w for x in path):
        fails.append("path leaves the graph")
        return fails, key
    pw = sum(obs_w[x] for x in path)
    bw = best_weight(adj, obs_w, heads)
    if pw != bw:
        fails.append("path weight %d, heaviest walk from a source weighs %d" % (pw, bw))
    if len(adj) <= 14:
        bb = brute_best(adj, obs_w, heads)
        if bb is not None and bb != pw:
            fails.append("path weight %d, enumeration of all walks gives %d" % (pw, bb))
    spelled = dec(path[0], k) + "".join("acgt"[x & 3] for x in path[1:])
    if "expect_cons" in c:
        # the same reads went through obiconsensus.BuildConsensus (k estimated by the tool, counts from the count attribute)
        e = c["expect_cons"]
        if e.get("cov"):
            # --low-coverage: the tool's answer is LongestConsensus(min_cov) of the same graph, judged by check_dbg_x on this case
            okc = cov_results(k, obs_w, path, e["cov"]["num"], e["cov"]["e"])
            if ("seq", e["consensus"]) not in okc:
                fails.append("obiconsensus.BuildConsensus (k=%d, low coverage %d/2^%d) returns %r, the trimmed heaviest path spells %s" % (
                    k, e["cov"]["num"], e["cov"]["e"], e["consensus"], okc[:3]))
        elif e["consensus"] != spelled:
            fails.append("obiconsensus.BuildConsensus (k=%d chosen by the tool) returns %r, the heaviest path spells %r" % (k, e["consensus"], spelled))
        if e.get("conslen") is not None and (e["conslen"] != len(e["consensus"]) or e["consfgraph"] != len(obs_w)):
            fails.append("obiconsensus attributes seq_length=%d filtered_graph_size=%d, consensus has %d bases, graph %d nodes" % (
                e["conslen"], e["consfgraph"], len(e["consensus"]), len(obs_w)))
        if e["consgraph"] != len(obs_w) or e["consmaxw"] != max(obs_w.values()) or e["consw"] != sum(q["count"] for q in c["seqs"]):
            fails.append("obiconsensus attributes graph_size=%d max_occur=%d weight=%d, graph has %d nodes, max weight %d, total count %d" % (
                e["consgraph"], e["consmaxw"], e["consw"], len(obs_w), max(obs_w.values()), sum(q["count"] for q in c["seqs"])))
    if o["decoded"] != spelled:
        fails.append("DecodePath = %s, path spells %s" % (o["decoded"], spelled))
    if o["conserr"] or o["consensus"] != spelled:
        fails.append("LongestConsensus = %r, path spells %s" % (o["consensus"], spelled))
    if len(c["seqs"]) == 1:
        s = c["seqs"][0]["s"].lower()
        if not any(ch in AMBIG for ch in s) and len(s) >= k:
            t = s.replace("u", "t")
            # acyclic here, hence no repeated (k-1)-mer and no repeated k-mer
            if o["consensus"] != t:
                fails.append("single sequence without repeated k-mer is not returned unchanged: %r" % o["consensus"])
    return fails, key



# ------------------------------------------------------------------ round 3: the rest of the DeBruijnGraph surface
def spell(path, k):
    return (dec(path[0], k) + "".join("acgt"[x & 3] for x in path[1:])) if path else ""


def is_greedy(adj, wt, p):
    """p follows a heaviest successor at every step and stops at a node without successor (MaxPath / LongestPath inner loop; which
    of several equally heavy successors is taken depends on the order of Nexts: any of them is accepted)"""
    if not p or any(x not in adj for x in p):
        return False
    for a, b in zip(p, p[1:]):
        if b not in adj[a] or wt[b] != max(wt[z] for z in adj[a]):
            return False
    return not adj[p[-1]]


def greedy_walks(adj, wt, h, cap=64):
    """every greedy walk from h (ties branch); None when there are more than cap"""
    done, todo = [], [[h]]
    while todo:
        p = todo.pop()
        nx = adj[p[-1]]
        if not nx:
            done.append(p)
            if len(done) > cap:
                return None
            continue
        top = max(wt[z] for z in nx)
        for z in nx:
            if wt[z] == top:
                todo.append(p + [z])
        if len(todo) > 4 * cap:
            return None
    return done


def cov_results(k, wt, path, num, e):
    """LongestConsensus(id, num / 2^e) on the heaviest path `path` ([] = nil): the set of admissible answers, one per value
    obistats.Mode may return (ties are broken by the iteration order of a Go map)"""
    if not path:
        return [("err", "")]
    c = num / float(1 << e)
    wp = [wt[x] for x in path]
    cnt = Counter(wp)
    top = max(cnt.values())
    res = []
    for m in sorted(v for v, n in cnt.items() if n == top):
        mp = int(float(m) * c + 0.5)
        frm = 0
        for i, x in enumerate(path):
            if wt[x] < mp:
                frm = i + 1
            else:
                break
        to = len(path)
        for i in range(len(path) - 1, -1, -1):
            if wt[path[i]] < mp:
                to = i
            else:
                break
        if frm > to:
            res.append(("panic", ""))
        else:
            sp = spell(path[frm:to], k)
            res.append(("seq", sp) if sp else ("err", ""))
    return res


def consx(o):
    return ("panic", "") if o.get("panic") else ("err", "") if o.get("err") else ("seq", o.get("seq"))


GML_NODE = None


def parse_gml(txt):
    """(nodes: id -> label or None, edges: list of (src, dst, char, weight, width))"""
    import re
    nodes = {}
    for m in re.finditer(r'node \[ id "(\d+)"(?:\s*label "([a-z]*)")? \]', txt):
        nodes[int(m.group(1))] = m.group(2)
    edges = []
    for m in re.finditer(r'edge \[ source "(\d+)"\s*target "(\d+)"\s*color "#00FF00"\s*label "(.)\[(\d+)\]"\s*graphics\s*\[\s*width\s*([0-9.]+)', txt):
        edges.append((int(m.group(1)), int(m.group(2)), m.group(3), int(m.group(4)), float(m.group(5))))
    return nodes, edges


def check_gml(txt, k, wt, adj, what):
    """the GML text describes the graph: node numbers follow the iteration order of a Go map, so nodes are identified by their
    label (sources and sinks only carry one) and by their degrees"""
    import math
    fails = []
    if not txt.startswith("graph [") or not txt.rstrip().endswith("]"):
        return ["%s: not a GML graph" % what]
    nodes, edges = parse_gml(txt)
    preds = {x: [y for y in adj if x in adj[y]] for x in adj}
    if sorted(nodes) != list(range(1, len(wt) + 1)):
        fails.append("%s: %d nodes numbered %s.., graph has %d" % (what, len(nodes), sorted(nodes)[:3], len(wt)))
        return fails
    lab = sorted(l for l in nodes.values() if l is not None)
    exp_lab = sorted(dec(x, k) for x in adj if not adj[x] or not preds[x])
    if lab != exp_lab:
        fails.append("%s: labelled nodes %s, sources and sinks are %s" % (what, lab[:6], exp_lab[:6]))
    outd, ind = Counter(a for a, *_ in edges), Counter(b for _, b, *_ in edges)
    got = [(nodes[a], nodes[b], ch, w, outd[a], ind[b]) for a, b, ch, w, _ in edges]
    exp = [((dec(x, k) if not preds[x] else None), (dec(y, k) if not adj[y] else None), "acgt"[y & 3], min(wt[x], wt[y]), len(adj[x]), len(preds[y]))
           for x in adj for y in adj[x]]
    key = lambda t: tuple("" if v is None else v for v in map(str, t))
    if sorted(got, key=key) != sorted(exp, key=key):
        fails.append("%s: %d edges (label, weight, degrees) differ from the %d edges of the graph" % (what, len(got), len(exp)))
    for a, b, ch, w, width in edges:
        if abs(width - math.sqrt(w)) > 1e-5:
            fails.append("%s: edge width %r for weight %d" % (what, width, w))
            break
    return fails


def check_dbg_x(c, o, obs_w, adj, heads, cyc):
    """the observations of c19r3.go for a graph case; obs_w / adj / heads: the graph as judged by check_dbg"""
    x = o.get("x")
    if x is None:
        return ["round-3 observations missing"] if c.get("x") and not o.get("pathskipped") else []
    k = c["k"]
    fails = []
    ws = list(obs_w.values())
    if x["ksize"] != k or x["len"] != len(obs_w) or x["maxw"] != max(ws + [0]):
        fails.append("KmerSize/Len/MaxWeight = %d/%d/%d, expected %d/%d/%d" % (x["ksize"], x["len"], x["maxw"], k, len(obs_w), max(ws + [0])))
    if x["speclen"] != -1:
        sp = {a: b for a, b in x.get("spectrum") or []}
        if x["speclen"] != max(ws + [0]) + 1 or sp != dict(Counter(ws)):
            fails.append("WeightSpectrum: %d cells %s, expected %d cells %s" % (x["speclen"], sorted(sp.items())[:5], max(ws + [0]) + 1, sorted(Counter(ws).items())[:5]))
    cnt = Counter(w for w in ws if w > 1)
    okmode = [w for w, n in cnt.items() if n == max(cnt.values())] if cnt else [0]
    if x["wmode"] not in okmode:
        fails.append("WeightMode = %d, most frequent weights > 1 are %s" % (x["wmode"], sorted(okmode)[:5]))
    mean = (float(sum(ws)) / float(len(ws))) if ws else -1
    if x["wmean"] != mean:
        fails.append("WeightMean = %r, expected %r" % (x["wmean"], mean))
    preds = {y: sorted(z for z in adj if y in adj[z]) for y in adj}
    order = sorted(obs_w)
    if len(x.get("nodes") or []) != len(order):
        fails.append("per-node observations: %d for %d nodes" % (len(x.get("nodes") or []), len(order)))
    else:
        for y, n in zip(order, x.get("nodes") or []):
            if sorted(int(z) for z in n["prevs"]) != preds[y]:
                fails.append("Previouses(%s) = %s, expected %s" % (dec(y, k), n["prevs"], preds[y]))
                break
            bw = max([obs_w[z] for z in adj[y]] + [0])
            got = None if n["maxnext"] is None else [int(v) for v in n["maxnext"]]
            if (got is None) != (not adj[y]) or (got is not None and (got[0] not in adj[y] or obs_w[got[0]] != bw or got[1] != bw)):
                fails.append("MaxNext(%s) = %s, heaviest successors weigh %d" % (dec(y, k), got, bw))
                break
    hw = max([obs_w[h] for h in heads] + [0])
    tops = [h for h in heads if obs_w[h] == hw]
    mh = x.get("maxhead")
    if (mh is None) != (not heads) or (mh is not None and (int(mh[0]) not in tops or int(mh[1]) != hw)):
        fails.append("MaxHead = %s, heaviest source nodes %s (weight %d)" % (mh, tops[:4], hw))
    if x.get("greedy") != (not cyc):
        fails.append("greedy walks run = %s on a graph with HasCycle = %s" % (x.get("greedy"), cyc))
    if x.get("greedy") and not cyc:
        wsum = lambda p: sum(obs_w[z] for z in p)
        mp = [int(v) for v in x.get("maxpath") or []]
        if not ((not heads and not mp) or (mp and mp[0] in tops and is_greedy(adj, obs_w, mp))):
            fails.append("MaxPath = %s is not a greedy walk from a heaviest source" % mp[:8])
        bc = consx(x["bestcons"])
        if not heads:
            okb = bc == ("err", "")
        else:
            bp = [enc(bc[1][i:i + k]) for i in range(len(bc[1]) - k + 1)] if bc[0] == "seq" else []
            okb = bool(bp) and bp[0] in tops and is_greedy(adj, obs_w, bp) and spell(bp, k) == bc[1]
        if not okb:
            fails.append("BestConsensus = %s does not spell a greedy walk from a heaviest source" % (bc,))
        allw = {h: greedy_walks(adj, obs_w, h) for h in heads}
        for fld, lim in (("longest0", 0), ("longestl", c.get("lmax", 0))):
            got = [int(v) for v in x.get(fld) or []]
            if any(w is None for w in allw.values()):
                ok = (not got) or (got[0] in heads and is_greedy(adj, obs_w, got))          # too many tied walks to enumerate
            else:
                # a walk longer than lim counts for nothing; the answer is the heaviest of one greedy walk per source
                val = lambda w: 0 if (lim > 0 and len(w) > lim) else wsum(w)
                if not got:
                    ok = all(any(val(w) == 0 for w in ws) for ws in allw.values())
                else:
                    ok = got[0] in heads and got in allw[got[0]] and val(got) > 0 and all(any(val(w) <= val(got) for w in ws) for ws in allw.values())
            if not ok:
                fails.append("LongestPath(%d) = %s is not a heaviest greedy walk from a source" % (lim, got[:8]))
    if c.get("minw", 0) > 0:
        keep = {y: w for y, w in obs_w.items() if w >= c["minw"]}
        got = {int(a): int(b) for a, b in x.get("filtered") or []}
        if got != keep or x.get("filteredlen") != len(keep):
            fails.append("FilterMinWeight(%d): %d nodes left, expected the %d nodes of weight >= %d" % (c["minw"], len(got), len(keep), c["minw"]))
        elif x.get("filteredcyc") != has_cycle(graph_of(set(keep), k)):
            fails.append("FilterMinWeight(%d): HasCycle = %s on the filtered graph" % (c["minw"], x.get("filteredcyc")))
    path = [int(v) for v in o.get("path") or []] if not cyc and obs_w else []
    for cv, got in zip(c.get("covs") or [], x.get("covs") or []):
        exp = cov_results(k, obs_w, path, cv["num"], cv["e"]) if obs_w else [("err", "")]
        if consx(got) not in exp:
            fails.append("LongestConsensus(min_cov=%d/2^%d) = %s, expected %s" % (cv["num"], cv["e"], consx(got), exp[:3]))
    if len(x.get("covs") or []) != len(c.get("covs") or []):
        fails.append("LongestConsensus(min_cov): %d answers for %d values" % (len(x.get("covs") or []), len(c.get("covs") or [])))
    for (a, b), got in zip(c.get("ham") or [], x.get("ham") or []):
        a, b = int(a), int(b)
        exp = sum(1 for i in range(k) if ((a >> (2 * i)) & 3) != ((b >> (2 * i)) & 3))
        if got != exp:
            fails.append("HammingDistance(%s, %s) = %d, the k-mers differ at %d positions" % (dec(a, k), dec(b, k), got, exp))
    for v, pn, pp in zip(c.get("probe") or [], x.get("probenext") or [], x.get("probeprev") or []):
        out = int(v) not in obs_w
        if pn != out or pp != out:
            fails.append("Nexts/Previouses(%s) panic = %s/%s, node in graph = %s" % (v, pn, pp, not out))
    if c.get("gml"):
        if not x.get("gml"):
            fails.append("Gml() returned nothing")
        else:
            fails += check_gml(x["gml"], k, obs_w, adj, "Gml()")
            fails += check_gml(x.get("gmlfile") or "", k, obs_w, adj, "WriteGml file")
    return fails[:6]


# ------------------------------------------------------------------ canonical k-mers oracle
def eff_k(k, sparse):
    if sparse and k % 2 == 0:
        k += 1
    if not sparse and k % 2 == 1:
        k -= 1
    return k


def expected_canon(k, sparse, s):
    """list of (value, string) of the canonical k-mers of the unambiguous windows of s (k already effective)"""
    s = s.lower()
    res = []
    mid = k // 2
    for i in range(len(s) - k + 1):
        w = s[i:i + k]
        if any(ch in AMBIG for ch in w):
            continue
        w = w.replace("u", "t")
        r = rc(w)
        if sparse:
            a, b = w[:mid] + w[mid + 1:], r[:mid] + r[mid + 1:]
        else:
            a, b = w, r
        m = min(a, b)          # 'a' < 'c' < 'g' < 't' : string order = numeric order of the 2-bit encoding
        res.append((enc(m), (m[:mid] + "#" + m[mid:]) if sparse else m))
    return res


def obs_vals(o):
    return [sum(int(x) << (64 * i) for i, x in enumerate(l)) for l in o.get("kmers") or []]


def check_kmap(c, o, o_rc):
    fails = []
    k = eff_k(c["k"], c["sparse"])
    if 2 * k > c["w"] or k < 1:
        return fails          # outside the quantifier (k-mer does not fit the word)
    for tag, s, ob in (("s", c["s"], o), ("rc(s)", rc(c["s"].lower()), o_rc)):
        if ob["kind"] != "kmap":
            fails.append("%s: NewKmerMap/NormalizedKmerSlice %s" % (tag, ob["kind"]))
            continue
        if ob["kmersize"] != k or (ob["sparseat"] >= 0) != c["sparse"]:
            fails.append("%s: effective k = %d sparseAt = %d" % (tag, ob["kmersize"], ob["sparseat"]))
            continue
        if c.get("buf") and not (ob.get("bufsame") and ob.get("ksizefn") == k and ob.get("idxlen") == 0):
            fails.append("%s: NormalizedKmerSlice with a caller's buffer gives the same keys = %s; KmerSize() = %s, Len() of an empty index = %s" % (
                tag, ob.get("bufsame"), ob.get("ksizefn"), ob.get("idxlen")))
        exp = expected_canon(k, c["sparse"], s)
        got = list(zip(obs_vals(ob), ob.get("strs") or []))
        if sorted(got) != sorted(exp):
            diff = [g for g in got if g not in exp][:3]
            fails.append("%s: canonical k-mers differ from min(k-mer, rc k-mer): %d/%d keys wrong, e.g. %s" % (
                tag, len([g for g in got if g not in exp]) + abs(len(got) - len(exp)), len(exp), diff))
    if o["kind"] == "kmap" and o_rc["kind"] == "kmap":
        a, b = Counter(obs_vals(o)), Counter(obs_vals(o_rc))
        if a != b:
            fails.append("strand dependence: the two strands share %d of %d keys" % (sum((a & b).values()), sum(a.values())))
    return fails


def longest_repeat(s):
    """length of the longest substring occurring twice in s (what obisuffix.CommonSuffix measures)"""
    best = 0
    n = len(s)
    for L in range(1, n):
        seen = set()
        found = False
        for i in range(n - L + 1):
            w = s[i:i + L]
            if w in seen:
                found = True
                break
            seen.add(w)
        if not found:
            break
        best = L
    return best


def check_ksim(c, o):
    """obikmersim call path: NewKmerMap[Uint128](refs, k, sparse, -1).Query(q): for each reference the number of (query k-mer, reference
    k-mer) pairs with the same canonical key, as the code reports it (pairs + 1), and the same for rc(q) (strand invariance)"""
    k = eff_k(c["k"], c["sparse"])
    if 2 * k > 128 or k < 1:
        return []              # outside the quantifier (the k-mer does not fit the Uint128 word: NewKmerMap refuses it)
    if o["kind"] != "ksim":
        return ["NewKmerMap/Query %s" % o["kind"]]
    fails = []
    if o["kmersize"] != k or (o["sparseat"] >= 0) != c["sparse"]:
        return ["effective k = %d sparseAt = %d" % (o["kmersize"], o["sparseat"])]
    q = Counter(v for v, _ in expected_canon(k, c["sparse"], c["s"]))
    exp = []
    for r in c["refs"]:
        rk = Counter(v for v, _ in expected_canon(k, c["sparse"], r))
        pairs = sum(n * rk[v] for v, n in q.items())
        exp.append(pairs + 1 if pairs else -1)
    if o.get("match") != exp:
        fails.append("Query(q): matches %s, shared canonical k-mers give %s" % (o.get("match"), exp))
    if o.get("matchrc") != exp:
        fails.append("Query(rc q): matches %s, Query(q) must give the same %s (strand invariance)" % (o.get("matchrc"), exp))
    return fails + check_ksx(c, o, k)


def expected_index(c, k):
    """NewKmerMap(refs, k, sparse, maxoccurs): key -> reference numbers (Push appends while the list has at most maxoccurs
    entries; afterwards the keys with maxoccurs entries or more are dropped)"""
    mo = c.get("maxocc")
    mo = -1 if mo is None else mo
    idx = {}
    for i, r in enumerate(c["refs"]):
        for v, _ in expected_canon(k, c["sparse"], r):
            l = idx.setdefault(v, [])
            if mo == -1 or len(l) <= mo:
                l.append(i)
    if mo >= 0:
        idx = {v: l for v, l in idx.items() if len(l) < mo}
    return idx


def check_ksx(c, o, k):
    x = o.get("ksx")
    if x is None:
        return ["round-3 observations missing"] if c.get("x") else []
    fails = []
    idx = expected_index(c, k)
    if x["idxlen"] != len(idx) or x["ksize"] != k:
        fails.append("KmerMap.Len/KmerSize = %d/%d, expected %d keys of size %d" % (x["idxlen"], x["ksize"], len(idx), k))
    ms = c.get("minshared")
    ms = 1 if ms is None else ms
    qs = [("q", c["s"], x["q"], None), ("rc(q)", rc(c["s"].lower()), x["qrc"], None)]
    if x.get("self") is not None:
        qs.append(("refs[%d] itself" % c["self"], c["refs"][c["self"]], x["self"], c["self"]))
    for tag, q, ob, selfi in qs:
        hits = Counter()
        for v, _ in expected_canon(k, c["sparse"], q):
            for i in idx.get(v, []):
                hits[i] += 1
        if selfi is not None:
            hits.pop(selfi, None)         # Query skips the query sequence itself
        exp = [hits[i] + 1 if hits[i] else -1 for i in range(len(c["refs"]))]
        if ob["match"] != exp:
            fails.append("Query(%s) with maxoccurs=%s: %s, the index gives %s" % (tag, c.get("maxocc"), ob["match"], exp))
            continue
        kept = [i for i, n in enumerate(exp) if n >= ms]
        top = max([exp[i] for i in kept] + [0])
        if ob["nmatch"] != len(kept) or ob["kept"] != kept:
            fails.append("FilterMinCount(%d) after Query(%s): Len %d, Sequences %s, expected %s" % (ms, tag, ob["nmatch"], ob["kept"], kept))
        elif (ob["max"] == -1) != (not kept) or (kept and (exp[ob["max"]] != top or ob["maxn"] != top)):
            fails.append("Max() after Query(%s) = reference %d (count %d), best count is %d" % (tag, ob["max"], ob["maxn"], top))
    return fails


# ------------------------------------------------------------------ 4-mer tables
def expected_c4(s):
    s = s.lower()
    code = {"a": 0, "c": 1, "g": 2, "t": 3, "u": 3}
    t = Counter()
    for i in range(len(s) - 3):
        v = 0
        for ch in s[i:i + 4]:
            v = v * 4 + code.get(ch, 0)        # stated: every other symbol reads as 'a'
        t[v] += 1
    return dict(t)


def codes4(s):
    s = s.lower()
    code = {"a": 0, "c": 1, "g": 2, "t": 3, "u": 3}
    return [sum(code.get(ch, 0) << (2 * (3 - j)) for j, ch in enumerate(s[i:i + 4])) for i in range(len(s) - 3)]


def check_c4x(c, o):
    """Index4mer (positions of every 4-mer), Sum4Mer (number of 4-mers), Common4Mer (size of the multiset intersection)"""
    x = o.get("c4x")
    if x is None:
        return ["round-3 observations missing"] if c.get("x") else []
    fails = []
    pos = {}
    for i, v in enumerate(codes4(c["s"])):
        pos.setdefault(v, []).append(i)
    got = {l[0]: l[1:] for l in x.get("index") or []}
    if got != pos or x["cells"] != 256:
        bad = [v for v in set(got) | set(pos) if got.get(v) != pos.get(v)][:3]
        fails.append("Index4mer: %d cells, positions differ for %s" % (x["cells"], ", ".join("%s impl=%s expected=%s" % (dec(v, 4), got.get(v), pos.get(v)) for v in bad)))
    t1 = {a: b % 65536 for a, b in expected_c4(c["s"]).items()}
    t2 = {a: b % 65536 for a, b in expected_c4(c.get("s2", "")).items()}
    com = sum(min(n, t2.get(a, 0)) for a, n in t1.items())
    exp = dict(sum=sum(t1.values()), sum2=sum(t2.values()), common=com, commonr=com, self=sum(t1.values()))
    gotv = {f: x[f] for f in exp}
    if gotv != exp:
        fails.append("Sum4Mer/Common4Mer: %s, expected %s" % (gotv, exp))
    return fails


def check_c4(c, o):
    if o["kind"] != "c4":
        return ["Count4Mer %s" % o["kind"]], None
    got = {a: b for a, b in o.get("table") or []}
    exp = expected_c4(c["s"])
    xf = check_c4x(c, o)
    if xf:
        return xf, None
    if got == exp:
        return [], None
    if any(v > 65535 for v in exp.values()) and got == {a: v % 65536 for a, v in exp.items() if v % 65536}:
        return [], "count4-uint16-wrap"
    bad = [x for x in set(got) | set(exp) if got.get(x, 0) != exp.get(x, 0)][:4]
    return ["4-mer counts differ: " + ", ".join("%s impl=%d expected=%d" % (dec(x, 4), got.get(x, 0), exp.get(x, 0)) for x in bad)], None



# ------------------------------------------------------------------ round 3: the commands (option parsing, readers, per-sample glue)
def ed1(a, b):
    """edit distance <= 1: what obialign.D1Or0 accepts (the edges of obiconsensus' sequence graph, --distance 1)"""
    if a == b:
        return True
    if abs(len(a) - len(b)) > 1:
        return False
    i = 0
    while i < min(len(a), len(b)) and a[i] == b[i]:
        i += 1
    if len(a) == len(b):
        return a[i + 1:] == b[i + 1:]
    return a[i + 1:] == b[i:] if len(a) > len(b) else a[i:] == b[i + 1:]


def parse_fasta_json(text):
    """obitools fasta with a JSON header -> list of (id, attributes, sequence)"""
    recs = []
    for blk in text.split("\n>"):
        blk = blk.lstrip(">")
        if not blk.strip():
            continue
        head, _, body = blk.partition("\n")
        rid, _, js = head.partition(" ")
        try:
            attrs = json.loads(js) if js.strip() else {}
        except ValueError:
            attrs = {"_unparsed": js}
        recs.append((rid, attrs, "".join(body.split())))
    return recs


def gen_cli_cons(rng):
    """an obiconsensus data set: 2-4 samples, each a centre read with its one-error variants (substitutions, interior indels;
    exactly 4 neighbours, exactly 5 - the tool builds a consensus above 4 -, fewer and more) and some two-error reads; a sample
    made of two reads at one difference with equal counts (equal cluster weights); options of the command"""
    recs = []
    nvars = [4, 5] + [rng.choice([2, 3, 6, 8, 10]) for _ in range(rng.choice([0, 1, 2]))]
    rng.shuffle(nvars)
    for si, nvar in enumerate(nvars):
        sample = "S%d" % si
        L = rng.randrange(40, 90)
        base = rand_seq(rng, L)
        seen = {base}
        mine = [("s%dc" % si, base, rng.choice([20, 50, 300]), sample)]
        for j, i in enumerate(rng.sample(range(3, L - 3), nvar)):
            r = rng.random()
            t = base[:i] + (rng.choice([x for x in "acgt" if x != base[i]]) + base[i + 1:] if r < 0.7 else base[i + 1:] if r < 0.85 else rng.choice("acgt") + base[i:])
            if t not in seen and all(not ed1(t, u[1]) for u in mine[1:]):
                seen.add(t)
                mine.append(("s%dv%d" % (si, j), t, rng.choice([1, 1, 2, 3, 5]), sample))
        for j in range(rng.choice([0, 1, 2])):
            src = rng.choice(mine[1:] or mine)[1]
            i = rng.randrange(3, len(src) - 3)
            t = src[:i] + rng.choice([x for x in "acgt" if x != src[i]]) + src[i + 1:]
            if t not in seen and not ed1(t, base):
                seen.add(t)
                mine.append(("s%dw%d" % (si, j), t, 1, sample))
        recs += mine
    if rng.random() < 0.6:
        a = rand_seq(rng, rng.randrange(30, 60))
        i = rng.randrange(3, len(a) - 3)
        n = rng.choice([1, 4, 30])
        recs += [("tie0", a, n, "T"), ("tie1", a[:i] + rng.choice([x for x in "acgt" if x != a[i]]) + a[i + 1:], n, "T")]
    if rng.random() < 0.6:
        # records already dereplicated by obiuniq -m sample: a read belongs to several samples, with a count in each (merged_sample)
        first = [r for r in recs if r[3] == "S0"]
        shared = set(rng.sample(range(len(first)), rng.randrange(1, len(first) + 1)))
        out = []
        for r in recs:
            if r[3] == "S0" and first.index(r) in shared:
                extra = rng.choice([1, 2, 7])
                out.append((r[0], r[1], r[2] + extra, {"S0": r[2], "X": extra}))
            else:
                out.append(r)
        recs = out
    opts = {}
    if rng.random() < 0.4:
        opts["k"] = rng.choice([5, 8, 12, 20])
    if rng.random() < 0.3:
        opts["cov"] = rng.choice([dict(num=1, e=1), dict(num=1, e=2), dict(num=3, e=2)])
    if rng.random() < 0.4:
        opts["cluster"] = True
    if rng.random() < 0.3:
        opts["save"] = True
    return dict(recs=recs, opts=opts)


def rec_samples(r):
    """sample -> count of the read in that sample"""
    return r[3] if isinstance(r[3], dict) else {r[3]: r[2]}


def cli_cons_plan(inp):
    """what obiconsensus must do with the data set: per output record either a copy of a read or the consensus of a pack of
    reads (the read and its neighbours at one difference, inside its sample)"""
    plan = []
    by_sample = {}
    for r in inp["recs"]:
        for sm in rec_samples(r):
            by_sample.setdefault(sm, []).append(r)
    for sample, rs in by_sample.items():
        nb = {i: [j for j in range(len(rs)) if j != i and ed1(rs[i][1], rs[j][1])] for i in range(len(rs))}
        wt = [rec_samples(r)[sample] for r in rs]                 # weight of a read in THIS sample
        sw = {i: wt[i] + sum(wt[j] for j in nb[i]) for i in nb}
        for i in range(len(rs)):
            pack = [rs[j] for j in nb[i]] + [rs[i]]
            if inp["opts"].get("cluster"):
                if all(not (sw[i] < sw[j]) for j in nb[i]):
                    plan.append(dict(src=rs[i], pack=pack, mode="cluster", sample=sample, weight=wt[i]))
            elif len(nb[i]) > 4:
                plan.append(dict(src=rs[i], pack=pack, mode="denoise", sample=sample, weight=wt[i]))
            else:
                plan.append(dict(src=rs[i], pack=None, mode="denoise", sample=sample, weight=wt[i]))
    return plan


def cli_cons_case(inp, pl):
    c = dict(kind="cons", seqs=[dict(s=r[1], count=r[2]) for r in pl["pack"]], tag="cli")
    if inp["opts"].get("k"):
        c["consk"] = inp["opts"]["k"]
    if inp["opts"].get("cov"):
        c["covs"] = [inp["opts"]["cov"]]
    return c


def run_cli_cons(ctx, bindir, inp, tag, one_cpu=False):
    import tempfile, shutil
    from vlib import sh
    d = tempfile.mkdtemp(prefix="c19cli")
    try:
        with open(os.path.join(d, "in.fasta"), "w") as f:
            for rid, sq, cnt, sample in inp["recs"]:
                if isinstance(sample, dict):
                    f.write('>%s {"count":%d,"merged_sample":%s}\n%s\n' % (rid, cnt, json.dumps(sample), sq))
                else:
                    f.write('>%s {"count":%d,"sample":"%s"}\n%s\n' % (rid, cnt, sample, sq))
        o = inp["opts"]
        args = (["--kmer-size", str(o["k"])] if o.get("k") else []) + (["--low-coverage", repr(o["cov"]["num"] / float(1 << o["cov"]["e"]))] if o.get("cov") else []) \
            + (["--cluster"] if o.get("cluster") else []) + (["--save-graph", os.path.join(d, "graphs")] if o.get("save") else []) \
            + (["--max-cpu", "1"] if one_cpu else [])
        rc, out, err, dt = sh([os.path.join(bindir, "obiconsensus")] + args + [os.path.join(d, "in.fasta")], timeout=120)
        saved = {}
        if o.get("save") and os.path.isdir(os.path.join(d, "graphs")):
            for fn in os.listdir(os.path.join(d, "graphs")):
                if fn.endswith("_consensus.gml"):
                    saved[fn] = open(os.path.join(d, "graphs", fn)).read()
                else:
                    saved[fn] = ""
        return dict(rc=rc, args=args, records=parse_fasta_json(out) if rc == 0 else [], stderr=err[-400:] if rc else "", saved=saved)
    finally:
        shutil.rmtree(d, ignore_errors=True)


def judge_cli_cons(inp, plan, run, cons_obs):
    """the command's output against the plan; cons_obs[i] = in-process BuildConsensus of plan[i]'s pack (None for copies), itself
    judged by the graph oracle and the Coq model further down"""
    if run["rc"] != 0:
        return ["obiconsensus %s exits %s: %s" % (" ".join(run["args"]), run["rc"], run["stderr"])]
    fails = []
    got = {}
    for rid, attrs, sq in run["records"]:
        got.setdefault((rid, str(attrs.get("sample"))), []).append((attrs, sq))
    want = {}
    for pl, ob in zip(plan, cons_obs):
        rid, sq = pl["src"][0], pl["src"][1]
        cnt, sample = pl["weight"], pl["sample"]
        if pl["pack"] is None or len(pl["pack"]) == 1 or ob is None or ob.get("kind") != "cons" or ob.get("conserr"):
            want[(rid, sample)] = dict(seq=sq, flag=False, count=cnt, sample=sample)
        else:
            want[(rid + "_consensus", sample)] = dict(seq=ob["consensus"], flag=True, count=cnt, sample=sample, k=ob["consk"], w=ob["consw"], graph=ob["consgraph"], maxw=ob["consmaxw"])
    if sorted(got) != sorted(want) or any(len(v) != 1 for v in got.values()):
        fails.append("records written (id, sample) %s, expected %s" % ([g for g in sorted(got) if g not in want or len(got[g]) != 1][:8] or sorted(got)[:8], [w for w in sorted(want) if w not in got][:8]))
        return fails
    for (rid, _sm), w in want.items():
        attrs, sq = got[(rid, _sm)][0]
        if sq != w["seq"] or attrs.get("obiconsensus_consensus") != w["flag"] or attrs.get("count", 1) != w["count"] or attrs.get("sample") != w["sample"] \
                or attrs.get("seq_length") != len(w["seq"]):
            fails.append("record %s: %s / consensus=%s count=%s sample=%s, expected %s / consensus=%s count=%d sample=%s" % (
                rid, sq, attrs.get("obiconsensus_consensus"), attrs.get("count", 1), attrs.get("sample"), w["seq"], w["flag"], w["count"], w["sample"]))
        elif w["flag"] and (attrs.get("obiconsensus_kmer_size"), attrs.get("obiconsensus_weight"), attrs.get("obiconsensus_full_graph_size"),
                            attrs.get("obiconsensus_kmer_max_occur"), attrs.get("obiconsensus_seq_length")) != (w["k"], w["w"], w["graph"], w["maxw"], len(w["seq"])):
            fails.append("record %s: attributes %s, the in-process consensus of the same reads gives k=%d weight=%d graph=%d max=%d" % (
                rid, {a: b for a, b in attrs.items() if a.startswith("obiconsensus")}, w["k"], w["w"], w["graph"], w["maxw"]))
        if w["flag"] and inp["opts"].get("save") and sum(1 for (r2, _), w2 in want.items() if r2 == rid and w2["flag"]) == 1:
            # (a read that is the centre of a consensus in two samples writes the same file name twice: not judged)
            fn = "%s_consensus.gml" % rid
            pack = [dict(s=r[1], count=r[2]) for pl in plan if pl["src"][0] + "_consensus" == rid and pl["sample"] == _sm for r in pl["pack"]]
            wt = expected_weights(w["k"], pack, "window")
            if fn not in run["saved"]:
                fails.append("--save-graph: %s not written (files: %s)" % (fn, sorted(run["saved"])[:6]))
            elif 2 <= w["k"] <= 31:
                fails += check_gml(run["saved"][fn], w["k"], wt, graph_of(set(wt), w["k"]), "--save-graph %s" % fn)
    return fails[:5]


def run_cli_ksim(ctx, bindir, c, x):
    """obikmersimcount on the references / query of an index case: the match counts of q, rc(q) and (--self) of every reference"""
    import tempfile, shutil
    from vlib import sh
    k = eff_k(c["k"], c["sparse"])
    d = tempfile.mkdtemp(prefix="c19cli")
    fails = []
    try:
        with open(os.path.join(d, "ref.fasta"), "w") as f:
            for i, r in enumerate(c["refs"]):
                f.write(">r%d\n%s\n" % (i, r))
        with open(os.path.join(d, "q.fasta"), "w") as f:
            f.write(">q\n%s\n>qrc\n%s\n" % (c["s"], rc(c["s"].lower())))
        args = ["-r", os.path.join(d, "ref.fasta"), "-k", str(c["k"])] + (["--sparse"] if c["sparse"] else []) \
            + (["-M", str(c["maxocc"])] if c.get("maxocc") not in (None, -1) else []) + (["-m", str(c["minshared"])] if c.get("minshared") is not None else [])
        ms = 1 if c.get("minshared") is None else c["minshared"]
        idx = expected_index(c, k)
        for mode in ("query", "self"):
            rc_, out, err, dt = sh([os.path.join(bindir, "obikmersimcount")] + args + ([os.path.join(d, "q.fasta")] if mode == "query" else ["--self"]), timeout=120)
            if rc_ != 0:
                fails.append("obikmersimcount %s (%s) exits %s: %s" % (" ".join(args[2:]), mode, rc_, err[-300:]))
                continue
            got = {rid: (a.get("obikmer_match_count"), a.get("obikmer_kmer_size"), a.get("obikmer_sparse_kmer")) for rid, a, _ in parse_fasta_json(out)}
            if mode == "query":
                exp = {"q": (x["q"]["nmatch"], k, c["sparse"]), "qrc": (x["qrc"]["nmatch"], k, c["sparse"])}
                if not c["s"]:
                    exp = {}
            else:
                exp = {}
                for i, r in enumerate(c["refs"]):
                    hits = Counter()
                    for v, _ in expected_canon(k, c["sparse"], r):
                        for j in idx.get(v, []):
                            hits[j] += 1
                    hits.pop(i, None)
                    if r:
                        exp["r%d" % i] = (sum(1 for j, n in hits.items() if n + 1 >= ms), k, c["sparse"])
            if got != exp:
                bad = [r for r in sorted(set(got) | set(exp)) if got.get(r) != exp.get(r)][:4]
                fails.append("obikmersimcount %s (%s): %s" % (" ".join(args[2:]), mode, ", ".join("%s: (count, k, sparse) = %s, expected %s" % (r, got.get(r), exp.get(r)) for r in bad)))
    finally:
        shutil.rmtree(d, ignore_errors=True)
    return fails


def run_cli_kmatch(ctx, bindir, c, x):
    """obikmermatch on the same files: it aligns the query with every candidate reference (alignment: properties C08/C09, not
    judged here) and writes one record per accepted alignment; what comes from the index is judged: obikmer_match_count is the
    number of candidates (Query + FilterMinCount) and obikmer_match_id names one of them. Returns (failures, records judged)."""
    import tempfile, shutil
    from vlib import sh
    d = tempfile.mkdtemp(prefix="c19cli")
    fails, judged = [], 0
    try:
        with open(os.path.join(d, "ref.fasta"), "w") as f:
            for i, r in enumerate(c["refs"]):
                f.write(">r%d\n%s\n" % (i, r))
        with open(os.path.join(d, "q.fasta"), "w") as f:
            f.write(">q\n%s\n>qrc\n%s\n" % (c["s"], rc(c["s"].lower())))
        args = ["-r", os.path.join(d, "ref.fasta"), "-k", str(c["k"]), "--fasta-output"] + (["--sparse"] if c["sparse"] else []) \
            + (["-M", str(c["maxocc"])] if c.get("maxocc") not in (None, -1) else []) + (["-m", str(c["minshared"])] if c.get("minshared") is not None else [])
        rc_, out, err, dt = sh([os.path.join(bindir, "obikmermatch")] + args + [os.path.join(d, "q.fasta")], timeout=120)
        if rc_ != 0:
            return [], 0            # the alignment stage failed on this input: not this property's business
        for rid, a, _ in parse_fasta_json(out):
            ob = x["q"] if rid == "q" else x["qrc"] if rid == "qrc" else None
            if ob is None or "obikmer_match_count" not in a:
                continue
            judged += 1
            mid = str(a.get("obikmer_match_id", ""))
            mid = mid[:-4] if mid.endswith("-rev") else mid
            if a["obikmer_match_count"] != ob["nmatch"] or mid not in ["r%d" % i for i in ob["kept"]]:
                fails.append("obikmermatch %s: record %s has match_count %s / match_id %s, the index gives %d candidates %s" % (
                    " ".join(args[2:]), rid, a["obikmer_match_count"], a.get("obikmer_match_id"), ob["nmatch"], ["r%d" % i for i in ob["kept"]]))
    finally:
        shutil.rmtree(d, ignore_errors=True)
    return fails[:3], judged


# ------------------------------------------------------------------ generators
def rand_seq(rng, n, alpha="acgt"):
    return "".join(rng.choice(alpha) for _ in range(n))


def sprinkle(rng, s, p, alpha=AMBIG, maxn=3):
    s = list(s)
    for _ in range(maxn):
        if s and rng.random() < p:
            s[rng.randrange(len(s))] = rng.choice(alpha)
    return "".join(s)


def mutate(rng, s):
    if not s:
        return s
    i = rng.randrange(len(s))
    r = rng.random()
    if r < 0.6:
        return s[:i] + rng.choice("acgt") + s[i + 1:]
    if r < 0.8:
        return s[:i] + s[i + 1:]
    return s[:i] + rng.choice("acgt") + s[i:]


CORPUS = [
    # defect witnesses first
    dict(kind="dbg", k=4, seqs=[dict(s="acgt", count=1)], tag="fixed:push-length-equal-k"),
    dict(kind="dbg", k=4, seqs=[dict(s="acgt", count=2), dict(s="cgta", count=3), dict(s="acgta", count=1)], tag="fixed:push-length-equal-k"),
    dict(kind="kmap", w=64, k=4, sparse=False, s="acgtgcatta", tag="fixed:forward-word-unmasked"),
    dict(kind="kmap", w=128, k=64, sparse=False, s="acgt" * 20, tag="fixed:mask-2k-equals-width"),
    dict(kind="kmap", w=64, k=32, sparse=False, s="acgtgcatta" * 5, tag="fixed:mask-2k-equals-width"),
    dict(kind="kmap", w=256, k=128, sparse=False, s="acgtgcattg" * 15, tag="fixed:mask-2k-equals-width"),
    dict(kind="c4", s="acg", tag="fixed:encode4mer-length-3"),
    dict(kind="dbg", k=2, seqs=[dict(s="nac", count=1)], tag="fixed:iupac-prefix-multiplicity"),
    dict(kind="dbg", k=2, seqs=[dict(s="acn", count=1)], tag="fixed:iupac-prefix-multiplicity"),
    dict(kind="dbg", k=2, seqs=[dict(s="nacn", count=1)], tag="fixed:iupac-prefix-multiplicity"),
    # boundary cases
    dict(kind="dbg", k=3, seqs=[]),
    dict(kind="dbg", k=3, seqs=[dict(s="ac", count=5)]),
    dict(kind="dbg", k=3, seqs=[dict(s="acgacg", count=1)]),                       # cycle
    dict(kind="dbg", k=2, seqs=[dict(s="aaaa", count=1)]),                          # self loop on node 0
    dict(kind="dbg", k=3, seqs=[dict(s="aaacgt", count=2), dict(s="aaccgt", count=3), dict(s="ccgtt", count=1)]),   # branch
    dict(kind="dbg", k=31, seqs=[dict(s="acgtgcattagcatcgatcgactagctacgatcgatcagctacgactagcatcgac", count=7)]),
    dict(kind="dbg", k=4, seqs=[dict(s="ACGTUACG", count=1)]),
    dict(kind="dbg", k=3, seqs=[dict(s="acgrtt", count=2), dict(s="acgatt", count=1)]),
    dict(kind="kmap", w=64, k=4, sparse=False, s="acg"),
    dict(kind="kmap", w=64, k=4, sparse=False, s="acgt"),
    dict(kind="kmap", w=64, k=4, sparse=False, s="acgtnacgta"),
    dict(kind="kmap", w=64, k=5, sparse=True, s="acgtgcatta"),
    dict(kind="kmap", w=64, k=4, sparse=True, s="acgtgcatta"),
    dict(kind="kmap", w=64, k=5, sparse=False, s="acgtgcatta"),
    dict(kind="kmap", w=128, k=63, sparse=True, s="acgtgcattagcatcgatcgactagctacgatcgatcagctacgactagcatcgacgatcgatcgatgcatgcatcgat"),
    dict(kind="c4", s=""),
    dict(kind="c4", s="ac"),
    dict(kind="c4", s="acgt"),
    dict(kind="c4", s="acgtacgtnnacguu"),
    dict(kind="c4", s="a" * 300),
    # ---- round 3: classes the random generators could not (or hardly) produce
    # a cycle that no source node reaches: a fully periodic read beside ordinary reads (HasCycle must look at every node)
    dict(kind="dbg", k=3, seqs=[dict(s="acgacgacg", count=1), dict(s="ttgcatg", count=2)], tag="r3:isolated-cycle"),
    dict(kind="dbg", k=4, seqs=[dict(s="ttgcatgga", count=2), dict(s="acacacac", count=1)], tag="r3:isolated-cycle"),
    dict(kind="dbg", k=5, seqs=[dict(s="gattacagatcc", count=3), dict(s="cgtcgtcgtcg", count=1), dict(s="gattacagttcc", count=1)], tag="r3:isolated-cycle"),
    # homopolymer k-mers are their own successor (node 0 = poly-a: the 'no predecessor' value of prevNodes)
    dict(kind="dbg", k=3, seqs=[dict(s="ccccc", count=1)], tag="r3:homopolymer"),
    dict(kind="dbg", k=3, seqs=[dict(s="gcaaatg", count=2)], tag="r3:homopolymer"),
    dict(kind="dbg", k=4, seqs=[dict(s="acgttttgca", count=1), dict(s="acgtttgca", count=4)], tag="r3:homopolymer"),
    # an ambiguity code after the first k bases, followed by >= k more bases; two codes closer than k / further apart than k;
    # a code inside the first k-mer followed by a long tail
    dict(kind="dbg", k=3, seqs=[dict(s="acgtanccatgga", count=1)], tag="r3:iupac-late"),
    dict(kind="dbg", k=3, seqs=[dict(s="acgtrayccatgga", count=2)], tag="r3:iupac-close"),
    dict(kind="dbg", k=3, seqs=[dict(s="acgrtaccatgyga", count=1), dict(s="acgatacca", count=3)], tag="r3:iupac-far"),
    dict(kind="dbg", k=4, seqs=[dict(s="anctgacctagga", count=1)], tag="r3:iupac-first-kmer"),
    dict(kind="dbg", k=4, seqs=[dict(s="acgtgcatgnn", count=1)], tag="r3:iupac-end"),
    # two branches with equal / adjacent support (the consensus flips on a difference of one)
    dict(kind="dbg", k=3, seqs=[dict(s="aacgtcct", count=5), dict(s="aacgacct", count=5)], tag="r3:branch-tie"),
    dict(kind="dbg", k=3, seqs=[dict(s="aacgtcct", count=5), dict(s="aacgacct", count=6)], tag="r3:branch-close"),
    dict(kind="dbg", k=3, seqs=[dict(s="aacgtcct", count=6), dict(s="aacgacct", count=5)], tag="r3:branch-close"),
    # bubble whose second arm reaches the join later with a better distance (re-opening of a visited node)
    dict(kind="dbg", k=3, seqs=[dict(s="aacgt", count=2), dict(s="aaccgt", count=3)], tag="r3:bubble"),
    # low-coverage ends around a well covered core (min_cov trimming on both sides), min_cov above 1
    dict(kind="dbg", k=4, seqs=[dict(s="ttgacgtgcatcgg", count=1), dict(s="gacgtgcatc", count=9)],
         covs=[dict(num=1, e=1), dict(num=1, e=0), dict(num=3, e=1)], tag="r3:low-coverage-ends"),
    dict(kind="ksim", w=128, k=4, sparse=False, refs=["acgtgcatta", "ggggacgtgg"], s="acgtgcat", self=0, tag="fixed:query-reports-itself"),
    dict(kind="ksim", w=128, k=4, sparse=False, refs=["acgtgcatta", "ggggacgtgg", "acgtgcatta"], s="acgtgcat", maxocc=2, minshared=2, tag="r3:maxoccurs"),
    dict(kind="ksim", w=128, k=4, sparse=False, refs=["acacacacac", "acgtgcatta"], s="acacgtgc", maxocc=0, tag="r3:maxoccurs-0"),
    dict(kind="ksim", w=128, k=5, sparse=True, refs=["acgtgcattagg", "ccggacgtgcat"], s="taatgcacgt", minshared=3, tag="r3:minshared"),
    dict(kind="c4", s="acgtacgtnnacguu", s2="acgtacguu", tag="r3:common4"),
    dict(kind="c4", s="acg", s2="acgt", tag="r3:common4"),
    dict(kind="kmap", w=64, k=4, sparse=False, s="acgtgcatta", buf=True, tag="r3:buffer"),
    dict(kind="kmap", w=128, k=5, sparse=True, s="acgtnacgtgcatta", buf=True, tag="r3:buffer"),
]


def gen_dbg(rng, big=False):
    r = rng.random()
    if r < 0.1:
        k = rng.choice([2, 3, 30, 31])
    elif r < 0.75:
        k = rng.randrange(2, 8)
    else:
        k = rng.randrange(8, 32)
    nseq = rng.choice([1, 1, 2, 3, 4, 6]) if not big else rng.randrange(1, 12)
    shape = rng.random()
    L = rng.choice([k - 1, k, k, k + 1, k + 2, k + 5, 2 * k + 3, 3 * k + 7]) if rng.random() < 0.5 else rng.randrange(max(1, k - 1), k + (60 if big else 30))
    L = max(1, L)
    base = rand_seq(rng, L, "acgt" if rng.random() < 0.8 else "ac")
    if shape < 0.25 and L >= 2 * k:
        # repeat creating a cycle or a branch
        i = rng.randrange(0, L - k + 1)
        j = rng.randrange(0, L)
        rep = base[i:i + rng.choice([k - 1, k, k + 1])]
        base = base[:j] + rep + base[j:]
    seqs = []
    namb = 0
    for _ in range(nseq):
        s = base
        for _ in range(rng.choice([0, 0, 1, 1, 2, 3])):
            s = mutate(rng, s)
        if rng.random() < 0.25:
            a = rng.randrange(0, max(1, len(s) // 2))
            s = s[a:a + rng.choice([k - 1, k, k + 1, len(s)])]
        if rng.random() < 0.15 and namb < 2:
            # ambiguity codes multiply the nodes (and the run time of Push) by up to 4 each: at most two ambiguous sequences per set
            namb += 1
            s = sprinkle(rng, s, 0.8, alpha="ryswkm" * 3 + "bdhvn", maxn=rng.choice([1, 1, 2]))
        if rng.random() < 0.05:
            s = s.upper()
        if rng.random() < 0.05:
            s = s.replace("t", "u", 1)
        seqs.append(dict(s=s, count=rng.choice([1, 1, 1, 2, 3, 7, 100, 12345])))
    if nseq == 1 and rng.random() < 0.5:
        seqs[0]["count"] = 1
    shape3 = None
    r3 = rng.random()
    if r3 < 0.08:
        # a fully periodic read: its k-mers form a cycle that no source node reaches
        unit = rand_seq(rng, rng.choice([1, 2, 3, 3, 4, 5]))
        seqs.insert(rng.randrange(len(seqs) + 1), dict(s=(unit * (k + 4))[:k + rng.randrange(len(unit), 2 * len(unit) + 2)], count=rng.choice([1, 1, 2, 9])))
        shape3 = "periodic-read"
    elif r3 < 0.16 and namb == 0:
        # ambiguity codes at chosen places: after the first k bases with >= k bases behind, two codes closer / further than k
        t = rand_seq(rng, 3 * k + rng.randrange(2, 8))
        pos = rng.choice([[k + rng.randrange(0, 3)], [k, k + rng.randrange(1, k)], [rng.randrange(0, k), 2 * k + 1], [rng.randrange(0, k)], [len(t) - 1]])
        t = list(t)
        for i in pos:
            t[i] = rng.choice("ryswkm" * 3 + "bdhvn")
        seqs.append(dict(s="".join(t), count=rng.choice([1, 2, 5])))
        shape3 = "iupac-placed"
    elif r3 < 0.26 and len(base) > k + 2:
        # two branches with equal or adjacent support
        i = rng.randrange(k, len(base) - 1) if len(base) - 1 > k else k
        alt = base[:i] + rng.choice([x for x in "acgt" if x != base[i]]) + base[i + 1:]
        n = rng.choice([1, 2, 5, 50])
        seqs = [dict(s=base, count=n), dict(s=alt, count=n + rng.choice([0, 0, 1, -1]) or 1)] + seqs[:rng.choice([0, 0, 1, 2])]
        shape3 = "branch-tie"
    elif r3 < 0.32:
        # homopolymer run of at least k bases
        j = rng.randrange(0, len(base) + 1)
        seqs.append(dict(s=base[:j] + rng.choice("acgt") * (k + rng.randrange(0, 3)) + base[j:], count=1))
        shape3 = "homopolymer"
    elif r3 < 0.40:
        # a well covered core with thin ends (what min_cov trims)
        a, b = rng.randrange(0, 4), rng.randrange(0, 4)
        if len(base) - a - b >= k:
            seqs = [dict(s=base, count=rng.choice([1, 2])), dict(s=base[a:len(base) - b], count=rng.choice([3, 8, 40]))] + seqs[:rng.choice([0, 1])]
            shape3 = "thin-ends"
    c = dict(kind="dbg", k=k, seqs=seqs, x=True)
    if shape3:
        c["shape"] = shape3
    words = [enc(q["s"].lower().replace("u", "t")[i:i + k]) for q in seqs for i in range(0, max(0, len(q["s"]) - k + 1), 3)
             if not any(ch in AMBIG for ch in q["s"].lower()[i:i + k])]
    some = lambda: rng.choice(words) if words and rng.random() < 0.7 else rng.randrange(0, 4 ** k)
    c["minw"] = rng.choice([0, 2, 2, 3, 5, 100])
    c["lmax"] = rng.choice([1, 2, 3, 5, 10, 40])
    c["covs"] = [rng.choice([dict(num=1, e=1), dict(num=1, e=2), dict(num=3, e=2), dict(num=1, e=0), dict(num=7, e=3), dict(num=1, e=4),
                             dict(num=9, e=4), dict(num=0, e=0), dict(num=3, e=1), dict(num=2, e=0), dict(num=5, e=3)]) for _ in range(2)]
    c["ham"] = [[str(some()), str(some())] for _ in range(2)] + [[str(some()), str(some() + (rng.randrange(1, 4) << (2 * k)))]]
    c["probe"] = [str(some()), str(rng.randrange(0, 4 ** k)), "0"]
    if sum(len(q["s"]) for q in seqs) <= 90 and rng.random() < 0.5:
        c["gml"] = True
    return c


def gen_kmap(rng):
    w = rng.choice([64, 64, 128, 128, 256])
    sparse = rng.random() < 0.4
    kmax = w // 2
    r = rng.random()
    if r < 0.25:
        k = rng.choice([kmax, kmax - 1, kmax - 2, 2, 3, 4])
    elif r < 0.7:
        k = rng.randrange(2, min(kmax, 16) + 1)
    else:
        k = rng.randrange(2, kmax + 1)
    ke = eff_k(k, sparse)
    if 2 * ke > w:
        k -= 2
        ke = eff_k(k, sparse)
    L = rng.choice([ke - 1, ke, ke + 1, ke + 2, 2 * ke, 2 * ke + 1, w // 2, w // 2 + 1, w // 2 + ke]) if rng.random() < 0.5 else rng.randrange(max(0, ke - 2), ke + 80)
    s = rand_seq(rng, max(0, L), rng.choice(["acgt", "acgt", "acgt", "at", "ac", "gt"]))
    if rng.random() < 0.15 and len(s) > 2:
        # palindromic stretch: k-mer = its reverse complement
        h = s[:len(s) // 2]
        s = h + rc(h)
    if rng.random() < 0.3:
        s = sprinkle(rng, s, 0.8, AMBIG + "u", maxn=rng.choice([1, 2, 4]))
    if rng.random() < 0.05:
        s = s.upper()
    return dict(kind="kmap", w=w, k=k, sparse=sparse, s=s, buf=rng.random() < 0.5)


def gen_c4(rng):
    L = rng.choice([0, 1, 2, 3, 4, 5, 6, 7, 8]) if rng.random() < 0.3 else rng.randrange(4, 400)
    s = rand_seq(rng, L, rng.choice(["acgt", "acgt", "ac", "a", "acgtu"]))
    if rng.random() < 0.3:
        s = sprinkle(rng, s, 0.8, AMBIG, maxn=3)
    if rng.random() < 0.1:
        s = s.upper()
    s2 = s
    for _ in range(rng.choice([0, 1, 2, 5])):
        s2 = mutate(rng, s2)
    if rng.random() < 0.3:
        s2 = rand_seq(rng, rng.choice([0, 3, 4, 30, 200]), rng.choice(["acgt", "ac"]))
    return dict(kind="c4", s=s, reuse=rng.random() < 0.5, s2=s2, x=True)


def gen_cons(rng):
    """reads shaped like an obiconsensus cluster: one amplicon (60-140 bp, no long repeat most of the time), 3-25 reads with
    0-3 errors each (substitutions mostly; errors near the 3' end make bubbles that close just before the sink), counts as written
    by obiuniq in the count attribute; the k-mer size is left to the tool (-1)"""
    L = rng.randrange(30, 140)
    base = rand_seq(rng, L)
    if rng.random() < 0.15:
        i = rng.randrange(0, L - 8)
        base = base[:i] + base[i:i + rng.randrange(4, 9)] * 2 + base[i:]          # tandem repeat: the tool has to raise k
    seqs = [dict(s=base, count=rng.choice([3, 10, 57, 1000, 12345]))]
    for _ in range(rng.randrange(2, 25)):
        t = base
        for _ in range(rng.choice([0, 1, 1, 1, 2, 3])):
            if rng.random() < 0.5:
                i = rng.randrange(max(0, len(t) - 25), len(t))
                t = t[:i] + rng.choice("acgt") + t[i + 1:]
            else:
                t = mutate(rng, t)
        if rng.random() < 0.1:
            t = t[:rng.randrange(len(t) // 2, len(t) + 1)]
        if rng.random() < 0.04:
            t = sprinkle(rng, t, 1.0, alpha="ryswkmn", maxn=1)
        if len(t) >= 12:
            seqs.append(dict(s=t, count=rng.choice([1, 1, 1, 1, 2, 3, 5, 20])))
    c = dict(kind="cons", seqs=seqs)
    r3 = rng.random()
    if r3 < 0.25:
        c["consk"] = rng.choice([3, 4, 5, 6, 8, 12, 20])        # --kmer-size: the tool raises it while the graph has a cycle
    if rng.random() < 0.3:
        c["covs"] = [rng.choice([dict(num=1, e=1), dict(num=1, e=2), dict(num=3, e=2), dict(num=1, e=0), dict(num=1, e=3)])]   # --low-coverage
    if rng.random() < 0.2:
        c["gml"] = True                                          # --save-graph
    if rng.random() < 0.06:
        c["seqs"] = seqs[:rng.choice([0, 1])]
    return c


def gen_ksim(rng):
    """obikmersim / obikmermatch: Uint128 index, k = 30 by default (or -k), dense or --sparse; related references and a query"""
    sparse = rng.random() < 0.3
    k = rng.choice([30, 30, 30, 31, 16, 20, 33, 34, 40, 48, 63, 64, 8, 12])
    if 2 * eff_k(k, sparse) > 128:
        k -= 2                                     # -k 64 --sparse would be a 65-mer: does not fit Uint128
    L = rng.randrange(max(20, eff_k(k, sparse)), 220)
    base = rand_seq(rng, L)
    refs = []
    for _ in range(rng.randrange(1, 6)):
        t = base
        for _ in range(rng.choice([0, 1, 2, 4])):
            t = mutate(rng, t)
        if rng.random() < 0.3:
            t = rc(t)
        if rng.random() < 0.1:
            t = sprinkle(rng, t, 1.0, maxn=2)
        refs.append(t)
    if rng.random() < 0.2:
        refs.append(rand_seq(rng, rng.randrange(10, 100)))
    q = base
    for _ in range(rng.choice([0, 0, 1, 2])):
        q = mutate(rng, q)
    if rng.random() < 0.15:
        q = q[:len(q) // 2] + rc(q[:len(q) // 2])
    c = dict(kind="ksim", w=128, k=k, sparse=sparse, refs=refs, s=q, x=True)
    r3 = rng.random()
    if r3 < 0.3:
        # low-complexity / duplicated references: k-mers occurring several times in one reference and in several references
        ke = eff_k(k, sparse)
        unit = rand_seq(rng, rng.randrange(1, 6))
        rep = (unit * (ke + 40))[:ke + rng.randrange(3, 30)]
        c["refs"] = refs + [rep, base[:len(base) // 2] + rep, refs[0]]
        if rng.random() < 0.5:
            c["s"] = q[:len(q) // 2] + rep
    if rng.random() < 0.6:
        c["maxocc"] = rng.choice([-1, 0, 1, 2, 3, 5, 20])
    if rng.random() < 0.6:
        # --min-shared-kmers at, just below and just above the counts Query will report (FilterMinCount compares with <)
        ke = eff_k(k, sparse)
        counts = []
        if 2 * ke <= 128:
            idx = expected_index(c, ke)
            hits = Counter(i for v, _ in expected_canon(ke, sparse, c["s"]) for i in idx.get(v, []))
            counts = [n + 1 for n in hits.values()]
        c["minshared"] = rng.choice(counts + [n + 1 for n in counts] + [max(0, n - 1) for n in counts] + [0, 1, 2, 50]) if rng.random() < 0.8 else rng.choice([0, 1, 2, 3, 10, 50])
    if rng.random() < 0.4:
        c["self"] = rng.randrange(len(c["refs"]))
    return c


def gen_cases(ctx, n):
    rng = ctx.rng
    cases = [dict(c, x=True) if c["kind"] in ("dbg", "c4", "ksim") else dict(c) for c in CORPUS]
    cases.append(dict(kind="dbg", k=3, seqs=[dict(s="gtcaga", count=5), dict(s="ggcaga", count=1)], x=True, tag="r3:bubble-reopen"))
    for _ in range(n):
        cases.append(gen_dbg(rng))
    for _ in range(n):
        cases.append(gen_kmap(rng))
    for _ in range(max(10, n // 6)):
        cases.append(gen_ksim(rng))
    for _ in range(max(20, n // 4)):
        cases.append(gen_c4(rng))
    return cases


def strip(c):
    return {k: v for k, v in c.items() if k not in ("tag", "expect_cons", "shape")}


# ------------------------------------------------------------------ Coq rendering
def nlist(l):
    return "[" + ";".join(str(x) for x in l) + "]"


def seq_term(s):
    return nlist(s.lower().encode())


def old_term(c, o):
    """round-1 comparison: weights, heads and - graphs up to FULL_NODES - verdict and weight of the path against the SPECIFICATION"""
    seqs = "[" + ";".join("(%s,%d)" % (seq_term(q["s"]), q["count"]) for q in c["seqs"]) + "]"
    nodes = "[" + ";".join("(%s,%d)" % (n["kmer"], n["w"]) for n in o.get("nodes") or []) + "]"
    heads = nlist(o.get("heads") or [])
    if o["pathnil"] or o["pathpanic"] or not o.get("path"):
        pw = "None"
    else:
        wt = {n["kmer"]: n["w"] for n in o["nodes"]}
        pw = "(Some %d)" % sum(wt.get(x, 0) for x in o["path"])
    full = len(o.get("nodes") or []) <= FULL_NODES
    return "CDbg %d %s %s %s %s %s %s" % (c["k"], seqs, nodes, heads, "true" if full else "false", "true" if o["hascycle"] else "false", pw)


def case_term(c, o, o_rc=None):
    if c["kind"] == "dbg":
        seqs = "[" + ";".join("(%s,%d)" % (seq_term(q["s"]), q["count"]) for q in c["seqs"]) + "]"
        old = old_term(c, o)
        algo = len(o.get("nodes") or []) <= ALGO_NODES and not o.get("pathskipped")
        if o["pathpanic"]:
            path = "PPanic"
        elif o["pathnil"]:
            path = "PNil"
        else:
            path = "(PSome %s)" % nlist(o.get("path") or [])
        cons = "None" if o["conserr"] else "(Some %s)" % nlist(o["consensus"].encode())
        return "C2Dbg (%s) %d %s %s %s %s %s %s" % (old, c["k"], seqs, "true" if algo else "false", "true" if o["hascycle"] else "false",
                                                   path, nlist((o.get("decoded") or "").encode()), cons)
    if c["kind"] == "kmap":
        def ob(x):
            if x["kind"] != "kmap":
                return "None"
            return "(Some %s)" % nlist(sorted(obs_vals(x)))
        return "C2Old (CKmap %d %d %s %s %s %s)" % (c["w"], c["k"], "true" if c["sparse"] else "false", seq_term(c["s"]), ob(o), ob(o_rc))
    if c["kind"] == "c4":
        if o["kind"] != "c4":
            return "C2Old (CC4 %s None)" % seq_term(c["s"])
        return "C2Old (CC4 %s (Some %s))" % (seq_term(c["s"]), "[" + ";".join("(%d,%d)" % (a, b) for a, b in o.get("table") or []) + "]")
    raise ValueError(c["kind"])


IMPORTS = "From Coq Require Import NArith List Bool. Import ListNotations. Open Scope N_scope.\nFrom OBI.C19 Require Import Model Algo Corr."
IMPORTS3 = IMPORTS + "\nFrom OBI.C19 Require Import Model3 Corr3."


def cres_term(t):
    kind, sq = t
    return "CErr" if kind == "err" else "CPanic" if kind == "panic" else "(CSeq %s)" % nlist(sq.encode())


def case3_term(c, o):
    """round-3 observations as a Corr3.xcase (None: nothing to compare)"""
    def opt_pair(v):
        return "None" if v is None else "(Some (%s,%s))" % (v[0], v[1])
    if c["kind"] == "dbg":
        x = o.get("x")
        if x is None or len(o.get("nodes") or []) > ALGO_NODES:
            return None
        seqs = "[" + ";".join("(%s,%d)" % (seq_term(q["s"]), q["count"]) for q in c["seqs"]) + "]"
        spec = "None" if x["speclen"] == -1 else "(Some %d)" % x["speclen"]
        spectrum = "[" + ";".join("(%d,%d)" % (a, b) for a, b in (x.get("spectrum") or [] if x["speclen"] != -1 else [])) + "]"
        prevl = "[" + ";".join(nlist(sorted(int(v) for v in (n["prevs"] or []))) for n in x.get("nodes") or []) + "]"
        maxn = "[" + ";".join(opt_pair(n["maxnext"]) for n in x.get("nodes") or []) + "]"
        greedy = "(Some %s)" % nlist(x.get("maxpath") or []) if x.get("greedy") else "None"
        minw = c.get("minw", 0)
        filt = "[" + ";".join("(%s,%s)" % (a, b) for a, b in (x.get("filtered") or [])) + "]"
        path = "PPanic" if o["pathpanic"] else "PNil" if o["pathnil"] else "(PSome %s)" % nlist(o.get("path") or [])
        covs = "[" + ";".join("(%d,%d,%s)" % (cv["num"], cv["e"], cres_term(consx(got))) for cv, got in zip(c.get("covs") or [], x.get("covs") or [])) + "]"
        ham = "[" + ";".join("(%s,%s,%d)" % (a, b, h) for (a, b), h in zip(c.get("ham") or [], x.get("ham") or [])) + "]"
        return "X3Graph %d %s %s %s %s %s %s %s %d %s %s %s %s %s" % (c["k"], seqs, spec, spectrum, prevl, maxn, opt_pair(x.get("maxhead")), greedy, minw, filt,
                                                                    "true" if x.get("filteredcyc") else "false", path, covs, ham)
    if c["kind"] == "ksim":
        x = o.get("ksx")
        if x is None or 2 * eff_k(c["k"], c["sparse"]) > 128:
            return None
        mo = c.get("maxocc")
        ms = c.get("minshared")
        opt = lambda l: "[" + ";".join("None" if v < 0 else "(Some %d)" % v for v in l) + "]"
        return "X3Query 128 %d %s %s %s %d %s %d %s %s %d %d" % (
            c["k"], "true" if c["sparse"] else "false", "[" + ";".join(seq_term(r) for r in c["refs"]) + "]",
            "None" if mo is None or mo < 0 else "(Some %d)" % mo, 1 if ms is None else ms, seq_term(c["s"]),
            x["idxlen"], opt(x["q"]["match"]), opt(x["qrc"]["match"]), x["q"]["nmatch"], x["qrc"]["nmatch"])
    if c["kind"] == "c4":
        x = o.get("c4x")
        if x is None:
            return None
        return "X3C4 %s %s %s %d %d %d" % (seq_term(c["s"]), seq_term(c.get("s2", "")), "[" + ";".join("(%d,%s)" % (l[0], nlist(l[1:])) for l in x.get("index") or []) + "]",
                                          x["sum"], x["sum2"], x["common"])
    return None

KNOWN_TEXT = {
    "count4-uint16-wrap": "Count4Mer tables are uint16: a 4-mer occurring more than 65535 times in one sequence wraps (poly-a of 65539 bases counts 0)",
}


def evaluate(ctx, cases, broken, label, corr=True):
    # run s and rc(s) for the index cases
    flat, where = [], []
    for c in cases:
        where.append(len(flat))
        flat.append(strip(c))
        if c["kind"] == "kmap":
            flat.append(dict(strip(c), s=rc(c["s"].lower())))
    import time
    te = time.time()
    obs_flat = ctx.vh_robust("c19", flat, timeout=600, one_timeout=30)
    ctx.cov.setdefault("evaluate_wall_s", {})[label + ": harness"] = round(time.time() - te, 1)
    te = time.time()
    obs = [(obs_flat[i], obs_flat[i + 1] if cases[j]["kind"] == "kmap" else None) for j, i in enumerate(where)]
    nviol = 0
    oracle_bad = set()
    for i, (c, (o, o2)) in enumerate(zip(cases, obs)):
        key = None
        if o["kind"] == "crash" or (o2 and o2["kind"] == "crash"):
            fails = ["harness process crashed or hung"]
        elif c["kind"] == "dbg":
            fails, key = check_dbg(c, o)
        elif c["kind"] == "kmap":
            fails = check_kmap(c, o, o2)
        elif c["kind"] == "ksim":
            fails = check_ksim(c, o)
        else:
            fails, key = check_c4(c, o)
        if key:
            if ctx.kf_match(key):
                ctx.known(key, KNOWN_TEXT[key])
            else:
                fails = fails + [KNOWN_TEXT[key]]
        if fails:
            nviol += 1
            oracle_bad.add(i)
            if nviol <= 4:
                ctx.violation("%s_oracle_%d" % (label, i), dict(property="C19", kind="direct-oracle", case={k: v for k, v in c.items() if k != "tag"}, failures=fails,
                                                              implementation=o, implementation_rc=o2))
    mism = []
    if corr:
        # (the 65 kb witness of the uint16 wrap is checked by the oracle only: its literal overflows coqc's stack)
        idx = [i for i, (o, o2) in enumerate(obs) if o["kind"] != "crash" and not (o2 and o2["kind"] == "crash")
               and len(cases[i].get("s", "")) <= 5000 and cases[i]["kind"] != "ksim"]
        terms, owner = [], []
        for i in idx:
            terms.append(case_term(cases[i], *obs[i]))
            owner.append(i)
            o = obs[i][0]
            if cases[i]["kind"] == "kmap" and o["kind"] == "kmap" and o.get("strs") and 2 * eff_k(cases[i]["k"], cases[i]["sparse"]) <= cases[i]["w"]:
                # KmerAsString of the keys (at most 12 per case: first, last and a spread)
                pairs = list(zip(obs_vals(o), o["strs"]))
                step = max(1, len(pairs) // 10)
                pairs = pairs[::step] + pairs[-1:]
                terms.append("C2Kstr %d %d %s [%s]" % (cases[i]["w"], cases[i]["k"], "true" if cases[i]["sparse"] else "false",
                                                      ";".join("(%d,%s)" % (v, nlist(st.encode())) for v, st in pairs)))
                owner.append(i)
        ctx.cov.setdefault("evaluate_wall_s", {})[label + ": oracle"] = round(time.time() - te, 1)
        te = time.time()
        bad, err = ctx.correspond(label, IMPORTS, terms, fn="mismatches2", shard=25 if len(terms) < 2000 else 150)
        ctx.cov.setdefault("evaluate_wall_s", {})[label + ": Coq (rounds 1-2)"] = round(time.time() - te, 1)
        te = time.time()
        if bad is None:
            broken.append(dict(kind="correspondence", detail=err))
        else:
            mism = sorted({owner[i] for i in bad})
            # the property allows ANY walk of maximal weight: a graph case whose path differs from the transcription of the
            # algorithm but agrees on everything the statement speaks of (weights, heads, verdict, validity and total weight of
            # the path - second pass with the round-1 comparison, plus the direct oracle above) is a tie-break difference, not an alarm
            redo = [i for i in mism if cases[i]["kind"] == "dbg"]
            if redo:
                weak = ["C2Old (%s)" % old_term(cases[i], obs[i][0]) for i in redo]
                bad2, err2 = ctx.correspond(label + "_weak", IMPORTS, weak, fn="mismatches2", shard=25)
                if bad2 is not None:
                    still = {redo[j] for j in bad2}
                    ties = [i for i in redo if i not in still and i not in oracle_bad]
                    if ties:
                        ctx.cov["path_differs_from_transcription_same_weight"] = ctx.cov.get("path_differs_from_transcription_same_weight", 0) + len(ties)
                    mism = [i for i in mism if i not in ties]
        # round 3: the observations of c19r3.go against Model3.v (graph cases whose path is a tie-break difference included: the
        # coverage trimming is evaluated on the OBSERVED heaviest path)
        terms3, owner3 = [], []
        for i, (o, o2) in enumerate(obs):
            if o["kind"] == "crash" or len(cases[i].get("s", "")) > 5000 or cases[i]["kind"] == "kmap":
                continue
            t3 = case3_term(cases[i], o)
            if t3 is not None:
                terms3.append(t3)
                owner3.append(i)
        if terms3:
            bad3, err3 = ctx.correspond(label + "_r3", IMPORTS3, terms3, fn="mismatches3", shard=25 if len(terms3) < 2000 else 100)
            ctx.cov.setdefault("evaluate_wall_s", {})[label + ": Coq (round 3)"] = round(time.time() - te, 1)
            if bad3 is None:
                broken.append(dict(kind="correspondence", detail=err3))
            else:
                mism = sorted(set(mism) | {owner3[j] for j in bad3})
    return obs, mism, nviol


def nontrivial(c):
    if c["kind"] == "dbg":
        return any(len(q["s"]) >= c["k"] for q in c["seqs"])
    if c["kind"] in ("kmap", "ksim"):
        return len(c["s"]) > eff_k(c["k"], c["sparse"])
    return len(c["s"]) >= 4


def run(ctx, broken):
    import time
    t0 = [time.time()]
    phases = {}

    def lap(name):
        phases[name] = round(phases.get(name, 0) + time.time() - t0[0], 1)
        t0[0] = time.time()
        ctx.cov["phase_wall_s"] = dict(phases)
    t = getattr(ctx, "_c19_tables", None) or dump_tables(ctx)
    replay_tables(ctx, t)
    ctx.cov["regenerated_tables"] = "iupac %d letters, revcompnuc %d, decode %d, __single_base_code__ %d entries; %d table obligations failing" % (
        len(t["iupac"]), len(t["revcomp"]), len(t["decode"]), len(t["single"]), len(table_failures(t)))
    n = 220 if ctx.quick else 2500
    cases = gen_cases(ctx, n)
    if not ctx.quick:
        cases.append(dict(kind="c4", s="a" * 65539, tag="known:count4-uint16-wrap"))
        # exhaustive small scope: every sequence over {a,c,g,t} of length 1..6 (dense k=2, sparse k=3, graph k=2 and k=3)
        nex = 0
        for L in range(1, 7):
            for t in itertools.product("acgt", repeat=L):
                s = "".join(t)
                cases.append(dict(kind="kmap", w=64, k=2, sparse=False, s=s))
                cases.append(dict(kind="kmap", w=64, k=3, sparse=True, s=s))
                cases.append(dict(kind="dbg", k=2 + (nex % 2), seqs=[dict(s=s, count=1 + nex % 3)]))
                nex += 1
        ctx.cov["exhaustive"] = True
        ctx.cov["exhaustive_scope"] = "all %d sequences over {a,c,g,t} of length 1..6: index dense k=2 and sparse k=3 on both strands, graph of the single sequence k=2/3" % nex
    # obiconsensus call path: the tool estimates k (longest repeat inside a read + 1, raised while HasCycle), counts come from the
    # count attribute; the reads then go through the graph checks (oracle + Coq model of the algorithms) at the k the tool chose
    cons = [dict(kind="cons", seqs=[]), dict(kind="cons", seqs=[dict(s="acgtgcattagcatcga", count=3)]),
            dict(kind="cons", seqs=[dict(s="ACGTGCATTAGCATCGA", count=1)], consk=5, gml=True)]
    cons += [gen_cons(ctx.rng) for _ in range(40 if ctx.quick else 500)]
    # the commands themselves (option parsing, file readers, per-sample packs, attributes): obiconsensus data sets; every pack of reads
    # the command must hand to BuildConsensus also goes through the in-process path below (and from there through the graph oracle
    # and the Coq model), and the command's records are compared with it
    lap("tables + case generation")
    bindir, cerr = ctx.build_cmds(["obiconsensus", "obikmersimcount", "obikmermatch"])
    if bindir is None:
        broken.append(dict(kind="build", detail=cerr))
    lap("build of the three commands")
    cli_sets = [gen_cli_cons(ctx.rng) for _ in range(6 if ctx.quick else 60)] if bindir else []
    for n, inp in enumerate(cli_sets):            # both modes of the command in every run
        inp["opts"].pop("cluster", None)
        if n % 2:
            inp["opts"]["cluster"] = True
    cli_plans = []
    for inp in cli_sets:
        plan = cli_cons_plan(inp)
        for pl in plan:
            if pl["pack"] is not None and len(pl["pack"]) >= 2:
                pl["cons_index"] = len(cons)
                cons.append(cli_cons_case(inp, pl))
        cli_plans.append(plan)
    obs_c = ctx.vh_robust("c19", cons, timeout=900, one_timeout=60)
    lap("in-process BuildConsensus batch")
    cli_stat = Counter()
    for n, (inp, plan) in enumerate(zip(cli_sets, cli_plans)):
        # (before the repair `fix: GraphBuffer.Close waits ...` the command read its sequence graph while the last edge was still being
        # added: a neighbour of the centre read was missing from its pack in most runs under load.) A failure is confirmed by a second run.
        for attempt in range(2):
            run_ = run_cli_cons(ctx, bindir, inp, n, one_cpu=attempt > 0)
            fl = judge_cli_cons(inp, plan, run_, [obs_c[pl["cons_index"]] if "cons_index" in pl else None for pl in plan])
            if not fl:
                break
            cli_stat["obiconsensus runs repeated after a failing comparison"] += 1
        cli_stat["obiconsensus %s" % (" ".join(a for a in run_["args"] if a.startswith("--")) or "(defaults)")] += 1
        cli_stat["obiconsensus records judged"] += len(plan)
        cli_stat["obiconsensus consensus calls replayed in-process"] += sum(1 for pl in plan if "cons_index" in pl)
        if fl:
            cli_stat["obiconsensus failures"] += 1
            if cli_stat["obiconsensus failures"] <= 3:
                ctx.violation("cli_obiconsensus_%d" % n, dict(property="C19", kind="command", case=dict(kind="cli-cons", recs=inp["recs"], opts=inp["opts"]),
                                                              failures=fl, implementation=dict(args=run_["args"], rc=run_["rc"], records=run_["records"][:40])))
    tool = Counter()
    for i, (c, o) in enumerate(zip(cons, obs_c)):
        if o["kind"] != "cons" or o.get("conspanic"):
            tool["crash"] += 1
            if tool["crash"] <= 2:
                ctx.violation("cons_crash_%d" % i, dict(property="C19", kind="direct-oracle", case=c, failures=["obiconsensus.BuildConsensus crashed, panicked or hung"], implementation=o))
            continue
        opt = "/".join(["k=%s" % (c.get("consk") or "auto")] + (["low-coverage"] if c.get("covs") else []) + (["save-graph"] if c.get("gml") else []))
        tool["options " + opt] += 1
        glue = []
        if len(c["seqs"]) == 0:
            tool["no read"] += 1
            if not o["conserr"] or o.get("err") != "no sequence provided":
                glue.append("BuildConsensus of no read: %r / %r, expected the error 'no sequence provided'" % (o.get("consensus"), o.get("err")))
        elif len(c["seqs"]) == 1:
            tool["single read"] += 1
            if o["conserr"] or o["consensus"] != c["seqs"][0]["s"].lower() or o["consflag"] or o["consk"]:
                glue.append("BuildConsensus of a single read must return it unchanged with obiconsensus_consensus=false: %r flag=%s" % (o.get("consensus"), o.get("consflag")))
        if c.get("gml") and len(c["seqs"]) >= 2:
            # --save-graph: <id>_consensus.fasta holds the reads handed to the consensus (in order, with their counts)
            recs = [r for r in (o.get("savedfa") or "").split(">") if r.strip()]
            got = [("".join(r.split("\n")[1:]), r.split("\n")[0]) for r in recs]
            exp = [q["s"].lower() for q in c["seqs"]]
            if [g for g, _ in got] != exp or any(q["count"] != 1 and ('"count":%d' % q["count"]) not in h.replace(" ", "") for q, (_, h) in zip(c["seqs"], got)):
                glue.append("--save-graph: the fasta file holds %d records, expected the %d reads with their counts" % (len(got), len(exp)))
            if not o["conserr"] and not o.get("savedgml"):
                glue.append("--save-graph: no .gml file written")
        if glue:
            tool["glue failures"] += 1
            if tool["glue failures"] <= 3:
                ctx.violation("cons_glue_%d" % i, dict(property="C19", kind="direct-oracle", case=c, implementation=o, failures=glue))
        if len(c["seqs"]) < 2:
            continue
        if o["conserr"]:
            tool["no consensus (%s)" % o.get("err", "")] += 1
            continue
        k = o["consk"]
        # the k chosen by the tool: the smallest k >= (--kmer-size, or longest repeat inside one read + 1) whose graph is acyclic
        k0 = c.get("consk") or 1 + max(longest_repeat(q["s"].lower()) for q in c["seqs"])
        kk = k0
        while kk < 64 and has_cycle(graph_of(set(expected_weights(kk, c["seqs"], "prefix")), kk)):
            kk += 1
        if kk != k:
            tool["k differs from the smallest acyclic k"] += 1
        if kk != k and tool["k differs from the smallest acyclic k"] <= 3:
            ctx.violation("cons_k_%d" % i, dict(property="C19", kind="direct-oracle", case=c, implementation=o,
                                               failures=["BuildConsensus stopped at k=%d, the smallest acyclic k >= %d is %d" % (k, k0, kk)]))
        if not 2 <= k <= 31:
            tool["k outside 2..31"] += 1
            continue
        tool["k=%d%s" % (k, "" if k == k0 else " (raised from %d)" % k0)] += 1
        cases.append(dict(kind="dbg", k=k, seqs=c["seqs"], x=True, covs=c.get("covs") or [],
                          expect_cons=dict(consensus=o["consensus"], consgraph=o["consgraph"], consmaxw=o["consmaxw"], consw=o["consw"],
                                           conslen=o.get("conslen"), consfgraph=o.get("consfgraph"), cov=(c.get("covs") or [None])[0],
                                           savedgml=o.get("savedgml") if c.get("gml") else None)))
    ctx.cov["obiconsensus_call_path"] = dict(tool)
    lap("obiconsensus command runs + judgement")
    obs, mism, nviol = evaluate(ctx, cases, broken, "main")
    lap("harness + oracle + Coq correspondence of the main batch")
    # obikmersimcount on index cases judged above: the command's match counts against the in-process Query / FilterMinCount
    if bindir:
        todo = [(c, o) for c, (o, o2) in zip(cases, obs) if c["kind"] == "ksim" and o.get("ksx") and 2 * eff_k(c["k"], c["sparse"]) <= 128 and c["refs"]]
        for n, (c, o) in enumerate(todo[:12 if ctx.quick else 150]):
            fl = run_cli_ksim(ctx, bindir, c, o["ksx"])
            fl2, nj = run_cli_kmatch(ctx, bindir, c, o["ksx"])
            fl += fl2
            cli_stat["obikmermatch records judged (candidate count and id)"] += nj
            cli_stat["obikmersimcount (query + --self)%s%s%s" % (" --sparse" if c["sparse"] else "", " -M" if c.get("maxocc") is not None else "", " -m" if c.get("minshared") is not None else "")] += 1
            if fl:
                cli_stat["obikmersimcount failures"] += 1
                if cli_stat["obikmersimcount failures"] <= 3:
                    ctx.violation("cli_obikmersimcount_%d" % n, dict(property="C19", kind="command", case=strip(c), failures=fl, implementation=o))
    ctx.cov["commands"] = dict(cli_stat)
    lap("obikmersimcount / obikmermatch command runs")
    ctx.cov["evaluations"] = len(cases) + sum(1 for c in cases if c["kind"] == "kmap")
    ctx.cov["distinct_nontrivial"] = len({json.dumps(strip(c), sort_keys=True) for c in cases if nontrivial(c)})
    ctx.cov["rule"] = ("non-trivial = graph case with a sequence of length >= k / index case with a sequence longer than the effective k / "
                       "4-mer case of length >= 4; distinct = distinct JSON case")
    dist = Counter()
    for c, (o, o2) in zip(cases, obs):
        if c["kind"] == "dbg":
            kind = "empty" if not o.get("nodes") else "cycle" if o.get("hascycle") else "acyclic"
            amb = "iupac" if any(ch in AMBIG for q in c["seqs"] for ch in q["s"].lower()) else "acgt"
            dist["dbg%s/k%s/%s/%s" % ("(obiconsensus)" if "expect_cons" in c else "", "<8" if c["k"] < 8 else "8-31", kind, amb)] += 1
        elif c["kind"] == "ksim":
            dist["ksim/k%d/%s" % (c["k"], "sparse" if c["sparse"] else "dense")] += 1
        elif c["kind"] == "kmap":
            dist["kmap/%d/%s/%s" % (c["w"], "sparse" if c["sparse"] else "dense", "2k=w" if 2 * eff_k(c["k"], c["sparse"]) == c["w"] else "2k<w")] += 1
        else:
            dist["c4/len%s" % ("<4" if len(c["s"]) < 4 else ">=4")] += 1
    # round 3: the input classes added to the corpus and to the random stream
    cls = Counter()
    for c, (o, o2) in zip(cases, obs):
        t = c.get("tag", "")
        if t.startswith("r3:") or t.startswith("fixed:"):
            cls["corpus/" + t] += 1
        if c["kind"] == "dbg":
            if c.get("shape"):
                cls["dbg/shape/" + c["shape"]] += 1
            x = o.get("x") or {}
            if x:
                cls["dbg/extra-observations"] += 1
                if c.get("minw"):
                    cls["dbg/FilterMinWeight/%s" % ("nothing removed" if x.get("filteredlen") == len(o.get("nodes") or []) else "all removed" if not x.get("filteredlen") else "some removed")] += 1
                for cv, got in zip(c.get("covs") or [], x.get("covs") or []):
                    r = cv["num"] / float(1 << cv["e"])
                    kind = "panic" if got.get("panic") else "error" if got.get("err") else "trimmed" if len(got.get("seq") or "") < len(o.get("consensus") or "") else "untrimmed"
                    cls["dbg/min_cov %s/%s" % ("= 0" if r == 0 else "<= 1" if r <= 1 else "> 1", kind)] += 1
                if c.get("gml"):
                    cls["dbg/Gml+WriteGml"] += 1
                if x.get("greedy"):
                    pw = sum(n["w"] for n in o.get("nodes") or [] if n["kmer"] in set(x.get("maxpath") or []))
                    hw = sum(n["w"] for n in o.get("nodes") or [] if n["kmer"] in set(o.get("path") or []))
                    cls["dbg/greedy walk %s the heaviest" % ("lighter than" if pw < hw else "as heavy as")] += 1
                for v, pn in zip(c.get("probe") or [], x.get("probenext") or []):
                    cls["dbg/Nexts of a k-mer %s the graph" % ("outside" if pn else "inside")] += 1
            if "expect_cons" in c:
                cls["dbg/from obiconsensus%s%s" % ("/low-coverage" if c["expect_cons"].get("cov") else "", "/save-graph" if c["expect_cons"].get("savedgml") else "")] += 1
        elif c["kind"] == "ksim":
            cls["ksim/maxoccurs %s" % ("none" if c.get("maxocc") in (None, -1) else c["maxocc"] if c["maxocc"] < 3 else ">=3")] += 1
            x = o.get("ksx") or {}
            if x and c.get("minshared") is not None:
                m = [n for n in x["q"]["match"] if n >= 0]
                cls["ksim/minshared %s" % ("= a reported count" if c["minshared"] in m else "= a count + 1" if c["minshared"] - 1 in m else "= a count - 1" if c["minshared"] + 1 in m else "other")] += 1
            if c.get("self") is not None:
                cls["ksim/query = a reference object"] += 1
        elif c["kind"] == "kmap" and c.get("buf"):
            cls["kmap/caller's buffer"] += 1
        elif c["kind"] == "c4" and c.get("x"):
            cls["c4/second sequence %s" % ("identical" if c.get("s2") == c["s"] else "related or random")] += 1
    ctx.cov["distribution"] = dict(dist)
    ctx.cov["input_classes_round3"] = dict(cls)
    ctx.samples = [dict(case=strip(c), implementation=o) for c, (o, o2) in list(zip(cases, obs))[:2] + list(zip(cases, obs))[-2:]]
    ctx.cov["model_vs_impl_mismatches"] = len(mism)
    if mism and not ctx.violations:
        more = gen_cases(ctx, int(os.environ.get("VERIF_C19_SEARCH", "3000")))
        evaluate(ctx, more, [], "search", corr=False)
        if not ctx.violations:
            i = mism[0]
            broken.append(dict(kind="correspondence", name="corr:C19/%s" % cases[i]["kind"], first_diverging_case=strip(cases[i]),
                               implementation=obs[i][0], n_diverging=len(mism)))
    elif mism:
        ctx.cov["note"] = "model and implementation diverge on %d cases (violations reported by the direct oracle)" % len(mism)


def replay(ctx, rp):
    if rp.get("kind") == "table-obligation":
        bad = table_failures(dump_tables(ctx))
        print("replay: obikmer tables of the current build, symbol %r:" % rp.get("symbol"),
              [w for w, s in bad if s == rp.get("symbol")] or "obligations hold", "| all failing symbols:", sorted({s for _, s in bad}))
    c = rp["case"]
    if rp.get("kind") == "command":
        bindir, cerr = ctx.build_cmds(["obiconsensus", "obikmersimcount", "obikmermatch"])
        if c.get("kind") == "cli-cons":
            inp = dict(recs=[tuple(r) for r in c["recs"]], opts=c["opts"])
            plan = cli_cons_plan(inp)
            cons = []
            for pl in plan:
                if pl["pack"] is not None and len(pl["pack"]) >= 2:
                    pl["cons_index"] = len(cons)
                    cons.append(cli_cons_case(inp, pl))
            obs_c = ctx.vh_robust("c19", cons, timeout=300, one_timeout=60)
            # a failure of the command may depend on the scheduling (the repaired finding was a race): 20 runs, every outcome reported
            nfail, first = 0, None
            for attempt in range(20):
                run_ = run_cli_cons(ctx, bindir, inp, 0, one_cpu=attempt % 2 == 1)
                fl = judge_cli_cons(inp, plan, run_, [obs_c[pl["cons_index"]] if "cons_index" in pl else None for pl in plan])
                if fl:
                    nfail += 1
                    first = first or fl
            print("replay: obiconsensus %s -> %d of 20 runs differ from the in-process consensus of the same reads | %s" % (
                " ".join(a for a in run_["args"] if not a.startswith("/")), nfail, ("VIOLATION " + "; ".join(first)) if nfail else "ok"))
            return
        obs, mism, nviol = evaluate(ctx, [c], [], "replay")
        fl = run_cli_ksim(ctx, bindir, c, obs[0][0].get("ksx") or {}) if obs[0][0].get("ksx") else ["no in-process observation"]
        print("replay: obikmersimcount on", json.dumps(c)[:300], "|", ("VIOLATION " + "; ".join(fl)) if fl else "ok")
        return
    obs, mism, nviol = evaluate(ctx, [c], [], "replay")
    print("replay:", json.dumps(c), "->", json.dumps(obs[0][0])[:600], "| oracle:", "VIOLATION" if ctx.violations else "ok",
          "| model:", "mismatch" if mism else "agrees")
