"""C19 — exact De Bruijn weights and heaviest path; strand-invariant canonical k-mers; exact 4-mer tables (pkg/obikmer)."""
import itertools, json, os
from collections import Counter

PROPS = ["C19/Props.v", "C19/PropsFp.v"]
META = dict(
    text="Rocq theorems over an executable transcription of pkg/obikmer (k-mer words as N, `mod 4^k` exactly where the code masks): "
         "(1) KmerMap.NormalizedKmerSlice, as repaired, returns for every window of k unambiguous bases min(k-mer, reverse-complement k-mer) "
         "(centre base dropped in sparse mode: proved), and a sequence and its reverse complement give the same multiset of keys, for every "
         "word width and every k that fits; the masks of NewKmerMap are ALSO computed with the obifp operations the code uses over the proved "
         "limb model of C20 (Uint64/128/256, every k: 4^k-1 when 2k <= width, panic otherwise) and proved equal to the N model; KmerAsString "
         "is the k-mer ('#' for the centre base in sparse mode) and never indexes outside its buffer; (2) DeBruijnGraph.Push accumulates for "
         "every k-mer the sum of count x occurrences (lengths <, = and > k; k = 1..31) for sequences over acgtu, and - since the repair of the round-1 finding "
         "iupac-prefix-multiplicity - for ANY IUPAC sequence the sum of count x windows compatible with the k-mer, a reading proved "
         "symmetric under reverse complement (the pre-repair recursion stays characterised and refuted over dbg_build_pre); weights are positive and built graphs have a source when acyclic; (3) the Go ALGORITHMS are modelled and proved: "
         "HasCycle (recursive DFS with visited/stack maps) returns exactly has_cycle (= a closed walk exists) for every map iteration order; "
         "HaviestPath (label-correcting search with a min-heap of node ids and the re-opening visited[next] = false) terminates on acyclic "
         "graphs within a proved bound and returns a valid walk from a source whose total weight is maximal among ALL walks from sources "
         "(= the specification best_walk_weight), nil exactly on cyclic graphs; without the re-opening it is refuted by a witness; DecodePath "
         "spells for any walk the unique string whose k-mers are the walk; LongestConsensus returns that string for the heaviest walk; a "
         "single sequence comes back unchanged IFF it has no repeated (k-1)-mer (exact condition, both directions proved); (4) Count4Mer "
         "counts exactly the 4-mer windows (modulo 2^16); (5) the tables iupac / revcompnuc / decode / __single_base_code__ are REGENERATED "
         "from the current build before every Coq build and the theorems over them (model = tables, expansion of each IUPAC letter = its base "
         "set, complement consistency and involution, decode inverts) are re-proved by the kernel on every run. On every run the real "
         "MakeDeBruijnGraph/Push/Weight/Nexts/Heads/HasCycle/HaviestPath/DecodePath/LongestConsensus, obiconsensus.BuildConsensus (k chosen by "
         "the tool, counts from the count attribute), NewKmerMap/NormalizedKmerSlice/KmerAsString (Uint64/128/256, k up to 128, sparse and "
         "dense, both strands), KmerMap.Query as obikmersim uses it (Uint128, both strands) and Count4Mer run on boundary-biased and random "
         "cases against a direct Python oracle, and the Coq model (including the transcribed algorithms: verdict, ACTUAL path, decoding, "
         "consensus, key strings) is evaluated by vm_compute on the same cases.",
    note="Trusted: Coq kernel + vm_compute; harness, generators and the Python oracle; obifp words in NormalizedKmerSlice modelled as N modulo "
         "2^width (the mask construction is tied to C20's limb model by theorem; shift counts are unbounded Z there: kmersize < 2^62); Go maps "
         "are association lists (lookup default = zero value) and their iteration orders are universally quantified in the theorems (the "
         "correspondence evaluates the key-sorted order; the result does not depend on it); container/heap with Less = (<) on node ids is a "
         "multiset whose Pop returns a minimum; Go int distances do not overflow (total weight < 2^63). A path that differs from the "
         "transcription but is a valid walk of the same maximal weight is NOT an alarm (the property allows any heaviest walk; counted in the "
         "evidence). Guards: counts >= 1, non-empty graph for HaviestPath (LongestConsensus guards it), 2k <= width, k = 2..31 for the "
         "single-sequence clause (k = 1: every node has a self loop), min_cov = 0 in LongestConsensus (the coverage trimming uses float mode "
         "statistics: not modelled), KmerMap.Query is oracle-only (shared canonical k-mers, same result for both strands). Known finding: "
         "uint16 wrap of Count4Mer beyond 65535 occurrences.")
TRUSTED = ["obifp Uint64/128/256 LeftShift/RightShift/And/Or/LessThan inside NormalizedKmerSlice are modelled by their exact meaning on N modulo 2^width (property C20); "
           "the masks of NewKmerMap are additionally computed over C20's proved limb model (C19/MaskFp.v) and proved equal to the N model",
           "Go map iteration order: graph nodes are compared as a key-sorted association list; HasCycle / Heads orders are universally quantified in the theorems",
           "container/heap (UInt64Heap, Less = <) is modelled as a multiset whose Pop returns a minimum",
           "Go int arithmetic of HaviestPath distances is modelled on unbounded N (no overflow: total weight < 2^63)",
           "regenerated tables: the dump goes through the hook VerifTablesC19 (copies of the package variables) and tools/props/c19.py tables_source"]

VERIF = os.path.dirname(os.path.dirname(os.path.dirname(os.path.abspath(__file__))))
TABLES_V = os.path.join(VERIF, "coq", "theories", "C19", "Gen", "Tables.v")


# ---------------------------------------------------------------- regenerated tables (DESIGN §2.3-B)
def tables_source(t):
    """Gallina source of C19/Gen/Tables.v from the harness' table dump (vh c19tables)."""
    def nl(l):
        return "[" + "; ".join(str(int(x)) for x in l) + "]"
    iu = sorted((int(k), v) for k, v in t["iupac"].items())
    rc = sorted((int(k), int(v)) for k, v in t["revcomp"].items())
    dec = sorted((int(k), int(v)) for k, v in t["decode"].items())
    return ("(** GENERATED by tools/props/c19.py regen() from the CURRENT build (vh c19tables, case {\"kind\":\"tables\"}). Do not edit.\n"
            "    iupac_tab   : obikmer.iupac      (byte, 2-bit codes in the order of the Go slice), sorted by byte;\n"
            "    revcomp_tab : obikmer.revcompnuc (byte, complement byte), sorted by byte;\n"
            "    decode_tab  : obikmer.decode     (2-bit code, byte), sorted by code;\n"
            "    single_tab  : obikmer.__single_base_code__ (every entry; indexed by byte & 31). *)\n"
            "From Coq Require Import NArith List.\nImport ListNotations.\nOpen Scope N_scope.\n\n"
            "Definition iupac_tab : list (N * list N) := [%s].\n\n"
            "Definition revcomp_tab : list (N * N) := [%s].\n\n"
            "Definition decode_tab : list (N * N) := [%s].\n\n"
            "Definition single_tab : list N := %s.\n" % (
                "; ".join("(%d, %s)" % (k, nl(v)) for k, v in iu), "; ".join("(%d, %d)" % p for p in rc),
                "; ".join("(%d, %d)" % p for p in dec), nl(t["single"])))


def dump_tables(ctx):
    obs, err = ctx.vh("c19tables", [dict(kind="tables")], timeout=60)
    if obs is None:
        raise RuntimeError("vh c19tables: %s" % err)
    return obs[0]


def regen(ctx):
    """Called by check.py before the Coq build: rewrite C19/Gen/Tables.v from the current code (write-if-changed)."""
    vh, err = ctx.build_harness()
    if vh is None:
        raise RuntimeError("harness build failed: %s" % err)
    t = dump_tables(ctx)
    src = tables_source(t)
    os.makedirs(os.path.dirname(TABLES_V), exist_ok=True)
    old = open(TABLES_V).read() if os.path.exists(TABLES_V) else None
    if old != src:
        with open(TABLES_V, "w") as f:
            f.write(src)
        ctx.cov["tables_regenerated"] = "changed"
    else:
        ctx.cov["tables_regenerated"] = "unchanged"
    ctx._c19_tables = t


# the IUPAC standard, written independently of the Go table (a=0 c=1 g=2 t=3)
SPEC_IUPAC = dict(a="a", c="c", g="g", t="t", u="t", r="ag", y="ct", s="cg", w="at", k="gt", m="ac",
                  b="cgt", d="agt", h="act", v="acg", n="acgt")


def spec_codes(ch):
    return sorted("acgt".index(x) for x in SPEC_IUPAC[ch])


def table_failures(t):
    """Executable statement of the table lemmas tab_* of C19/TablesProofs.v (2-5) on the dumped tables: list of (what, symbol)."""
    bad = []
    iu = {chr(int(k)): [int(x) for x in v] for k, v in t["iupac"].items()}
    rc = {chr(int(k)): chr(int(v)) for k, v in t["revcomp"].items()}
    dec = {int(k): chr(int(v)) for k, v in t["decode"].items()}
    single = [int(x) for x in t["single"]]
    # 2. expansion of each letter = its IUPAC base set, strictly increasing codes < 4, key set = the 16 letters
    for ch in sorted(set(iu) | set(SPEC_IUPAC)):
        if ch not in SPEC_IUPAC:
            bad.append(("obikmer.iupac has the unexpected key %r -> %r" % (ch, iu[ch]), ch))
        elif ch not in iu:
            bad.append(("obikmer.iupac lacks the letter %r" % ch, ch))
        elif iu[ch] != spec_codes(ch):
            bad.append(("obikmer.iupac[%r] = %r, the IUPAC base set is %r" % (ch, iu[ch], spec_codes(ch)), ch))
    # 3. complement table agrees with complementing the base set; involution except u -> a -> t
    for ch in sorted(iu):
        if ch not in rc:
            bad.append(("obikmer.revcompnuc lacks the letter %r" % ch, ch))
            continue
        c = rc[ch]
        if c not in iu:
            bad.append(("obikmer.revcompnuc[%r] = %r is not a key of obikmer.iupac" % (ch, c), ch))
            continue
        want = sorted(3 - x for x in iu[ch])
        if iu[c] != want:
            bad.append(("obikmer.revcompnuc[%r] = %r expands to %r, the complemented base set of %r is %r" % (ch, c, iu[c], ch, want), ch))
        back = rc.get(c)
        if back != ("t" if ch == "u" else ch):
            bad.append(("obikmer.revcompnuc is not an involution at %r: %r -> %r -> %r" % (ch, ch, c, back), ch))
    for ch in sorted(set(rc) - set(iu)):
        bad.append(("obikmer.revcompnuc has the key %r that obikmer.iupac lacks" % ch, ch))
    # 4. decode inverts the unambiguous codes
    spec_dec = {0: "a", 1: "c", 2: "g", 3: "t"}
    for code in sorted(set(dec) | set(spec_dec)):
        if dec.get(code) != spec_dec.get(code):
            bad.append(("obikmer.decode[%d] = %r, expected %r" % (code, dec.get(code), spec_dec.get(code)), spec_dec.get(code) or dec.get(code)))
    for ch in "acgt":
        v = iu.get(ch)
        if v is not None and len(v) == 1 and dec.get(v[0]) != ch:
            bad.append(("obikmer.decode[iupac[%r]] = %r: decode does not invert the code of %r" % (ch, dec.get(v[0]), ch), ch))
    # 5. __single_base_code__: 32 entries < 4, a c g t u -> 0 1 2 3 3, everything else 0
    if len(single) != 32:
        bad.append(("__single_base_code__ has %d entries, expected 32 (indexed by byte & 31)" % len(single), "single"))
    want = {ord(ch) & 31: code for ch, code in zip("acgtu", (0, 1, 2, 3, 3))}
    for i, v in enumerate(single):
        if v != want.get(i, 0):
            bad.append(("__single_base_code__[%d] (letter %r) = %d, expected %d" % (i, chr(96 + i), v, want.get(i, 0)), chr(96 + i) if 1 <= i <= 26 else "single"))
    # one line per (what, symbol), first failure of a symbol first
    seen, out = set(), []
    for w, s in bad:
        if (w, s) not in seen:
            seen.add((w, s))
            out.append((w, s))
    return out


def table_case(sym):
    """a concrete input through the REAL code that involves the table entry of `sym` (replay of a table obligation)"""
    if len(sym) == 1 and sym in "acgtu":
        return dict(kind="kmap", w=64, k=4, sparse=False, s="acgt" + sym + "acgtgca")
    if len(sym) == 1 and sym.isalpha():
        return dict(kind="dbg", k=2, seqs=[dict(s="ac" + sym + "gt", count=1)])
    return dict(kind="c4", s="acgtacgtu")


def replay_tables(ctx, t):
    """the executable statement of the table lemmas (C19/TablesProofs.v) names the failing symbol when a regenerated
    table no longer satisfies them (the Coq obligation fails too: `broken` then carries the coqc error)"""
    done = set()
    for what, sym in table_failures(t):
        if sym in done or len(done) >= 4:
            continue
        done.add(sym)
        case = table_case(sym)
        obs = ctx.vh_robust("c19", [case], timeout=60)
        ctx.violation("table_%s" % (sym if sym.isalnum() else "x"), dict(property="C19", kind="table-obligation", why=what, symbol=sym,
                                                                         case=case, implementation=obs[0], tables=t))


IUPAC = dict(a="a", c="c", g="g", t="t", u="t", r="ag", y="ct", s="cg", w="at", k="gt", m="ac", b="cgt", d="agt", h="act", v="acg", n="acgt")
COMP = dict(a="t", c="g", g="c", t="a", u="a", r="y", y="r", s="s", w="w", k="m", m="k", b="v", d="h", h="d", v="b", n="n")
CODE = dict(a=0, c=1, g=2, t=3)
AMBIG = "ryswkmbdhvn"
FULL_NODES = 45      # graphs up to this size are also compared on has_cycle / heaviest-walk weight of the SPECIFICATION inside Coq
ALGO_NODES = 300     # graphs up to this size: the transcribed ALGORITHMS (DFS, label-correcting search) are run inside Coq and compared
                     # with the Go code on the verdict, the actual path, its decoding and the consensus


def rc(s):
    return "".join(COMP[c] for c in reversed(s))


def enc(w):
    v = 0
    for c in w:
        v = v * 4 + CODE[c]
    return v


def dec(v, k):
    return "".join("acgt"[(v >> (2 * (k - 1 - i))) & 3] for i in range(k))


# ------------------------------------------------------------------ De Bruijn oracle
def nexp(s):
    n = 1
    for c in s:
        n *= len(IUPAC[c])
    return n


def window_words(w):
    return [enc("".join(p)) for p in itertools.product(*[IUPAC[c] for c in w])]


def expected_weights(k, seqs, reading):
    """reading 'window' (the specification, and what Push does since the repair): sum over sequences of count x number of windows
       of the sequence compatible with the k-mer (symmetric under reverse complement: theorem C19_weights_iupac_strand_symmetric);
       reading 'full': sum over sequences of count x sum over the full IUPAC expansions e of s of occ(x, e);
       reading 'prefix': the pre-repair recursion of Push/append: a window counted once per expansion of the bases BEFORE it
       (all coincide with count x occurrences on unambiguous sequences)."""
    wt = Counter()
    for q in seqs:
        s, cnt = q["s"].lower(), q["count"]
        if len(s) < k:
            continue
        tot = nexp(s)
        for j in range(len(s) - k + 1):
            win = s[j:j + k]
            mult = tot // nexp(win) if reading == "full" else nexp(s[:j]) if reading == "prefix" else 1
            for x in window_words(win):
                wt[x] += cnt * mult
    return dict(wt)


def graph_of(nodes, k):
    mask = (1 << (2 * k)) - 1
    return {x: [((x << 2) & mask) | b for b in range(4) if (((x << 2) & mask) | b) in nodes] for x in nodes}


def has_cycle(adj):
    color = {}
    for r in adj:
        if r in color:
            continue
        stack = [(r, iter(adj[r]))]
        color[r] = 1
        while stack:
            x, it = stack[-1]
            for y in it:
                if color.get(y) == 1:
                    return True
                if y not in color:
                    color[y] = 1
                    stack.append((y, iter(adj[y])))
                    break
            else:
                color[x] = 2
                stack.pop()
    return False


def best_weight(adj, wt, heads):
    """maximum total weight of a walk starting at a source node (acyclic graph): memoised DP"""
    memo = {}

    def best(x):
        if x not in memo:
            memo[x] = wt[x] + max([best(y) for y in adj[x]] + [0])
        return memo[x]
    import sys
    sys.setrecursionlimit(100000)
    return max([best(h) for h in heads] + [0])


def brute_best(adj, wt, heads, limit=20000):
    """enumeration of ALL walks from the sources (small acyclic graphs only): independent of the DP"""
    best, n = 0, 0
    stack = [(h, wt[h]) for h in heads]
    while stack:
        x, w = stack.pop()
        n += 1
        if n > limit:
            return None
        best = max(best, w)
        for y in adj[x]:
            stack.append((y, w + wt[y]))
    return best


def check_dbg(c, o):
    """returns (list of failure strings, known-finding key or None)"""
    k = c["k"]
    fails = []
    if o["kind"] != "dbg":
        return ["harness observation %s" % o["kind"]], None
    if o.get("err"):
        fails.append(o["err"])
    obs_w = {int(n["kmer"]): n["w"] for n in o.get("nodes") or []}
    key = None
    ambiguous = any(ch in AMBIG for q in c["seqs"] for ch in q["s"].lower())
    full = expected_weights(k, c["seqs"], "window")
    if obs_w != full:
        bad = sorted(set(x for x in set(obs_w) | set(full) if obs_w.get(x, 0) != full.get(x, 0)))[:5]
        why = ""
        if ambiguous and obs_w == expected_weights(k, c["seqs"], "prefix"):
            why = " (windows counted once per IUPAC expansion of the bases that precede them: the defect repaired by fix: iupac-prefix-multiplicity)"
        fails.append("weights differ from sum(count x compatible windows)%s: " % why + ", ".join("%s impl=%d expected=%d" % (dec(x, k), obs_w.get(x, 0), full.get(x, 0)) for x in bad))
    # structure as the implementation reports it
    adj = graph_of(set(obs_w), k)
    for n in o.get("nodes") or []:
        x = int(n["kmer"])
        if sorted(int(y) for y in n["nexts"]) != sorted(adj[x]):
            fails.append("Nexts(%s) = %s, expected %s" % (dec(x, k), n["nexts"], adj[x]))
        if n["label"] != dec(x, k):
            fails.append("DecodeNode(%d) = %s" % (x, n["label"]))
    preds = {y for x in adj for y in adj[x]}
    heads = sorted(x for x in adj if x not in preds)
    if [int(h) for h in o.get("heads") or []] != heads:
        fails.append("Heads = %s, expected %s" % (o.get("heads"), heads))
    cyc = has_cycle(adj)
    if o["hascycle"] != cyc:
        fails.append("HasCycle = %s, expected %s" % (o["hascycle"], cyc))
    # a single unambiguous sequence: the graph is acyclic exactly when no (k-1)-mer is repeated
    # (then the sequence must come back unchanged, checked below); a repeated (k-1)-mer closes a cycle
    if len(c["seqs"]) == 1:
        s1 = c["seqs"][0]["s"].lower().replace("u", "t")
        if not any(ch in AMBIG for ch in s1) and len(s1) >= k:
            sub = [s1[i:i + k - 1] for i in range(len(s1) - k + 2)]
            if (len(set(sub)) != len(sub)) != cyc:
                fails.append("single sequence: repeated (k-1)-mer = %s but HasCycle = %s" % (len(set(sub)) != len(sub), cyc))
    if not obs_w:
        if not o["conserr"]:
            fails.append("consensus returned for an empty graph")
        return fails, key        # HaviestPath on an empty graph: outside the statement (LongestConsensus guards it)
    if cyc and "expect_cons" in c:
        fails.append("obiconsensus.BuildConsensus stopped at k=%d but the graph has a cycle" % k)
    if cyc:
        if not o["pathnil"] or o["pathpanic"]:
            fails.append("graph has a cycle but a path is returned")
        if not o["conserr"]:
            fails.append("graph has a cycle but a consensus is returned")
        return fails, key
    if o["pathnil"] or o["pathpanic"] or not o.get("path"):
        fails.append("acyclic non-empty graph but no path returned")
        return fails, key
    path = [int(x) for x in o["path"]]
    if path[0] not in heads:
        fails.append("path does not start at a source node")
    for a, b in zip(path, path[1:]):
        if a not in adj or b not in adj[a]:
            fails.append("path step %s -> %s is not an edge" % (dec(a, k), dec(b, k)))
            return fails, key
    if any(x not in obs_w for x in path):
        fails.append("path leaves the graph")
        return fails, key
    pw = sum(obs_w[x] for x in path)
    bw = best_weight(adj, obs_w, heads)
    if pw != bw:
        fails.append("path weight %d, heaviest walk from a source weighs %d" % (pw, bw))
    if len(adj) <= 14:
        bb = brute_best(adj, obs_w, heads)
        if bb is not None and bb != pw:
            fails.append("path weight %d, enumeration of all walks gives %d" % (pw, bb))
    spelled = dec(path[0], k) + "".join("acgt"[x & 3] for x in path[1:])
    if "expect_cons" in c:
        # the same reads went through obiconsensus.BuildConsensus (k estimated by the tool, counts from the count attribute)
        e = c["expect_cons"]
        if e["consensus"] != spelled:
            fails.append("obiconsensus.BuildConsensus (k=%d chosen by the tool) returns %r, the heaviest path spells %r" % (k, e["consensus"], spelled))
        if e["consgraph"] != len(obs_w) or e["consmaxw"] != max(obs_w.values()) or e["consw"] != sum(q["count"] for q in c["seqs"]):
            fails.append("obiconsensus attributes graph_size=%d max_occur=%d weight=%d, graph has %d nodes, max weight %d, total count %d" % (
                e["consgraph"], e["consmaxw"], e["consw"], len(obs_w), max(obs_w.values()), sum(q["count"] for q in c["seqs"])))
    if o["decoded"] != spelled:
        fails.append("DecodePath = %s, path spells %s" % (o["decoded"], spelled))
    if o["conserr"] or o["consensus"] != spelled:
        fails.append("LongestConsensus = %r, path spells %s" % (o["consensus"], spelled))
    if len(c["seqs"]) == 1:
        s = c["seqs"][0]["s"].lower()
        if not any(ch in AMBIG for ch in s) and len(s) >= k:
            t = s.replace("u", "t")
            # acyclic here, hence no repeated (k-1)-mer and no repeated k-mer
            if o["consensus"] != t:
                fails.append("single sequence without repeated k-mer is not returned unchanged: %r" % o["consensus"])
    return fails, key


# ------------------------------------------------------------------ canonical k-mers oracle
def eff_k(k, sparse):
    if sparse and k % 2 == 0:
        k += 1
    if not sparse and k % 2 == 1:
        k -= 1
    return k


def expected_canon(k, sparse, s):
    """list of (value, string) of the canonical k-mers of the unambiguous windows of s (k already effective)"""
    s = s.lower()
    res = []
    mid = k // 2
    for i in range(len(s) - k + 1):
        w = s[i:i + k]
        if any(ch in AMBIG for ch in w):
            continue
        w = w.replace("u", "t")
        r = rc(w)
        if sparse:
            a, b = w[:mid] + w[mid + 1:], r[:mid] + r[mid + 1:]
        else:
            a, b = w, r
        m = min(a, b)          # 'a' < 'c' < 'g' < 't' : string order = numeric order of the 2-bit encoding
        res.append((enc(m), (m[:mid] + "#" + m[mid:]) if sparse else m))
    return res


def obs_vals(o):
    return [sum(int(x) << (64 * i) for i, x in enumerate(l)) for l in o.get("kmers") or []]


def check_kmap(c, o, o_rc):
    fails = []
    k = eff_k(c["k"], c["sparse"])
    if 2 * k > c["w"] or k < 1:
        return fails          # outside the quantifier (k-mer does not fit the word)
    for tag, s, ob in (("s", c["s"], o), ("rc(s)", rc(c["s"].lower()), o_rc)):
        if ob["kind"] != "kmap":
            fails.append("%s: NewKmerMap/NormalizedKmerSlice %s" % (tag, ob["kind"]))
            continue
        if ob["kmersize"] != k or (ob["sparseat"] >= 0) != c["sparse"]:
            fails.append("%s: effective k = %d sparseAt = %d" % (tag, ob["kmersize"], ob["sparseat"]))
            continue
        exp = expected_canon(k, c["sparse"], s)
        got = list(zip(obs_vals(ob), ob.get("strs") or []))
        if sorted(got) != sorted(exp):
            diff = [g for g in got if g not in exp][:3]
            fails.append("%s: canonical k-mers differ from min(k-mer, rc k-mer): %d/%d keys wrong, e.g. %s" % (
                tag, len([g for g in got if g not in exp]) + abs(len(got) - len(exp)), len(exp), diff))
    if o["kind"] == "kmap" and o_rc["kind"] == "kmap":
        a, b = Counter(obs_vals(o)), Counter(obs_vals(o_rc))
        if a != b:
            fails.append("strand dependence: the two strands share %d of %d keys" % (sum((a & b).values()), sum(a.values())))
    return fails


def longest_repeat(s):
    """length of the longest substring occurring twice in s (what obisuffix.CommonSuffix measures)"""
    best = 0
    n = len(s)
    for L in range(1, n):
        seen = set()
        found = False
        for i in range(n - L + 1):
            w = s[i:i + L]
            if w in seen:
                found = True
                break
            seen.add(w)
        if not found:
            break
        best = L
    return best


def check_ksim(c, o):
    """obikmersim call path: NewKmerMap[Uint128](refs, k, sparse, -1).Query(q): for each reference the number of (query k-mer, reference
    k-mer) pairs with the same canonical key, as the code reports it (pairs + 1), and the same for rc(q) (strand invariance)"""
    k = eff_k(c["k"], c["sparse"])
    if 2 * k > 128 or k < 1:
        return []              # outside the quantifier (the k-mer does not fit the Uint128 word: NewKmerMap refuses it)
    if o["kind"] != "ksim":
        return ["NewKmerMap/Query %s" % o["kind"]]
    fails = []
    if o["kmersize"] != k or (o["sparseat"] >= 0) != c["sparse"]:
        return ["effective k = %d sparseAt = %d" % (o["kmersize"], o["sparseat"])]
    q = Counter(v for v, _ in expected_canon(k, c["sparse"], c["s"]))
    exp = []
    for r in c["refs"]:
        rk = Counter(v for v, _ in expected_canon(k, c["sparse"], r))
        pairs = sum(n * rk[v] for v, n in q.items())
        exp.append(pairs + 1 if pairs else -1)
    if o.get("match") != exp:
        fails.append("Query(q): matches %s, shared canonical k-mers give %s" % (o.get("match"), exp))
    if o.get("matchrc") != exp:
        fails.append("Query(rc q): matches %s, Query(q) must give the same %s (strand invariance)" % (o.get("matchrc"), exp))
    return fails


# ------------------------------------------------------------------ 4-mer tables
def expected_c4(s):
    s = s.lower()
    code = {"a": 0, "c": 1, "g": 2, "t": 3, "u": 3}
    t = Counter()
    for i in range(len(s) - 3):
        v = 0
        for ch in s[i:i + 4]:
            v = v * 4 + code.get(ch, 0)        # stated: every other symbol reads as 'a'
        t[v] += 1
    return dict(t)


def check_c4(c, o):
    if o["kind"] != "c4":
        return ["Count4Mer %s" % o["kind"]], None
    got = {a: b for a, b in o.get("table") or []}
    exp = expected_c4(c["s"])
    if got == exp:
        return [], None
    if any(v > 65535 for v in exp.values()) and got == {a: v % 65536 for a, v in exp.items() if v % 65536}:
        return [], "count4-uint16-wrap"
    bad = [x for x in set(got) | set(exp) if got.get(x, 0) != exp.get(x, 0)][:4]
    return ["4-mer counts differ: " + ", ".join("%s impl=%d expected=%d" % (dec(x, 4), got.get(x, 0), exp.get(x, 0)) for x in bad)], None


# ------------------------------------------------------------------ generators
def rand_seq(rng, n, alpha="acgt"):
    return "".join(rng.choice(alpha) for _ in range(n))


def sprinkle(rng, s, p, alpha=AMBIG, maxn=3):
    s = list(s)
    for _ in range(maxn):
        if s and rng.random() < p:
            s[rng.randrange(len(s))] = rng.choice(alpha)
    return "".join(s)


def mutate(rng, s):
    if not s:
        return s
    i = rng.randrange(len(s))
    r = rng.random()
    if r < 0.6:
        return s[:i] + rng.choice("acgt") + s[i + 1:]
    if r < 0.8:
        return s[:i] + s[i + 1:]
    return s[:i] + rng.choice("acgt") + s[i:]


CORPUS = [
    # defect witnesses first
    dict(kind="dbg", k=4, seqs=[dict(s="acgt", count=1)], tag="fixed:push-length-equal-k"),
    dict(kind="dbg", k=4, seqs=[dict(s="acgt", count=2), dict(s="cgta", count=3), dict(s="acgta", count=1)], tag="fixed:push-length-equal-k"),
    dict(kind="kmap", w=64, k=4, sparse=False, s="acgtgcatta", tag="fixed:forward-word-unmasked"),
    dict(kind="kmap", w=128, k=64, sparse=False, s="acgt" * 20, tag="fixed:mask-2k-equals-width"),
    dict(kind="kmap", w=64, k=32, sparse=False, s="acgtgcatta" * 5, tag="fixed:mask-2k-equals-width"),
    dict(kind="kmap", w=256, k=128, sparse=False, s="acgtgcattg" * 15, tag="fixed:mask-2k-equals-width"),
    dict(kind="c4", s="acg", tag="fixed:encode4mer-length-3"),
    dict(kind="dbg", k=2, seqs=[dict(s="nac", count=1)], tag="fixed:iupac-prefix-multiplicity"),
    dict(kind="dbg", k=2, seqs=[dict(s="acn", count=1)], tag="fixed:iupac-prefix-multiplicity"),
    dict(kind="dbg", k=2, seqs=[dict(s="nacn", count=1)], tag="fixed:iupac-prefix-multiplicity"),
    # boundary cases
    dict(kind="dbg", k=3, seqs=[]),
    dict(kind="dbg", k=3, seqs=[dict(s="ac", count=5)]),
    dict(kind="dbg", k=3, seqs=[dict(s="acgacg", count=1)]),                       # cycle
    dict(kind="dbg", k=2, seqs=[dict(s="aaaa", count=1)]),                          # self loop on node 0
    dict(kind="dbg", k=3, seqs=[dict(s="aaacgt", count=2), dict(s="aaccgt", count=3), dict(s="ccgtt", count=1)]),   # branch
    dict(kind="dbg", k=31, seqs=[dict(s="acgtgcattagcatcgatcgactagctacgatcgatcagctacgactagcatcgac", count=7)]),
    dict(kind="dbg", k=4, seqs=[dict(s="ACGTUACG", count=1)]),
    dict(kind="dbg", k=3, seqs=[dict(s="acgrtt", count=2), dict(s="acgatt", count=1)]),
    dict(kind="kmap", w=64, k=4, sparse=False, s="acg"),
    dict(kind="kmap", w=64, k=4, sparse=False, s="acgt"),
    dict(kind="kmap", w=64, k=4, sparse=False, s="acgtnacgta"),
    dict(kind="kmap", w=64, k=5, sparse=True, s="acgtgcatta"),
    dict(kind="kmap", w=64, k=4, sparse=True, s="acgtgcatta"),
    dict(kind="kmap", w=64, k=5, sparse=False, s="acgtgcatta"),
    dict(kind="kmap", w=128, k=63, sparse=True, s="acgtgcattagcatcgatcgactagctacgatcgatcagctacgactagcatcgacgatcgatcgatgcatgcatcgat"),
    dict(kind="c4", s=""),
    dict(kind="c4", s="ac"),
    dict(kind="c4", s="acgt"),
    dict(kind="c4", s="acgtacgtnnacguu"),
    dict(kind="c4", s="a" * 300),
]


def gen_dbg(rng, big=False):
    r = rng.random()
    if r < 0.1:
        k = rng.choice([2, 3, 30, 31])
    elif r < 0.75:
        k = rng.randrange(2, 8)
    else:
        k = rng.randrange(8, 32)
    nseq = rng.choice([1, 1, 2, 3, 4, 6]) if not big else rng.randrange(1, 12)
    shape = rng.random()
    L = rng.choice([k - 1, k, k, k + 1, k + 2, k + 5, 2 * k + 3, 3 * k + 7]) if rng.random() < 0.5 else rng.randrange(max(1, k - 1), k + (60 if big else 30))
    L = max(1, L)
    base = rand_seq(rng, L, "acgt" if rng.random() < 0.8 else "ac")
    if shape < 0.25 and L >= 2 * k:
        # repeat creating a cycle or a branch
        i = rng.randrange(0, L - k + 1)
        j = rng.randrange(0, L)
        rep = base[i:i + rng.choice([k - 1, k, k + 1])]
        base = base[:j] + rep + base[j:]
    seqs = []
    namb = 0
    for _ in range(nseq):
        s = base
        for _ in range(rng.choice([0, 0, 1, 1, 2, 3])):
            s = mutate(rng, s)
        if rng.random() < 0.25:
            a = rng.randrange(0, max(1, len(s) // 2))
            s = s[a:a + rng.choice([k - 1, k, k + 1, len(s)])]
        if rng.random() < 0.15 and namb < 2:
            # ambiguity codes multiply the nodes (and the run time of Push) by up to 4 each: at most two ambiguous sequences per set
            namb += 1
            s = sprinkle(rng, s, 0.8, alpha="ryswkm" * 3 + "bdhvn", maxn=rng.choice([1, 1, 2]))
        if rng.random() < 0.05:
            s = s.upper()
        if rng.random() < 0.05:
            s = s.replace("t", "u", 1)
        seqs.append(dict(s=s, count=rng.choice([1, 1, 1, 2, 3, 7, 100, 12345])))
    if nseq == 1 and rng.random() < 0.5:
        seqs[0]["count"] = 1
    return dict(kind="dbg", k=k, seqs=seqs)


def gen_kmap(rng):
    w = rng.choice([64, 64, 128, 128, 256])
    sparse = rng.random() < 0.4
    kmax = w // 2
    r = rng.random()
    if r < 0.25:
        k = rng.choice([kmax, kmax - 1, kmax - 2, 2, 3, 4])
    elif r < 0.7:
        k = rng.randrange(2, min(kmax, 16) + 1)
    else:
        k = rng.randrange(2, kmax + 1)
    ke = eff_k(k, sparse)
    if 2 * ke > w:
        k -= 2
        ke = eff_k(k, sparse)
    L = rng.choice([ke - 1, ke, ke + 1, ke + 2, 2 * ke, 2 * ke + 1, w // 2, w // 2 + 1, w // 2 + ke]) if rng.random() < 0.5 else rng.randrange(max(0, ke - 2), ke + 80)
    s = rand_seq(rng, max(0, L), rng.choice(["acgt", "acgt", "acgt", "at", "ac", "gt"]))
    if rng.random() < 0.15 and len(s) > 2:
        # palindromic stretch: k-mer = its reverse complement
        h = s[:len(s) // 2]
        s = h + rc(h)
    if rng.random() < 0.3:
        s = sprinkle(rng, s, 0.8, AMBIG + "u", maxn=rng.choice([1, 2, 4]))
    if rng.random() < 0.05:
        s = s.upper()
    return dict(kind="kmap", w=w, k=k, sparse=sparse, s=s)


def gen_c4(rng):
    L = rng.choice([0, 1, 2, 3, 4, 5, 6, 7, 8]) if rng.random() < 0.3 else rng.randrange(4, 400)
    s = rand_seq(rng, L, rng.choice(["acgt", "acgt", "ac", "a", "acgtu"]))
    if rng.random() < 0.3:
        s = sprinkle(rng, s, 0.8, AMBIG, maxn=3)
    if rng.random() < 0.1:
        s = s.upper()
    return dict(kind="c4", s=s, reuse=rng.random() < 0.5)


def gen_cons(rng):
    """reads shaped like an obiconsensus cluster: one amplicon (60-140 bp, no long repeat most of the time), 3-25 reads with
    0-3 errors each (substitutions mostly; errors near the 3' end make bubbles that close just before the sink), counts as written
    by obiuniq in the count attribute; the k-mer size is left to the tool (-1)"""
    L = rng.randrange(30, 140)
    base = rand_seq(rng, L)
    if rng.random() < 0.15:
        i = rng.randrange(0, L - 8)
        base = base[:i] + base[i:i + rng.randrange(4, 9)] * 2 + base[i:]          # tandem repeat: the tool has to raise k
    seqs = [dict(s=base, count=rng.choice([3, 10, 57, 1000, 12345]))]
    for _ in range(rng.randrange(2, 25)):
        t = base
        for _ in range(rng.choice([0, 1, 1, 1, 2, 3])):
            if rng.random() < 0.5:
                i = rng.randrange(max(0, len(t) - 25), len(t))
                t = t[:i] + rng.choice("acgt") + t[i + 1:]
            else:
                t = mutate(rng, t)
        if rng.random() < 0.1:
            t = t[:rng.randrange(len(t) // 2, len(t) + 1)]
        if rng.random() < 0.04:
            t = sprinkle(rng, t, 1.0, alpha="ryswkmn", maxn=1)
        if len(t) >= 12:
            seqs.append(dict(s=t, count=rng.choice([1, 1, 1, 1, 2, 3, 5, 20])))
    return dict(kind="cons", seqs=seqs)


def gen_ksim(rng):
    """obikmersim / obikmermatch: Uint128 index, k = 30 by default (or -k), dense or --sparse; related references and a query"""
    sparse = rng.random() < 0.3
    k = rng.choice([30, 30, 30, 31, 16, 20, 33, 34, 40, 48, 63, 64, 8, 12])
    if 2 * eff_k(k, sparse) > 128:
        k -= 2                                     # -k 64 --sparse would be a 65-mer: does not fit Uint128
    L = rng.randrange(max(20, eff_k(k, sparse)), 220)
    base = rand_seq(rng, L)
    refs = []
    for _ in range(rng.randrange(1, 6)):
        t = base
        for _ in range(rng.choice([0, 1, 2, 4])):
            t = mutate(rng, t)
        if rng.random() < 0.3:
            t = rc(t)
        if rng.random() < 0.1:
            t = sprinkle(rng, t, 1.0, maxn=2)
        refs.append(t)
    if rng.random() < 0.2:
        refs.append(rand_seq(rng, rng.randrange(10, 100)))
    q = base
    for _ in range(rng.choice([0, 0, 1, 2])):
        q = mutate(rng, q)
    if rng.random() < 0.15:
        q = q[:len(q) // 2] + rc(q[:len(q) // 2])
    return dict(kind="ksim", w=128, k=k, sparse=sparse, refs=refs, s=q)


def gen_cases(ctx, n):
    rng = ctx.rng
    cases = [dict(c) for c in CORPUS]
    for _ in range(n):
        cases.append(gen_dbg(rng))
    for _ in range(n):
        cases.append(gen_kmap(rng))
    for _ in range(max(10, n // 6)):
        cases.append(gen_ksim(rng))
    for _ in range(max(20, n // 4)):
        cases.append(gen_c4(rng))
    return cases


def strip(c):
    return {k: v for k, v in c.items() if k not in ("tag", "expect_cons")}


# ------------------------------------------------------------------ Coq rendering
def nlist(l):
    return "[" + ";".join(str(x) for x in l) + "]"


def seq_term(s):
    return nlist(s.lower().encode())


def old_term(c, o):
    """round-1 comparison: weights, heads and - graphs up to FULL_NODES - verdict and weight of the path against the SPECIFICATION"""
    seqs = "[" + ";".join("(%s,%d)" % (seq_term(q["s"]), q["count"]) for q in c["seqs"]) + "]"
    nodes = "[" + ";".join("(%s,%d)" % (n["kmer"], n["w"]) for n in o.get("nodes") or []) + "]"
    heads = nlist(o.get("heads") or [])
    if o["pathnil"] or o["pathpanic"] or not o.get("path"):
        pw = "None"
    else:
        wt = {n["kmer"]: n["w"] for n in o["nodes"]}
        pw = "(Some %d)" % sum(wt.get(x, 0) for x in o["path"])
    full = len(o.get("nodes") or []) <= FULL_NODES
    return "CDbg %d %s %s %s %s %s %s" % (c["k"], seqs, nodes, heads, "true" if full else "false", "true" if o["hascycle"] else "false", pw)


def case_term(c, o, o_rc=None):
    if c["kind"] == "dbg":
        seqs = "[" + ";".join("(%s,%d)" % (seq_term(q["s"]), q["count"]) for q in c["seqs"]) + "]"
        old = old_term(c, o)
        algo = len(o.get("nodes") or []) <= ALGO_NODES and not o.get("pathskipped")
        if o["pathpanic"]:
            path = "PPanic"
        elif o["pathnil"]:
            path = "PNil"
        else:
            path = "(PSome %s)" % nlist(o.get("path") or [])
        cons = "None" if o["conserr"] else "(Some %s)" % nlist(o["consensus"].encode())
        return "C2Dbg (%s) %d %s %s %s %s %s %s" % (old, c["k"], seqs, "true" if algo else "false", "true" if o["hascycle"] else "false",
                                                   path, nlist((o.get("decoded") or "").encode()), cons)
    if c["kind"] == "kmap":
        def ob(x):
            if x["kind"] != "kmap":
                return "None"
            return "(Some %s)" % nlist(sorted(obs_vals(x)))
        return "C2Old (CKmap %d %d %s %s %s %s)" % (c["w"], c["k"], "true" if c["sparse"] else "false", seq_term(c["s"]), ob(o), ob(o_rc))
    if c["kind"] == "c4":
        if o["kind"] != "c4":
            return "C2Old (CC4 %s None)" % seq_term(c["s"])
        return "C2Old (CC4 %s (Some %s))" % (seq_term(c["s"]), "[" + ";".join("(%d,%d)" % (a, b) for a, b in o.get("table") or []) + "]")
    raise ValueError(c["kind"])


IMPORTS = "From Coq Require Import NArith List Bool. Import ListNotations. Open Scope N_scope.\nFrom OBI.C19 Require Import Model Algo Corr."

KNOWN_TEXT = {
    "count4-uint16-wrap": "Count4Mer tables are uint16: a 4-mer occurring more than 65535 times in one sequence wraps (poly-a of 65539 bases counts 0)",
}


def evaluate(ctx, cases, broken, label, corr=True):
    # run s and rc(s) for the index cases
    flat, where = [], []
    for c in cases:
        where.append(len(flat))
        flat.append(strip(c))
        if c["kind"] == "kmap":
            flat.append(dict(strip(c), s=rc(c["s"].lower())))
    obs_flat = ctx.vh_robust("c19", flat, timeout=600, one_timeout=30)
    obs = [(obs_flat[i], obs_flat[i + 1] if cases[j]["kind"] == "kmap" else None) for j, i in enumerate(where)]
    nviol = 0
    oracle_bad = set()
    for i, (c, (o, o2)) in enumerate(zip(cases, obs)):
        key = None
        if o["kind"] == "crash" or (o2 and o2["kind"] == "crash"):
            fails = ["harness process crashed or hung"]
        elif c["kind"] == "dbg":
            fails, key = check_dbg(c, o)
        elif c["kind"] == "kmap":
            fails = check_kmap(c, o, o2)
        elif c["kind"] == "ksim":
            fails = check_ksim(c, o)
        else:
            fails, key = check_c4(c, o)
        if key:
            if ctx.kf_match(key):
                ctx.known(key, KNOWN_TEXT[key])
            else:
                fails = fails + [KNOWN_TEXT[key]]
        if fails:
            nviol += 1
            oracle_bad.add(i)
            if nviol <= 4:
                ctx.violation("%s_oracle_%d" % (label, i), dict(property="C19", kind="direct-oracle", case={k: v for k, v in c.items() if k != "tag"}, failures=fails,
                                                              implementation=o, implementation_rc=o2))
    mism = []
    if corr:
        # (the 65 kb witness of the uint16 wrap is checked by the oracle only: its literal overflows coqc's stack)
        idx = [i for i, (o, o2) in enumerate(obs) if o["kind"] != "crash" and not (o2 and o2["kind"] == "crash")
               and len(cases[i].get("s", "")) <= 5000 and cases[i]["kind"] != "ksim"]
        terms, owner = [], []
        for i in idx:
            terms.append(case_term(cases[i], *obs[i]))
            owner.append(i)
            o = obs[i][0]
            if cases[i]["kind"] == "kmap" and o["kind"] == "kmap" and o.get("strs") and 2 * eff_k(cases[i]["k"], cases[i]["sparse"]) <= cases[i]["w"]:
                # KmerAsString of the keys (at most 12 per case: first, last and a spread)
                pairs = list(zip(obs_vals(o), o["strs"]))
                step = max(1, len(pairs) // 10)
                pairs = pairs[::step] + pairs[-1:]
                terms.append("C2Kstr %d %d %s [%s]" % (cases[i]["w"], cases[i]["k"], "true" if cases[i]["sparse"] else "false",
                                                      ";".join("(%d,%s)" % (v, nlist(st.encode())) for v, st in pairs)))
                owner.append(i)
        bad, err = ctx.correspond(label, IMPORTS, terms, fn="mismatches2", shard=25 if len(terms) < 2000 else 150)
        if bad is None:
            broken.append(dict(kind="correspondence", detail=err))
        else:
            mism = sorted({owner[i] for i in bad})
            # the property allows ANY walk of maximal weight: a graph case whose path differs from the transcription of the
            # algorithm but agrees on everything the statement speaks of (weights, heads, verdict, validity and total weight of
            # the path - second pass with the round-1 comparison, plus the direct oracle above) is a tie-break difference, not an alarm
            redo = [i for i in mism if cases[i]["kind"] == "dbg"]
            if redo:
                weak = ["C2Old (%s)" % old_term(cases[i], obs[i][0]) for i in redo]
                bad2, err2 = ctx.correspond(label + "_weak", IMPORTS, weak, fn="mismatches2", shard=25)
                if bad2 is not None:
                    still = {redo[j] for j in bad2}
                    ties = [i for i in redo if i not in still and i not in oracle_bad]
                    if ties:
                        ctx.cov["path_differs_from_transcription_same_weight"] = ctx.cov.get("path_differs_from_transcription_same_weight", 0) + len(ties)
                    mism = [i for i in mism if i not in ties]
    return obs, mism, nviol


def nontrivial(c):
    if c["kind"] == "dbg":
        return any(len(q["s"]) >= c["k"] for q in c["seqs"])
    if c["kind"] in ("kmap", "ksim"):
        return len(c["s"]) > eff_k(c["k"], c["sparse"])
    return len(c["s"]) >= 4


def run(ctx, broken):
    t = getattr(ctx, "_c19_tables", None) or dump_tables(ctx)
    replay_tables(ctx, t)
    ctx.cov["regenerated_tables"] = "iupac %d letters, revcompnuc %d, decode %d, __single_base_code__ %d entries; %d table obligations failing" % (
        len(t["iupac"]), len(t["revcomp"]), len(t["decode"]), len(t["single"]), len(table_failures(t)))
    n = 220 if ctx.quick else 2500
    cases = gen_cases(ctx, n)
    if not ctx.quick:
        cases.append(dict(kind="c4", s="a" * 65539, tag="known:count4-uint16-wrap"))
        # exhaustive small scope: every sequence over {a,c,g,t} of length 1..6 (dense k=2, sparse k=3, graph k=2 and k=3)
        nex = 0
        for L in range(1, 7):
            for t in itertools.product("acgt", repeat=L):
                s = "".join(t)
                cases.append(dict(kind="kmap", w=64, k=2, sparse=False, s=s))
                cases.append(dict(kind="kmap", w=64, k=3, sparse=True, s=s))
                cases.append(dict(kind="dbg", k=2 + (nex % 2), seqs=[dict(s=s, count=1 + nex % 3)]))
                nex += 1
        ctx.cov["exhaustive"] = True
        ctx.cov["exhaustive_scope"] = "all %d sequences over {a,c,g,t} of length 1..6: index dense k=2 and sparse k=3 on both strands, graph of the single sequence k=2/3" % nex
    # obiconsensus call path: the tool estimates k (longest repeat inside a read + 1, raised while HasCycle), counts come from the
    # count attribute; the reads then go through the graph checks (oracle + Coq model of the algorithms) at the k the tool chose
    cons = [gen_cons(ctx.rng) for _ in range(40 if ctx.quick else 500)]
    obs_c = ctx.vh_robust("c19", cons, timeout=900, one_timeout=60)
    tool = Counter()
    for i, (c, o) in enumerate(zip(cons, obs_c)):
        if o["kind"] != "cons":
            tool["crash"] += 1
            if tool["crash"] <= 2:
                ctx.violation("cons_crash_%d" % i, dict(property="C19", kind="direct-oracle", case=c, failures=["obiconsensus.BuildConsensus crashed or hung"], implementation=o))
            continue
        if o["conserr"]:
            tool["no consensus (%s)" % o.get("err", "")] += 1
            continue
        k = o["consk"]
        # the k chosen by the tool: the smallest k >= (longest repeat inside one read) + 1 whose graph is acyclic
        k0 = 1 + max(longest_repeat(q["s"].lower()) for q in c["seqs"])
        kk = k0
        while kk < 64 and has_cycle(graph_of(set(expected_weights(kk, c["seqs"], "prefix")), kk)):
            kk += 1
        if kk != k:
            tool["k differs from the smallest acyclic k"] += 1
        if kk != k and tool["k differs from the smallest acyclic k"] <= 3:
            ctx.violation("cons_k_%d" % i, dict(property="C19", kind="direct-oracle", case=c, implementation=o,
                                               failures=["BuildConsensus stopped at k=%d, the smallest acyclic k >= %d is %d" % (k, k0, kk)]))
        if not 2 <= k <= 31:
            tool["k outside 2..31"] += 1
            continue
        tool["k=%d%s" % (k, "" if k == k0 else " (raised from %d)" % k0)] += 1
        cases.append(dict(kind="dbg", k=k, seqs=c["seqs"], expect_cons=dict(consensus=o["consensus"], consgraph=o["consgraph"],
                                                                           consmaxw=o["consmaxw"], consw=o["consw"])))
    ctx.cov["obiconsensus_call_path"] = dict(tool)
    obs, mism, nviol = evaluate(ctx, cases, broken, "main")
    ctx.cov["evaluations"] = len(cases) + sum(1 for c in cases if c["kind"] == "kmap")
    ctx.cov["distinct_nontrivial"] = len({json.dumps(strip(c), sort_keys=True) for c in cases if nontrivial(c)})
    ctx.cov["rule"] = ("non-trivial = graph case with a sequence of length >= k / index case with a sequence longer than the effective k / "
                       "4-mer case of length >= 4; distinct = distinct JSON case")
    dist = Counter()
    for c, (o, o2) in zip(cases, obs):
        if c["kind"] == "dbg":
            kind = "empty" if not o.get("nodes") else "cycle" if o.get("hascycle") else "acyclic"
            amb = "iupac" if any(ch in AMBIG for q in c["seqs"] for ch in q["s"].lower()) else "acgt"
            dist["dbg%s/k%s/%s/%s" % ("(obiconsensus)" if "expect_cons" in c else "", "<8" if c["k"] < 8 else "8-31", kind, amb)] += 1
        elif c["kind"] == "ksim":
            dist["ksim/k%d/%s" % (c["k"], "sparse" if c["sparse"] else "dense")] += 1
        elif c["kind"] == "kmap":
            dist["kmap/%d/%s/%s" % (c["w"], "sparse" if c["sparse"] else "dense", "2k=w" if 2 * eff_k(c["k"], c["sparse"]) == c["w"] else "2k<w")] += 1
        else:
            dist["c4/len%s" % ("<4" if len(c["s"]) < 4 else ">=4")] += 1
    ctx.cov["distribution"] = dict(dist)
    ctx.samples = [dict(case=strip(c), implementation=o) for c, (o, o2) in list(zip(cases, obs))[:2] + list(zip(cases, obs))[-2:]]
    ctx.cov["model_vs_impl_mismatches"] = len(mism)
    if mism and not ctx.violations:
        more = gen_cases(ctx, 3000)
        evaluate(ctx, more, [], "search", corr=False)
        if not ctx.violations:
            i = mism[0]
            broken.append(dict(kind="correspondence", name="corr:C19/%s" % cases[i]["kind"], first_diverging_case=strip(cases[i]),
                               implementation=obs[i][0], n_diverging=len(mism)))
    elif mism:
        ctx.cov["note"] = "model and implementation diverge on %d cases (violations reported by the direct oracle)" % len(mism)


def replay(ctx, rp):
    if rp.get("kind") == "table-obligation":
        bad = table_failures(dump_tables(ctx))
        print("replay: obikmer tables of the current build, symbol %r:" % rp.get("symbol"),
              [w for w, s in bad if s == rp.get("symbol")] or "obligations hold", "| all failing symbols:", sorted({s for _, s in bad}))
    c = rp["case"]
    obs, mism, nviol = evaluate(ctx, [c], [], "replay")
    print("replay:", json.dumps(c), "->", json.dumps(obs[0][0])[:600], "| oracle:", "VIOLATION" if ctx.violations else "ok",
          "| model:", "mismatch" if mism else "agrees")
