"""C19 — exact De Bruijn weights and heaviest path; strand-invariant canonical k-mers; exact 4-mer tables (pkg/obikmer)."""
import itertools, json
from collections import Counter

PROPS = ["C19/Props.v"]
META = dict(
    text="Rocq theorems over an executable transcription of pkg/obikmer (k-mer words as N, `mod 4^k` exactly where the code masks): "
         "(1) KmerMap.NormalizedKmerSlice, as repaired, returns for every window of k unambiguous bases min(k-mer, reverse-complement k-mer) "
         "(centre base dropped in sparse mode: proved), and a sequence and its reverse complement give the same multiset of keys, for every "
         "word width and every k that fits (2k <= width, mask proved exact incl. 2k = width); (2) DeBruijnGraph.Push accumulates for every "
         "k-mer the sum of count x occurrences (lengths <, = and > k; k = 1..31) for sequences over acgtu, and an exact characterisation for "
         "IUPAC sequences; (3) the specification of the heaviest walk is the maximum total weight over all walks from a source node, "
         "has_cycle holds exactly when a closed walk exists and then no walk is returned; (4) Count4Mer counts exactly the 4-mer windows "
         "(modulo 2^16). On every run the real MakeDeBruijnGraph/Push/Weight/Nexts/Heads/HasCycle/HaviestPath/DecodePath/LongestConsensus, "
         "NewKmerMap/NormalizedKmerSlice/KmerAsString (Uint64/128/256, k up to 128, sparse and dense, both strands) and Count4Mer run on "
         "boundary-biased and random cases against a direct Python oracle (brute-force counting, DP + enumeration of all walks), and the Coq "
         "model is evaluated by vm_compute on the same cases (weights, heads, cycle verdict, heaviest-walk weight, key lists, tables).",
    note="Trusted: Coq kernel + vm_compute; harness, generators and the Python oracle; obifp words modelled as N modulo 2^width (C20 proves "
         "the obifp operations exact); Go map order abstracted (nodes compared as key-sorted lists). Partial: the Go algorithms HasCycle (DFS) "
         "and HaviestPath (label-correcting search with a heap) are NOT modelled - they are tied to the proved specification on every run by "
         "comparing the cycle verdict, the validity of the returned path and its total weight with the model's optimum (graphs up to 45 nodes "
         "inside Coq, all sizes in the Python oracle). 'Single sequence returned unchanged' and DecodePath are checked by the oracle only; the "
         "precise condition is 'no repeated (k-1)-mer' (a repeated (k-1)-mer closes a cycle even when all k-mers are distinct). Guards: counts "
         ">= 1, non-empty graph for HaviestPath (LongestConsensus guards it), 2k <= width. Known findings: IUPAC prefix multiplicity of the "
         "weights; uint16 wrap of Count4Mer beyond 65535 occurrences.")
TRUSTED = ["obifp Uint64/128/256 LeftShift/RightShift/And/Or/LessThan are modelled by their exact meaning on N modulo 2^width (property C20)",
           "Go map iteration order is abstracted: graph nodes are compared as a key-sorted association list"]

IUPAC = dict(a="a", c="c", g="g", t="t", u="t", r="ag", y="ct", s="cg", w="at", k="gt", m="ac", b="cgt", d="agt", h="act", v="acg", n="acgt")
COMP = dict(a="t", c="g", g="c", t="a", u="a", r="y", y="r", s="s", w="w", k="m", m="k", b="v", d="h", h="d", v="b", n="n")
CODE = dict(a=0, c=1, g=2, t=3)
AMBIG = "ryswkmbdhvn"
FULL_NODES = 45      # graphs up to this size are also compared on has_cycle / heaviest-walk weight inside Coq


def rc(s):
    return "".join(COMP[c] for c in reversed(s))


def enc(w):
    v = 0
    for c in w:
        v = v * 4 + CODE[c]
    return v


def dec(v, k):
    return "".join("acgt"[(v >> (2 * (k - 1 - i))) & 3] for i in range(k))


# ------------------------------------------------------------------ De Bruijn oracle
def nexp(s):
    n = 1
    for c in s:
        n *= len(IUPAC[c])
    return n


def window_words(w):
    return [enc("".join(p)) for p in itertools.product(*[IUPAC[c] for c in w])]


def expected_weights(k, seqs, reading):
    """reading 'full': sum over sequences of count x sum over the full IUPAC expansions e of s of occ(x, e)
       reading 'prefix': what the recursion of Push/append does: a window is counted once per expansion of the bases BEFORE its end
       (both coincide with count x occurrences on unambiguous sequences)."""
    wt = Counter()
    for q in seqs:
        s, cnt = q["s"].lower(), q["count"]
        if len(s) < k:
            continue
        tot = nexp(s)
        for j in range(len(s) - k + 1):
            win = s[j:j + k]
            mult = tot // nexp(win) if reading == "full" else nexp(s[:j])
            for x in window_words(win):
                wt[x] += cnt * mult
    return dict(wt)


def graph_of(nodes, k):
    mask = (1 << (2 * k)) - 1
    return {x: [((x << 2) & mask) | b for b in range(4) if (((x << 2) & mask) | b) in nodes] for x in nodes}


def has_cycle(adj):
    color = {}
    for r in adj:
        if r in color:
            continue
        stack = [(r, iter(adj[r]))]
        color[r] = 1
        while stack:
            x, it = stack[-1]
            for y in it:
                if color.get(y) == 1:
                    return True
                if y not in color:
                    color[y] = 1
                    stack.append((y, iter(adj[y])))
                    break
            else:
                color[x] = 2
                stack.pop()
    return False


def best_weight(adj, wt, heads):
    """maximum total weight of a walk starting at a source node (acyclic graph): memoised DP"""
    memo = {}

    def best(x):
        if x not in memo:
            memo[x] = wt[x] + max([best(y) for y in adj[x]] + [0])
        return memo[x]
    import sys
    sys.setrecursionlimit(100000)
    return max([best(h) for h in heads] + [0])


def brute_best(adj, wt, heads, limit=20000):
    """enumeration of ALL walks from the sources (small acyclic graphs only): independent of the DP"""
    best, n = 0, 0
    stack = [(h, wt[h]) for h in heads]
    while stack:
        x, w = stack.pop()
        n += 1
        if n > limit:
            return None
        best = max(best, w)
        for y in adj[x]:
            stack.append((y, w + wt[y]))
    return best


def check_dbg(c, o):
    """returns (list of failure strings, known-finding key or None)"""
    k = c["k"]
    fails = []
    if o["kind"] != "dbg":
        return ["harness observation %s" % o["kind"]], None
    if o.get("err"):
        fails.append(o["err"])
    obs_w = {int(n["kmer"]): n["w"] for n in o.get("nodes") or []}
    key = None
    ambiguous = any(ch in AMBIG for q in c["seqs"] for ch in q["s"].lower())
    full = expected_weights(k, c["seqs"], "full")
    if obs_w != full:
        if ambiguous and obs_w == expected_weights(k, c["seqs"], "prefix") and set(obs_w) == set(full):
            key = "iupac-prefix-multiplicity"
        else:
            bad = sorted(set(x for x in set(obs_w) | set(full) if obs_w.get(x, 0) != full.get(x, 0)))[:5]
            fails.append("weights differ from sum(count x occurrences): " + ", ".join("%s impl=%d expected=%d" % (dec(x, k), obs_w.get(x, 0), full.get(x, 0)) for x in bad))
    # structure as the implementation reports it
    adj = graph_of(set(obs_w), k)
    for n in o.get("nodes") or []:
        x = int(n["kmer"])
        if sorted(int(y) for y in n["nexts"]) != sorted(adj[x]):
            fails.append("Nexts(%s) = %s, expected %s" % (dec(x, k), n["nexts"], adj[x]))
        if n["label"] != dec(x, k):
            fails.append("DecodeNode(%d) = %s" % (x, n["label"]))
    preds = {y for x in adj for y in adj[x]}
    heads = sorted(x for x in adj if x not in preds)
    if [int(h) for h in o.get("heads") or []] != heads:
        fails.append("Heads = %s, expected %s" % (o.get("heads"), heads))
    cyc = has_cycle(adj)
    if o["hascycle"] != cyc:
        fails.append("HasCycle = %s, expected %s" % (o["hascycle"], cyc))
    # a single unambiguous sequence: the graph is acyclic exactly when no (k-1)-mer is repeated
    # (then the sequence must come back unchanged, checked below); a repeated (k-1)-mer closes a cycle
    if len(c["seqs"]) == 1:
        s1 = c["seqs"][0]["s"].lower().replace("u", "t")
        if not any(ch in AMBIG for ch in s1) and len(s1) >= k:
            sub = [s1[i:i + k - 1] for i in range(len(s1) - k + 2)]
            if (len(set(sub)) != len(sub)) != cyc:
                fails.append("single sequence: repeated (k-1)-mer = %s but HasCycle = %s" % (len(set(sub)) != len(sub), cyc))
    if not obs_w:
        if not o["conserr"]:
            fails.append("consensus returned for an empty graph")
        return fails, key        # HaviestPath on an empty graph: outside the statement (LongestConsensus guards it)
    if cyc:
        if not o["pathnil"] or o["pathpanic"]:
            fails.append("graph has a cycle but a path is returned")
        if not o["conserr"]:
            fails.append("graph has a cycle but a consensus is returned")
        return fails, key
    if o["pathnil"] or o["pathpanic"] or not o.get("path"):
        fails.append("acyclic non-empty graph but no path returned")
        return fails, key
    path = [int(x) for x in o["path"]]
    if path[0] not in heads:
        fails.append("path does not start at a source node")
    for a, b in zip(path, path[1:]):
        if a not in adj or b not in adj[a]:
            fails.append("path step %s -> %s is not an edge" % (dec(a, k), dec(b, k)))
            return fails, key
    if any(x not in obs_w for x in path):
        fails.append("path leaves the graph")
        return fails, key
    pw = sum(obs_w[x] for x in path)
    bw = best_weight(adj, obs_w, heads)
    if pw != bw:
        fails.append("path weight %d, heaviest walk from a source weighs %d" % (pw, bw))
    if len(adj) <= 14:
        bb = brute_best(adj, obs_w, heads)
        if bb is not None and bb != pw:
            fails.append("path weight %d, enumeration of all walks gives %d" % (pw, bb))
    spelled = dec(path[0], k) + "".join("acgt"[x & 3] for x in path[1:])
    if o["decoded"] != spelled:
        fails.append("DecodePath = %s, path spells %s" % (o["decoded"], spelled))
    if o["conserr"] or o["consensus"] != spelled:
        fails.append("LongestConsensus = %r, path spells %s" % (o["consensus"], spelled))
    if len(c["seqs"]) == 1:
        s = c["seqs"][0]["s"].lower()
        if not any(ch in AMBIG for ch in s) and len(s) >= k:
            t = s.replace("u", "t")
            # acyclic here, hence no repeated (k-1)-mer and no repeated k-mer
            if o["consensus"] != t:
                fails.append("single sequence without repeated k-mer is not returned unchanged: %r" % o["consensus"])
    return fails, key


# ------------------------------------------------------------------ canonical k-mers oracle
def eff_k(k, sparse):
    if sparse and k % 2 == 0:
        k += 1
    if not sparse and k % 2 == 1:
        k -= 1
    return k


def expected_canon(k, sparse, s):
    """list of (value, string) of the canonical k-mers of the unambiguous windows of s (k already effective)"""
    s = s.lower()
    res = []
    mid = k // 2
    for i in range(len(s) - k + 1):
        w = s[i:i + k]
        if any(ch in AMBIG for ch in w):
            continue
        w = w.replace("u", "t")
        r = rc(w)
        if sparse:
            a, b = w[:mid] + w[mid + 1:], r[:mid] + r[mid + 1:]
        else:
            a, b = w, r
        m = min(a, b)          # 'a' < 'c' < 'g' < 't' : string order = numeric order of the 2-bit encoding
        res.append((enc(m), (m[:mid] + "#" + m[mid:]) if sparse else m))
    return res


def obs_vals(o):
    return [sum(int(x) << (64 * i) for i, x in enumerate(l)) for l in o.get("kmers") or []]


def check_kmap(c, o, o_rc):
    fails = []
    k = eff_k(c["k"], c["sparse"])
    if 2 * k > c["w"] or k < 1:
        return fails          # outside the quantifier (k-mer does not fit the word)
    for tag, s, ob in (("s", c["s"], o), ("rc(s)", rc(c["s"].lower()), o_rc)):
        if ob["kind"] != "kmap":
            fails.append("%s: NewKmerMap/NormalizedKmerSlice %s" % (tag, ob["kind"]))
            continue
        if ob["kmersize"] != k or (ob["sparseat"] >= 0) != c["sparse"]:
            fails.append("%s: effective k = %d sparseAt = %d" % (tag, ob["kmersize"], ob["sparseat"]))
            continue
        exp = expected_canon(k, c["sparse"], s)
        got = list(zip(obs_vals(ob), ob.get("strs") or []))
        if sorted(got) != sorted(exp):
            diff = [g for g in got if g not in exp][:3]
            fails.append("%s: canonical k-mers differ from min(k-mer, rc k-mer): %d/%d keys wrong, e.g. %s" % (
                tag, len([g for g in got if g not in exp]) + abs(len(got) - len(exp)), len(exp), diff))
    if o["kind"] == "kmap" and o_rc["kind"] == "kmap":
        a, b = Counter(obs_vals(o)), Counter(obs_vals(o_rc))
        if a != b:
            fails.append("strand dependence: the two strands share %d of %d keys" % (sum((a & b).values()), sum(a.values())))
    return fails


# ------------------------------------------------------------------ 4-mer tables
def expected_c4(s):
    s = s.lower()
    code = {"a": 0, "c": 1, "g": 2, "t": 3, "u": 3}
    t = Counter()
    for i in range(len(s) - 3):
        v = 0
        for ch in s[i:i + 4]:
            v = v * 4 + code.get(ch, 0)        # stated: every other symbol reads as 'a'
        t[v] += 1
    return dict(t)


def check_c4(c, o):
    if o["kind"] != "c4":
        return ["Count4Mer %s" % o["kind"]], None
    got = {a: b for a, b in o.get("table") or []}
    exp = expected_c4(c["s"])
    if got == exp:
        return [], None
    if any(v > 65535 for v in exp.values()) and got == {a: v % 65536 for a, v in exp.items() if v % 65536}:
        return [], "count4-uint16-wrap"
    bad = [x for x in set(got) | set(exp) if got.get(x, 0) != exp.get(x, 0)][:4]
    return ["4-mer counts differ: " + ", ".join("%s impl=%d expected=%d" % (dec(x, 4), got.get(x, 0), exp.get(x, 0)) for x in bad)], None


# ------------------------------------------------------------------ generators
def rand_seq(rng, n, alpha="acgt"):
    return "".join(rng.choice(alpha) for _ in range(n))


def sprinkle(rng, s, p, alpha=AMBIG, maxn=3):
    s = list(s)
    for _ in range(maxn):
        if s and rng.random() < p:
            s[rng.randrange(len(s))] = rng.choice(alpha)
    return "".join(s)


def mutate(rng, s):
    if not s:
        return s
    i = rng.randrange(len(s))
    r = rng.random()
    if r < 0.6:
        return s[:i] + rng.choice("acgt") + s[i + 1:]
    if r < 0.8:
        return s[:i] + s[i + 1:]
    return s[:i] + rng.choice("acgt") + s[i:]


CORPUS = [
    # defect witnesses first
    dict(kind="dbg", k=4, seqs=[dict(s="acgt", count=1)], tag="fixed:push-length-equal-k"),
    dict(kind="dbg", k=4, seqs=[dict(s="acgt", count=2), dict(s="cgta", count=3), dict(s="acgta", count=1)], tag="fixed:push-length-equal-k"),
    dict(kind="kmap", w=64, k=4, sparse=False, s="acgtgcatta", tag="fixed:forward-word-unmasked"),
    dict(kind="kmap", w=128, k=64, sparse=False, s="acgt" * 20, tag="fixed:mask-2k-equals-width"),
    dict(kind="kmap", w=64, k=32, sparse=False, s="acgtgcatta" * 5, tag="fixed:mask-2k-equals-width"),
    dict(kind="kmap", w=256, k=128, sparse=False, s="acgtgcattg" * 15, tag="fixed:mask-2k-equals-width"),
    dict(kind="c4", s="acg", tag="fixed:encode4mer-length-3"),
    dict(kind="dbg", k=2, seqs=[dict(s="nac", count=1)], tag="known:iupac-prefix-multiplicity"),
    dict(kind="dbg", k=2, seqs=[dict(s="acn", count=1)], tag="known:iupac-prefix-multiplicity"),
    dict(kind="dbg", k=2, seqs=[dict(s="nacn", count=1)], tag="known:iupac-prefix-multiplicity"),
    # boundary cases
    dict(kind="dbg", k=3, seqs=[]),
    dict(kind="dbg", k=3, seqs=[dict(s="ac", count=5)]),
    dict(kind="dbg", k=3, seqs=[dict(s="acgacg", count=1)]),                       # cycle
    dict(kind="dbg", k=2, seqs=[dict(s="aaaa", count=1)]),                          # self loop on node 0
    dict(kind="dbg", k=3, seqs=[dict(s="aaacgt", count=2), dict(s="aaccgt", count=3), dict(s="ccgtt", count=1)]),   # branch
    dict(kind="dbg", k=31, seqs=[dict(s="acgtgcattagcatcgatcgactagctacgatcgatcagctacgactagcatcgac", count=7)]),
    dict(kind="dbg", k=4, seqs=[dict(s="ACGTUACG", count=1)]),
    dict(kind="dbg", k=3, seqs=[dict(s="acgrtt", count=2), dict(s="acgatt", count=1)]),
    dict(kind="kmap", w=64, k=4, sparse=False, s="acg"),
    dict(kind="kmap", w=64, k=4, sparse=False, s="acgt"),
    dict(kind="kmap", w=64, k=4, sparse=False, s="acgtnacgta"),
    dict(kind="kmap", w=64, k=5, sparse=True, s="acgtgcatta"),
    dict(kind="kmap", w=64, k=4, sparse=True, s="acgtgcatta"),
    dict(kind="kmap", w=64, k=5, sparse=False, s="acgtgcatta"),
    dict(kind="kmap", w=128, k=63, sparse=True, s="acgtgcattagcatcgatcgactagctacgatcgatcagctacgactagcatcgacgatcgatcgatgcatgcatcgat"),
    dict(kind="c4", s=""),
    dict(kind="c4", s="ac"),
    dict(kind="c4", s="acgt"),
    dict(kind="c4", s="acgtacgtnnacguu"),
    dict(kind="c4", s="a" * 300),
]


def gen_dbg(rng, big=False):
    r = rng.random()
    if r < 0.1:
        k = rng.choice([2, 3, 30, 31])
    elif r < 0.75:
        k = rng.randrange(2, 8)
    else:
        k = rng.randrange(8, 32)
    nseq = rng.choice([1, 1, 2, 3, 4, 6]) if not big else rng.randrange(1, 12)
    shape = rng.random()
    L = rng.choice([k - 1, k, k, k + 1, k + 2, k + 5, 2 * k + 3, 3 * k + 7]) if rng.random() < 0.5 else rng.randrange(max(1, k - 1), k + (60 if big else 30))
    L = max(1, L)
    base = rand_seq(rng, L, "acgt" if rng.random() < 0.8 else "ac")
    if shape < 0.25 and L >= 2 * k:
        # repeat creating a cycle or a branch
        i = rng.randrange(0, L - k + 1)
        j = rng.randrange(0, L)
        rep = base[i:i + rng.choice([k - 1, k, k + 1])]
        base = base[:j] + rep + base[j:]
    seqs = []
    namb = 0
    for _ in range(nseq):
        s = base
        for _ in range(rng.choice([0, 0, 1, 1, 2, 3])):
            s = mutate(rng, s)
        if rng.random() < 0.25:
            a = rng.randrange(0, max(1, len(s) // 2))
            s = s[a:a + rng.choice([k - 1, k, k + 1, len(s)])]
        if rng.random() < 0.15 and namb < 2:
            # ambiguity codes multiply the nodes (and the run time of Push) by up to 4 each: at most two ambiguous sequences per set
            namb += 1
            s = sprinkle(rng, s, 0.8, alpha="ryswkm" * 3 + "bdhvn", maxn=rng.choice([1, 1, 2]))
        if rng.random() < 0.05:
            s = s.upper()
        if rng.random() < 0.05:
            s = s.replace("t", "u", 1)
        seqs.append(dict(s=s, count=rng.choice([1, 1, 1, 2, 3, 7, 100, 12345])))
    if nseq == 1 and rng.random() < 0.5:
        seqs[0]["count"] = 1
    return dict(kind="dbg", k=k, seqs=seqs)


def gen_kmap(rng):
    w = rng.choice([64, 64, 128, 128, 256])
    sparse = rng.random() < 0.4
    kmax = w // 2
    r = rng.random()
    if r < 0.25:
        k = rng.choice([kmax, kmax - 1, kmax - 2, 2, 3, 4])
    elif r < 0.7:
        k = rng.randrange(2, min(kmax, 16) + 1)
    else:
        k = rng.randrange(2, kmax + 1)
    ke = eff_k(k, sparse)
    if 2 * ke > w:
        k -= 2
        ke = eff_k(k, sparse)
    L = rng.choice([ke - 1, ke, ke + 1, ke + 2, 2 * ke, 2 * ke + 1, w // 2, w // 2 + 1, w // 2 + ke]) if rng.random() < 0.5 else rng.randrange(max(0, ke - 2), ke + 80)
    s = rand_seq(rng, max(0, L), rng.choice(["acgt", "acgt", "acgt", "at", "ac", "gt"]))
    if rng.random() < 0.15 and len(s) > 2:
        # palindromic stretch: k-mer = its reverse complement
        h = s[:len(s) // 2]
        s = h + rc(h)
    if rng.random() < 0.3:
        s = sprinkle(rng, s, 0.8, AMBIG + "u", maxn=rng.choice([1, 2, 4]))
    if rng.random() < 0.05:
        s = s.upper()
    return dict(kind="kmap", w=w, k=k, sparse=sparse, s=s)


def gen_c4(rng):
    L = rng.choice([0, 1, 2, 3, 4, 5, 6, 7, 8]) if rng.random() < 0.3 else rng.randrange(4, 400)
    s = rand_seq(rng, L, rng.choice(["acgt", "acgt", "ac", "a", "acgtu"]))
    if rng.random() < 0.3:
        s = sprinkle(rng, s, 0.8, AMBIG, maxn=3)
    if rng.random() < 0.1:
        s = s.upper()
    return dict(kind="c4", s=s, reuse=rng.random() < 0.5)


def gen_cases(ctx, n):
    rng = ctx.rng
    cases = [dict(c) for c in CORPUS]
    for _ in range(n):
        cases.append(gen_dbg(rng))
    for _ in range(n):
        cases.append(gen_kmap(rng))
    for _ in range(max(20, n // 4)):
        cases.append(gen_c4(rng))
    return cases


def strip(c):
    return {k: v for k, v in c.items() if k != "tag"}


# ------------------------------------------------------------------ Coq rendering
def nlist(l):
    return "[" + ";".join(str(x) for x in l) + "]"


def seq_term(s):
    return nlist(s.lower().encode())


def case_term(c, o, o_rc=None):
    if c["kind"] == "dbg":
        seqs = "[" + ";".join("(%s,%d)" % (seq_term(q["s"]), q["count"]) for q in c["seqs"]) + "]"
        nodes = "[" + ";".join("(%s,%d)" % (n["kmer"], n["w"]) for n in o.get("nodes") or []) + "]"
        heads = nlist(o.get("heads") or [])
        if o["pathnil"] or o["pathpanic"] or not o.get("path"):
            pw = "None"
        else:
            wt = {n["kmer"]: n["w"] for n in o["nodes"]}
            pw = "(Some %d)" % sum(wt.get(x, 0) for x in o["path"])
        full = len(o.get("nodes") or []) <= FULL_NODES
        return "CDbg %d %s %s %s %s %s %s" % (c["k"], seqs, nodes, heads, "true" if full else "false", "true" if o["hascycle"] else "false", pw)
    if c["kind"] == "kmap":
        def ob(x):
            if x["kind"] != "kmap":
                return "None"
            return "(Some %s)" % nlist(sorted(obs_vals(x)))
        return "CKmap %d %d %s %s %s %s" % (c["w"], c["k"], "true" if c["sparse"] else "false", seq_term(c["s"]), ob(o), ob(o_rc))
    if c["kind"] == "c4":
        if o["kind"] != "c4":
            return "CC4 %s None" % seq_term(c["s"])
        return "CC4 %s (Some %s)" % (seq_term(c["s"]), "[" + ";".join("(%d,%d)" % (a, b) for a, b in o.get("table") or []) + "]")
    raise ValueError(c["kind"])


IMPORTS = "From Coq Require Import NArith List Bool. Import ListNotations. Open Scope N_scope.\nFrom OBI.C19 Require Import Model."

KNOWN_TEXT = {
    "iupac-prefix-multiplicity": "DeBruijnGraph.Push counts a k-mer window once per IUPAC expansion of the bases that precede it "
                                 "(`nac` gives weight 4 to `ac`, `acn` gives 1): weights of sequences with ambiguity codes are not "
                                 "count x occurrences under any symmetric reading",
    "count4-uint16-wrap": "Count4Mer tables are uint16: a 4-mer occurring more than 65535 times in one sequence wraps (poly-a of 65539 bases counts 0)",
}


def evaluate(ctx, cases, broken, label, corr=True):
    # run s and rc(s) for the index cases
    flat, where = [], []
    for c in cases:
        where.append(len(flat))
        flat.append(strip(c))
        if c["kind"] == "kmap":
            flat.append(dict(strip(c), s=rc(c["s"].lower())))
    obs_flat = ctx.vh_robust("c19", flat, timeout=600, one_timeout=30)
    obs = [(obs_flat[i], obs_flat[i + 1] if cases[j]["kind"] == "kmap" else None) for j, i in enumerate(where)]
    nviol = 0
    for i, (c, (o, o2)) in enumerate(zip(cases, obs)):
        key = None
        if o["kind"] == "crash" or (o2 and o2["kind"] == "crash"):
            fails = ["harness process crashed or hung"]
        elif c["kind"] == "dbg":
            fails, key = check_dbg(c, o)
        elif c["kind"] == "kmap":
            fails = check_kmap(c, o, o2)
        else:
            fails, key = check_c4(c, o)
        if key:
            if ctx.kf_match(key):
                ctx.known(key, KNOWN_TEXT[key])
            else:
                fails = fails + [KNOWN_TEXT[key]]
        if fails:
            nviol += 1
            if nviol <= 4:
                ctx.violation("%s_oracle_%d" % (label, i), dict(property="C19", kind="direct-oracle", case=strip(c), failures=fails,
                                                              implementation=o, implementation_rc=o2))
    mism = []
    if corr:
        # (the 65 kb witness of the uint16 wrap is checked by the oracle only: its literal overflows coqc's stack)
        idx = [i for i, (o, o2) in enumerate(obs) if o["kind"] != "crash" and not (o2 and o2["kind"] == "crash")
               and len(cases[i].get("s", "")) <= 5000]
        bad, err = ctx.correspond(label, IMPORTS, [case_term(cases[i], *obs[i]) for i in idx], shard=25 if len(idx) < 2000 else 150)
        if bad is None:
            broken.append(dict(kind="correspondence", detail=err))
        else:
            mism = [idx[i] for i in bad]
    return obs, mism, nviol


def nontrivial(c):
    if c["kind"] == "dbg":
        return any(len(q["s"]) >= c["k"] for q in c["seqs"])
    if c["kind"] == "kmap":
        return len(c["s"]) > eff_k(c["k"], c["sparse"])
    return len(c["s"]) >= 4


def run(ctx, broken):
    n = 220 if ctx.quick else 2500
    cases = gen_cases(ctx, n)
    if not ctx.quick:
        cases.append(dict(kind="c4", s="a" * 65539, tag="known:count4-uint16-wrap"))
        # exhaustive small scope: every sequence over {a,c,g,t} of length 1..6 (dense k=2, sparse k=3, graph k=2 and k=3)
        nex = 0
        for L in range(1, 7):
            for t in itertools.product("acgt", repeat=L):
                s = "".join(t)
                cases.append(dict(kind="kmap", w=64, k=2, sparse=False, s=s))
                cases.append(dict(kind="kmap", w=64, k=3, sparse=True, s=s))
                cases.append(dict(kind="dbg", k=2 + (nex % 2), seqs=[dict(s=s, count=1 + nex % 3)]))
                nex += 1
        ctx.cov["exhaustive"] = "all %d sequences over {a,c,g,t} of length 1..6: index dense k=2 and sparse k=3 on both strands, graph of the single sequence k=2/3" % nex
    obs, mism, nviol = evaluate(ctx, cases, broken, "main")
    ctx.cov["evaluations"] = len(cases) + sum(1 for c in cases if c["kind"] == "kmap")
    ctx.cov["distinct_nontrivial"] = len({json.dumps(strip(c), sort_keys=True) for c in cases if nontrivial(c)})
    ctx.cov["rule"] = ("non-trivial = graph case with a sequence of length >= k / index case with a sequence longer than the effective k / "
                       "4-mer case of length >= 4; distinct = distinct JSON case")
    dist = Counter()
    for c, (o, o2) in zip(cases, obs):
        if c["kind"] == "dbg":
            kind = "empty" if not o.get("nodes") else "cycle" if o.get("hascycle") else "acyclic"
            amb = "iupac" if any(ch in AMBIG for q in c["seqs"] for ch in q["s"].lower()) else "acgt"
            dist["dbg/k%s/%s/%s" % ("<8" if c["k"] < 8 else "8-31", kind, amb)] += 1
        elif c["kind"] == "kmap":
            dist["kmap/%d/%s/%s" % (c["w"], "sparse" if c["sparse"] else "dense", "2k=w" if 2 * eff_k(c["k"], c["sparse"]) == c["w"] else "2k<w")] += 1
        else:
            dist["c4/len%s" % ("<4" if len(c["s"]) < 4 else ">=4")] += 1
    ctx.cov["distribution"] = dict(dist)
    ctx.samples = [dict(case=strip(c), implementation=o) for c, (o, o2) in list(zip(cases, obs))[:2] + list(zip(cases, obs))[-2:]]
    ctx.cov["model_vs_impl_mismatches"] = len(mism)
    if mism and not ctx.violations:
        more = gen_cases(ctx, 3000)
        evaluate(ctx, more, [], "search", corr=False)
        if not ctx.violations:
            i = mism[0]
            broken.append(dict(kind="correspondence", name="corr:C19/%s" % cases[i]["kind"], first_diverging_case=strip(cases[i]),
                               implementation=obs[i][0], n_diverging=len(mism)))
    elif mism:
        ctx.cov["note"] = "model and implementation diverge on %d cases (violations reported by the direct oracle)" % len(mism)


def replay(ctx, rp):
    c = rp["case"]
    obs, mism, nviol = evaluate(ctx, [c], [], "replay")
    print("replay:", json.dumps(c), "->", json.dumps(obs[0][0])[:600], "| oracle:", "VIOLATION" if ctx.violations else "ok",
          "| model:", "mismatch" if mism else "agrees")
