#!/usr/bin/env python3
"""Run the repository's pinned test suite with the verif guard OFF and compare with BASELINE.json (71 stable tests)."""
import json, subprocess, sys, os
repo = sys.argv[1] if len(sys.argv) > 1 else "/repo"
base = json.load(open("/root/.vp/BASELINE.json"))
env = dict(os.environ, GOPROXY="off", GOSUMDB="off", GOTOOLCHAIN="local", CGO_CFLAGS="-w", GOFLAGS="")
p = subprocess.run("go test -json -vet=off -count=1 -timeout 25m ./...", shell=True, cwd=repo, env=env, capture_output=True)
passed = set()
for l in p.stdout.decode("utf8", "replace").splitlines():
    try:
        e = json.loads(l)
    except Exception:
        continue
    if e.get("Action") == "pass" and e.get("Test"):
        passed.add(e["Package"] + "::" + e["Test"])
missing = [t for t in base["stable_pass"] if t not in passed]
# some pinned tests depend on Go map iteration order (obiutils TestSetString): retry the missing ones alone
still = []
for t in missing:
    pkg, name = t.split("::")
    ok = False
    for _ in range(8):
        q = subprocess.run("go test -vet=off -count=1 -run '^%s$' %s" % (name.split("/")[0], pkg), shell=True, cwd=repo, env=env, capture_output=True)
        if q.returncode == 0:
            ok = True
            break
    if not ok:
        still.append(t)
    else:
        print("flaky (passed on retry):", t)
missing = still
print("stable tests passing: %d / %d" % (len(base["stable_pass"]) - len(missing), len(base["stable_pass"])))
for t in missing:
    print("MISSING", t)
sys.exit(1 if missing else 0)
